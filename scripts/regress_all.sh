#!/bin/bash
# usage: scripts/regress_all.sh
# Final regression of the machinery itself: every behaviour-preserving patch under refactors/ must leave all 20
# checks silent, and every seeded change under seeded/ must make the check(s) named in its meta.json exit 1.
ROOT="$(cd "$(dirname "$0")/.." && pwd)"; cd "$ROOT"
echo "### refactors"
for x in refactors/*/; do
  x=${x%/}; out=$(scripts/refactor.sh $x/patch.diff 2>&1); echo "== $x :: $(echo "$out" | grep -c "^silent") silent; $(echo "$out" | grep -v "^silent" | tr "\n" " ")"
done
echo "### seeded"
for d in seeded/*/; do
  d=${d%/}; id=$(basename $d)
  if grep -q '"retired": true' $d/meta.json; then echo "retired $id (neutralised by a later repair of the library; see meta.json)"; continue; fi
  props=$(python3 - "$d/meta.json" <<'PY'
import json,sys,re
m=json.load(open(sys.argv[1]))
ps=re.findall(r'\bC\d\d\b', m.get('caught_by',''))
seen=[]
for p in ps:
    if p not in seen: seen.append(p)
print(' '.join(seen[:2]) or m['property'])
PY
)
  out=$(scripts/mutant.sh $d/patch.diff $props 2>&1 | grep -E '^C[0-9]+ exit=' | cut -c1-160)
  if echo "$out" | grep -q 'exit=1'; then echo "caught $id :: $(echo "$out" | grep 'exit=1' | head -1)"; else echo "MISSED $id ($props) :: $out"; fi
done
