#!/usr/bin/env python3
import json, sys, glob, os
import jsonschema
root = os.path.dirname(os.path.dirname(os.path.abspath(__file__)))
jsonschema.validate(json.load(open(root + '/MANIFEST.json')), json.load(open('/root/.vp/MANIFEST.schema.json')))
es = json.load(open('/root/.vp/EVIDENCE.schema.json'))
for f in sorted(glob.glob(root + '/evidence/*.json')):
    jsonschema.validate(json.load(open(f)), es)
    print('ok', os.path.basename(f))
print('manifest ok')
