# Source this file: resolves the Go toolchain for philpearl/avro (go 1.24) offline.
export GOFLAGS=-mod=mod GOPROXY=off GOSUMDB=off GOTOOLCHAIN=local GONOSUMDB='*' GONOSUMCHECK=1 GOFLAGS=-mod=mod
VERIF_ROOT="$(cd "$(dirname "${BASH_SOURCE[0]}")/.." && pwd)"
export VERIF_ROOT
_tc="$(ls -d /root/go/pkg/mod/golang.org/toolchain@v0.0.1-go1.24.0.linux-amd64 2>/dev/null | head -1)"
if [ -n "$_tc" ] && [ -x "$_tc/bin/go" ]; then
  export VGO="$_tc/bin/go"
elif GOTOOLCHAIN=local go version 2>/dev/null | grep -Eq 'go1\.(2[4-9]|[3-9][0-9])'; then
  export VGO="$(command -v go)"
else
  # last resort: let the go command switch toolchains itself
  export GOTOOLCHAIN=auto
  unset GOSUMDB
  export VGO="$(command -v go)"
fi
export VGO126="$(command -v go1.26.8 2>/dev/null || true)"
