#!/bin/bash
# usage: scripts/mutant.sh <patch> <prop> [<prop>...]
# Applies a patch to a scratch worktree of /repo (never to /repo itself), confirms the repository suite still
# passes there (hooks off), runs the given checks (quick) against the scratch tree in an isolated output directory,
# expecting a violation, and removes the worktree.
patch="$(realpath "$1")"; shift
ROOT="$(cd "$(dirname "$0")/.." && pwd)"; cd "$ROOT" && . scripts/goenv.sh
wt=$(mktemp -d /tmp/mut.XXXXXX)
git -C /repo worktree add -q --detach "$wt/repo" HEAD || exit 2
trap 'git -C /repo worktree remove --force "$wt/repo" >/dev/null 2>&1; rm -rf "$wt"' EXIT
git -C "$wt/repo" apply "$patch" 2>/dev/null || git -C "$wt/repo" apply --3way "$patch" >/dev/null 2>&1 || { echo "patch does not apply"; exit 2; }
( cd "$wt/repo" && "$VGO" build ./... && "$VGO" test -count=1 ./... >"$wt/suite.log" 2>&1 ) ; suite=$?
if [ $suite -ne 0 ]; then echo "SUITE-FAILS (mutant not admissible)"; tail -5 "$wt/suite.log"; exit 3; fi
rc=0
for p in "$@"; do
  out=$(VERIF_REPO="$wt/repo" VERIF_SCRATCH="$wt/out" timeout 1500 ./check "$p" quick 2>&1); code=$?
  n=$(echo "$out" | grep -c '^VIOLATION')
  echo "$p exit=$code violations_printed=$n :: $(echo "$out" | grep -A1 '^VIOLATION' | grep clause | head -1 | cut -c1-260)"
  if [ $code -ne 1 ]; then rc=1; echo "$out" | tail -2; fi
done
exit $rc
