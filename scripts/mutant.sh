#!/bin/bash
# usage: scripts/mutant.sh <patch> <prop> [<prop>...]
# Applies a patch to /repo, confirms the repository suite still passes (hooks off), runs the given
# checks (quick) expecting a violation, and always restores /repo.
patch="$1"; shift
cd /verif && . scripts/goenv.sh
if ! git -C /repo diff --quiet; then echo "/repo has uncommitted changes"; exit 2; fi
git -C /repo apply "$(cd /verif && realpath "$patch")" || { echo "patch does not apply"; exit 2; }
trap 'git -C /repo checkout -- . ; git -C /repo clean -fdq' EXIT
( cd /repo && "$VGO" build ./... && "$VGO" test -count=1 ./... >/tmp/mutant_suite.$$ 2>&1 ) ; suite=$?
if [ $suite -ne 0 ]; then echo "SUITE-FAILS (mutant not admissible)"; tail -5 /tmp/mutant_suite.$$; rm -f /tmp/mutant_suite.$$; exit 3; fi
rm -f /tmp/mutant_suite.$$
rc=0
for p in "$@"; do
  out=$(timeout 1500 ./check "$p" quick 2>&1); code=$?
  n=$(echo "$out" | grep -c '^VIOLATION')
  echo "$p exit=$code violations_printed=$n :: $(echo "$out" | grep -A1 '^VIOLATION' | grep clause | head -1 | cut -c1-220)"
  if [ $code -ne 1 ]; then rc=1; fi
done
exit $rc
