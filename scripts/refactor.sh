#!/bin/bash
# usage: scripts/refactor.sh <patch> [props...]
# Applies a behaviour-preserving patch to a scratch worktree of /repo, confirms the repository suite passes,
# runs the checks (quick) in an isolated output directory and expects every one of them to stay silent (exit 0).
patch="$(realpath "$1")"; shift
props=${@:-C01 C02 C03 C04 C05 C06 C07 C08 C09 C10 C11 C12 C13 C14 C15 C16 C17 C18 C19 C20}
ROOT="$(cd "$(dirname "$0")/.." && pwd)"; cd "$ROOT" && . scripts/goenv.sh
wt=$(mktemp -d /tmp/rf.XXXXXX)
git -C /repo worktree add -q --detach "$wt/repo" HEAD || exit 2
trap 'git -C /repo worktree remove --force "$wt/repo" >/dev/null 2>&1; rm -rf "$wt"' EXIT
git -C "$wt/repo" apply "$patch" 2>/dev/null || git -C "$wt/repo" apply --3way "$patch" >/dev/null 2>&1 || { echo "patch does not apply"; exit 2; }
( cd "$wt/repo" && "$VGO" build ./... && "$VGO" test -count=1 ./... >"$wt/suite.log" 2>&1 ) || { echo "SUITE-FAILS"; tail -5 "$wt/suite.log"; exit 3; }
rc=0
for p in $props; do
  out=$(VERIF_REPO="$wt/repo" VERIF_SCRATCH="$wt/out" timeout 1500 ./check "$p" quick 2>&1); code=$?
  if [ $code -ne 0 ]; then
    rc=1
    echo "ALARM $p exit=$code :: $(echo "$out" | grep -A1 -E '^(VIOLATION|CHECK-BROKEN)' | grep -E 'clause|CHECK-BROKEN' | head -2 | cut -c1-400)"
    mkdir -p "$ROOT"/.work/refactor_alarms; cp "$wt"/out/replay/$p-* "$ROOT"/.work/refactor_alarms/ 2>/dev/null
  else
    echo "silent $p"
  fi
done
exit $rc
