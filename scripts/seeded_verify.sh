#!/bin/bash
# usage: scripts/seeded_verify.sh <seed-dir> <demo-relative-path> [go test extra flags...]
# Confirms, in a fresh scratch worktree of /repo, that (a) the patch applies, (b) the library still builds and the
# existing suite passes with it, (c) the demonstration fails with the patch and (d) passes without it.
sd="$(realpath "$1")"; demo="$2"; shift 2
. "$(cd "$(dirname "$0")" && pwd)/goenv.sh"
wt=/tmp/seedverify.$$
git -C /repo worktree add -q --detach "$wt" HEAD || exit 2
trap 'git -C /repo worktree remove --force "$wt" >/dev/null 2>&1' EXIT
cd "$wt" || exit 2
demofile=$(ls "$sd"/*.go 2>/dev/null | head -1)
[ -z "$demofile" ] && { echo "no demo .go file in $sd"; exit 2; }
mkdir -p "$(dirname "$demo")"; cp "$demofile" "$demo"
pkg="./$(dirname "$demo")"
echo "--- without patch: demo must pass"
"$VGO" test -count=1 "$@" "$pkg" > /tmp/sv.$$ 2>&1; a=$?; tail -3 /tmp/sv.$$
git apply "$sd/patch.diff" 2>/dev/null || git apply --3way "$sd/patch.diff" >/dev/null 2>&1 || { echo "PATCH DOES NOT APPLY"; exit 2; }
echo "--- with patch: build + existing suite must pass (demo moved away)"
mv "$demo" /tmp/demo.$$.go
"$VGO" build ./... && "$VGO" test -count=1 ./... > /tmp/sv.$$ 2>&1; b=$?; tail -4 /tmp/sv.$$
mv /tmp/demo.$$.go "$demo"
echo "--- with patch: demo must fail"
"$VGO" test -count=1 "$@" "$pkg" > /tmp/sv.$$ 2>&1; c=$?; tail -6 /tmp/sv.$$
rm -f /tmp/sv.$$
echo "RESULT demo_without_patch=$a suite_with_patch=$b demo_with_patch=$c"
if [ $a -eq 0 ] && [ $b -eq 0 ] && [ $c -ne 0 ]; then echo "SEED-OK"; exit 0; fi
echo "SEED-REJECTED"; exit 1
