#!/bin/bash
# usage: scripts/runall.sh [quick|thorough] [props...]   (VERIF_SEED honoured)
cd "$(dirname "$0")/.." || exit 1
tier=${1:-quick}; shift
props=${@:-C01 C02 C03 C04 C05 C06 C07 C08 C09 C10 C11 C12 C13 C14 C15 C16 C17 C18 C19 C20}
rc=0
for p in $props; do
  s=$(date +%s)
  out=$(./check $p $tier 2>&1); code=$?
  e=$(( $(date +%s) - s ))
  echo "$p exit=$code ${e}s :: $(echo "$out" | grep -E "^$p tier" | tail -1)"
  echo "$out" | grep -E '^(VIOLATION|CHECK-BROKEN)' | head -3
  [ $code -ne 0 ] && rc=1
done
exit $rc
