#!/usr/bin/env python3
"""Regenerates /verif/MANIFEST.json from the table below and the set of checks the worker binary registers."""
import json, subprocess, os
root = os.path.dirname(os.path.dirname(os.path.abspath(__file__)))
props = [json.loads(l) for l in open(os.path.join(root, 'properties.jsonl'))]
try:
    have = subprocess.check_output([os.path.join(root, 'bin/vw-plain'), 'list']).decode().split()
except Exception:
    have = []
info = json.load(open(os.path.join(root, 'scripts/checks.json')))
checks, na = [], []
for p in props:
    pid = p['id']
    if pid in have and pid in info:
        i = info[pid]
        checks.append({
            "property_id": pid,
            "quick_cmd": "./check %s quick" % pid,
            "thorough_cmd": "./check %s thorough" % pid,
            "evidence_file": "/verif/evidence/%s.json" % pid,
            "replay_cmd_template": "./check %s --replay {path}" % pid,
            "engine": "vw",
            "level_claimed": {"category": i["level"], "text": i["text"], "design_ref": "DESIGN.md §6 %s" % pid},
            "level_note": i["note"],
            "technique": i["technique"],
        })
    else:
        na.append({"property_id": pid, "reason": "no check is registered for this property yet (the monitor is still being built; runtime monitoring applies to it, see DESIGN.md §6 %s)" % pid})
hooks_commits = []
try:
    out = subprocess.check_output(['git', '-C', '/repo', 'log', '--format=%H %s']).decode().strip().split('\n')
    hooks_commits = [l.split()[0] for l in out if l.split(' ', 1)[1].startswith('verif:')]
except Exception:
    pass
m = {
    "version": 1,
    "setup_cmd": "bash scripts/setup.sh",
    "hooks": {
        "guard": "verif",
        "enable": "go build -tags verif (harness module with replace github.com/philpearl/avro => /repo)",
        "baseline_off_cmd": "cd /repo && . /verif/scripts/goenv.sh && \"$VGO\" test -vet=off -count=1 -timeout 25m ./...",
        "source_commits": hooks_commits,
        "add_only": True,
    },
    "engines": [
        {"name": "vw", "path": "harness/cmd/vw", "serves_properties": [c["property_id"] for c in checks],
         "kind_free_text": "orchestrator + child worker processes (journal before every call), seeded generators, reference Avro implementation (refavro), executable models, sanitizer build variants (checkptr, race, asan) each proven live by a canary process"},
    ],
    "checks": checks,
    "not_applicable": na,
    "notes": "Technique family: runtime monitoring and sanitizers. ./check <id> rebuilds the worker from /repo's working tree with -tags verif. Exit 0 held, 1 violation (VIOLATION lines), 3 check broken. Known findings: known_findings.json.",
}
json.dump(m, open(os.path.join(root, 'MANIFEST.json'), 'w'), indent=1)
print("checks:", [c["property_id"] for c in checks], "not_applicable:", [n["property_id"] for n in na])
