#!/usr/bin/env python3
"""Regenerates known_findings.json. Edited by hand when a defect is triaged; never touched at check run time."""
import json, subprocess, os
root = os.path.dirname(os.path.dirname(os.path.abspath(__file__)))
log = subprocess.check_output(['git', '-C', '/repo', 'log', '--format=%h %s']).decode().strip().split('\n')
def commit(sub):
    for l in log:
        if sub in l:
            return l.split()[0]
    raise Exception("no commit matching " + sub)
F = []
def fixed(id, prop, sub, what, witness=None):
    c = commit(sub)
    e = {"id": id, "property": prop, "status": "fixed", "commit": c, "what": what, "line": "fixed: property=%s %s %s" % (prop, c, what)}
    if witness:
        e["witness"] = witness
    F.append(e)
def open_(id, prop, what, witness, quarantine):
    F.append({"id": id, "property": prop, "status": "open", "what": what, "witness": witness, "quarantine": quarantine})

fixed("D01", "C02", "16-bit codec for int16", "int16 fields were encoded/decoded with the 32-bit codec: wrong wire bytes, 4-byte store into a 2-byte field (also violates C01, C03, C05, C13)", "findings/D01-int16-width.json")
fixed("D04", "C11", "MapCodec.New returns a pointer", "*map[string]T and map-of-map targets: decoded map referenced only from a non-pointer word of a runtime map header, reclaimed by the next GC (also C01, C03); witness obtained by re-applying the pre-fix code (mutants/D04-revert-mapcodec-new.patch) under C11", "findings/D04-map-behind-pointer-gc.json")
fixed("D03", "C03", "allocate the map value slot", "maps whose values are a [null,T] union (pointer values, null.* wrappers, time.Time) dereferenced nil while decoding (also C01, C20)")
fixed("D05", "C02", "zero value for a nil pointer", "nil *[]T / *map[string]T wrote no bytes at all, producing an undecodable record (also C01)")
fixed("D18", "C02", "pointer to a null value is written as null", "non-nil pointer to a nil pointer / invalid null.* wrapper was written as the non-null branch")
fixed("D02a", "C02", "empty omitempty string is written as null", "zero omitempty string was written as the non-null branch (omitempty flag dropped by buildUnionCodec)", "findings/D02-omitempty-string-not-null.json")
fixed("D09", "C18", "timestamp fractions", "timestamp with a trailing fraction separator panicked (C06, C18); fractions longer than nine digits parsed as zero", "findings/D09a-parsetime-trailing-separator-panic.json")
fixed("D10a", "C19", "logical date: decode negative", "logical date: every negative day count decoded millions of years in the future; pre-1970 times stored as the following day (also C13)", "findings/D10a-date-negative-days.json")
fixed("D10b", "C19", "time long codec writes in the unit", "timestamp-millis and plain-long time fields were always written in microseconds (also C13)", "findings/D10b-longcodec-write-unit.json")
EXTRA = os.path.join(root, 'scripts', 'findings_extra.py')
if os.path.exists(EXTRA):
    exec(open(EXTRA).read())
open_("c01.nested-null", "C01",
      "a non-nil pointer whose pointee is itself null (nil inner pointer of **T, invalid *null.X, zero *time.Time) reads back as a nil outer pointer: [null,T] has a single null branch, so the distinction cannot be represented; witness: struct{PP **int} with PP=&(*int)(nil)",
      "props/roundtrip.go:findingNestedNull", ["c01.nested-null"])
json.dump({"findings": F}, open(os.path.join(root, 'known_findings.json'), 'w'), indent=1)
print(len(F), "findings")
