#!/bin/bash
# Builds the verification framework offline from files on disk and warms the Go build cache
# for the sanitizer variants. Run once in /verif after a fresh restore.
cd "$(dirname "$0")/.." || exit 1
. scripts/goenv.sh
mkdir -p bin .work evidence replay
set -e
cd harness
"$VGO" build -tags verif -o ../bin/vw-plain ./cmd/vw
for v in checkptr race asan; do
  case $v in
    checkptr) "$VGO" build -tags verif -gcflags=all=-d=checkptr -o ../bin/vw-checkptr ./cmd/vw & ;;
    race) "$VGO" build -tags verif -race -o ../bin/vw-race ./cmd/vw & ;;
    asan) "$VGO" build -tags verif -asan -o ../bin/vw-asan ./cmd/vw & ;;
  esac
done
wait
# self-validation of the reference Avro implementation against the BigQuery-written files shipped with the library
"$VGO" test -count=1 ./refavro > ../.work/refavro_selftest.log 2>&1 || { echo "refavro self-test failed"; cat ../.work/refavro_selftest.log; exit 1; }
echo "setup ok: $(ls ../bin | tr '\n' ' ')"
