#!/bin/bash
# usage: scripts/final_validation.sh
# The whole validation of the machinery in one go (hours): thorough tier of every check on the unchanged tree,
# then every behaviour-preserving patch (all checks must stay silent), then every seeded change (its check must fire).
ROOT="$(cd "$(dirname "$0")/.." && pwd)"; cd "$ROOT"
echo "### thorough"
for p in C01 C02 C03 C04 C05 C06 C07 C08 C09 C10 C11 C12 C13 C14 C15 C16 C17 C18 C19 C20; do
  s=$(date +%s); out=$(VERIF_SCRATCH="$ROOT/out" ./check $p thorough 2>&1); code=$?
  echo "$p exit=$code $(( $(date +%s)-s ))s :: $(echo "$out" | grep -v KNOWN | tail -1)"
  echo "$out" | grep -E "^VIOLATION|CHECK-BROKEN|clause=" | head -6
done
scripts/regress_all.sh
