fixed("D12", "C15", "error for self-referential types", "SchemaForType on a self-referential struct type overflowed the stack (process-fatal) instead of returning an error (also C06)", "findings/D12-recursive-type-stack-overflow.json")
open_("c15.named-struct-reused", "C15",
      "a named struct type used at more than one position is defined again at every position instead of being referenced by name (Avro: every named type is defined once); repair needs named-type references in schema generation, the parser and the codec builder; witness: statictypes.HReused{A HInner; B HInner; C []HInner} defines HInner 3 times",
      "findings/D13-named-struct-defined-twice.json", ["c15.named-struct-reused"])
fixed("D02b", "C13", "honour the position of null", "caller schemas with null second ([T,null]): null was written as the T selector with no value, strings under the null selector (invalid stream)", "findings/D02b-null-second-union-write.json")
fixed("D11", "C13", "null.Float under a float schema", "null.Float under a float schema wrote the low four bytes of the float64 bit pattern", "findings/D11-nullfloat-under-float.json")
fixed("D07a", "C03", "missing avro.codec entry", "a container header without avro.codec (legal: means null) made ReadFile panic with a nil decompressor (also C06, C07)", "findings/D07a-readfile-no-codec-nil-decoder.json")
