fixed("D12", "C15", "error for self-referential types", "SchemaForType on a self-referential struct type overflowed the stack (process-fatal) instead of returning an error (also C06)", "findings/D12-recursive-type-stack-overflow.json")
open_("c15.named-struct-reused", "C15",
      "a named struct type used at more than one position is defined again at every position instead of being referenced by name (Avro: every named type is defined once); repair needs named-type references in schema generation, the parser and the codec builder; witness: statictypes.HReused{A HInner; B HInner; C []HInner} defines HInner 3 times",
      "findings/D13-named-struct-defined-twice.json", ["c15.named-struct-reused"])
