package refavro

import (
	"encoding/binary"
	"errors"
	"fmt"
	"math"
	"sort"
	"strings"
)

// Datum model: nil, bool, int32 (int / enum index), int64, float32, float64,
// []byte (bytes and fixed), string, []any (array), *Map, *Record, *Union.

type Record struct{ Fields []any }
type MapEntry struct {
	Key string
	Val any
}
type Map struct{ Entries []MapEntry }
type Union struct {
	Branch int
	Val    any
}

// Site describes one varint / fixed-size element inside an encoding, so that
// structured mutation knows where lengths, counts and selectors are.
type Site struct {
	Off, Len int
	Kind     string // "int","long","len","count","blocksize","selector","enum"
}

// ---------- spec varints ----------

// ZigZag/varint encoder straight from the specification: zig-zag, then
// little-endian base-128 groups, shortest form.
func AppendLong(b []byte, v int64) []byte {
	u := uint64(v<<1) ^ uint64(v>>63)
	for u >= 0x80 {
		b = append(b, byte(u)|0x80)
		u >>= 7
	}
	return append(b, byte(u))
}

var ErrTruncated = errors.New("refavro: truncated varint")
var ErrOverflow = errors.New("refavro: varint longer than 10 bytes or overflows 64 bits")

// ReadLong decodes a varint per the specification rule: error iff truncated,
// more than 10 bytes, or the 10th byte > 1. Returns value, bytes consumed,
// whether the encoding was the shortest form.
func ReadLong(b []byte) (v int64, n int, shortest bool, err error) {
	var u uint64
	var shift uint
	for i := 0; ; i++ {
		if i >= len(b) {
			return 0, i, false, ErrTruncated
		}
		c := b[i]
		if i == 9 && c > 1 {
			return 0, i + 1, false, ErrOverflow
		}
		if i > 9 {
			return 0, i + 1, false, ErrOverflow
		}
		if c < 0x80 {
			u |= uint64(c) << shift
			v = int64(u>>1) ^ -int64(u&1)
			n = i + 1
			shortest = n == len(AppendLong(nil, v))
			return v, n, shortest, nil
		}
		u |= uint64(c&0x7f) << shift
		shift += 7
	}
}

// ---------- encoder with writer choices ----------

// Chooser makes the writer-side choices the specification leaves open.
type Chooser interface {
	// Partition n (>0) items into block lengths, each >= 1, summing to n.
	Partition(n int) []int
	// SizePrefix says whether a block is written with negative count + byte size.
	SizePrefix() bool
}

type plainChooser struct{}

func (plainChooser) Partition(n int) []int { return []int{n} }
func (plainChooser) SizePrefix() bool      { return false }

var Plain Chooser = plainChooser{}

// Encode appends the Avro binary encoding of datum d under schema s.
func Encode(b []byte, s *Schema, d any, ch Chooser) ([]byte, error) {
	if ch == nil {
		ch = Plain
	}
	switch s.Type {
	case "null":
		if d != nil {
			return b, fmt.Errorf("null schema with datum %T", d)
		}
		return b, nil
	case "boolean":
		v, ok := d.(bool)
		if !ok {
			return b, fmt.Errorf("boolean schema with datum %T", d)
		}
		if v {
			return append(b, 1), nil
		}
		return append(b, 0), nil
	case "int":
		v, ok := d.(int32)
		if !ok {
			return b, fmt.Errorf("int schema with datum %T", d)
		}
		return AppendLong(b, int64(v)), nil
	case "enum":
		v, ok := d.(int32)
		if !ok {
			return b, fmt.Errorf("enum schema with datum %T", d)
		}
		return AppendLong(b, int64(v)), nil
	case "long":
		v, ok := d.(int64)
		if !ok {
			return b, fmt.Errorf("long schema with datum %T", d)
		}
		return AppendLong(b, v), nil
	case "float":
		v, ok := d.(float32)
		if !ok {
			return b, fmt.Errorf("float schema with datum %T", d)
		}
		return binary.LittleEndian.AppendUint32(b, math.Float32bits(v)), nil
	case "double":
		v, ok := d.(float64)
		if !ok {
			return b, fmt.Errorf("double schema with datum %T", d)
		}
		return binary.LittleEndian.AppendUint64(b, math.Float64bits(v)), nil
	case "bytes":
		v, ok := d.([]byte)
		if !ok {
			return b, fmt.Errorf("bytes schema with datum %T", d)
		}
		b = AppendLong(b, int64(len(v)))
		return append(b, v...), nil
	case "string":
		v, ok := d.(string)
		if !ok {
			return b, fmt.Errorf("string schema with datum %T", d)
		}
		b = AppendLong(b, int64(len(v)))
		return append(b, v...), nil
	case "fixed":
		v, ok := d.([]byte)
		if !ok || len(v) != s.Size {
			return b, fmt.Errorf("fixed(%d) schema with datum %T", s.Size, d)
		}
		return append(b, v...), nil
	case "record":
		r, ok := d.(*Record)
		if !ok || len(r.Fields) != len(s.Fields) {
			return b, fmt.Errorf("record schema with datum %T", d)
		}
		var err error
		for i, f := range s.Fields {
			if b, err = Encode(b, f.Type, r.Fields[i], ch); err != nil {
				return b, fmt.Errorf("field %q: %w", f.Name, err)
			}
		}
		return b, nil
	case "array":
		a, ok := d.([]any)
		if !ok {
			return b, fmt.Errorf("array schema with datum %T", d)
		}
		if len(a) > 0 {
			idx := 0
			for _, n := range ch.Partition(len(a)) {
				var blk []byte
				var err error
				for j := 0; j < n; j++ {
					if blk, err = Encode(blk, s.Items, a[idx], ch); err != nil {
						return b, err
					}
					idx++
				}
				if ch.SizePrefix() {
					b = AppendLong(b, -int64(n))
					b = AppendLong(b, int64(len(blk)))
				} else {
					b = AppendLong(b, int64(n))
				}
				b = append(b, blk...)
			}
		}
		return AppendLong(b, 0), nil
	case "map":
		m, ok := d.(*Map)
		if !ok {
			return b, fmt.Errorf("map schema with datum %T", d)
		}
		if len(m.Entries) > 0 {
			idx := 0
			for _, n := range ch.Partition(len(m.Entries)) {
				var blk []byte
				var err error
				for j := 0; j < n; j++ {
					e := m.Entries[idx]
					blk = AppendLong(blk, int64(len(e.Key)))
					blk = append(blk, e.Key...)
					if blk, err = Encode(blk, s.Values, e.Val, ch); err != nil {
						return b, err
					}
					idx++
				}
				if ch.SizePrefix() {
					b = AppendLong(b, -int64(n))
					b = AppendLong(b, int64(len(blk)))
				} else {
					b = AppendLong(b, int64(n))
				}
				b = append(b, blk...)
			}
		}
		return AppendLong(b, 0), nil
	case "union":
		u, ok := d.(*Union)
		if !ok || u.Branch < 0 || u.Branch >= len(s.Branches) {
			return b, fmt.Errorf("union schema with datum %T", d)
		}
		b = AppendLong(b, int64(u.Branch))
		return Encode(b, s.Branches[u.Branch], u.Val, ch)
	}
	return b, fmt.Errorf("cannot encode schema type %q", s.Type)
}

// ---------- strict decoder ----------

type Decoder struct {
	B     []byte
	I     int
	Sites []Site // filled when Record is true
	Rec   bool
	// Observations
	LongForms int // varints not in shortest form
	MaxItems  int // guard against absurd counts (0 = 1<<24)
}

func (d *Decoder) long(kind string) (int64, error) {
	v, n, shortest, err := ReadLong(d.B[d.I:])
	if err != nil {
		return 0, fmt.Errorf("at %d: %w", d.I, err)
	}
	if !shortest {
		d.LongForms++
	}
	if d.Rec {
		d.Sites = append(d.Sites, Site{Off: d.I, Len: n, Kind: kind})
	}
	d.I += n
	return v, nil
}

func (d *Decoder) take(n int64) ([]byte, error) {
	if n < 0 || n > int64(len(d.B)-d.I) {
		return nil, fmt.Errorf("at %d: need %d bytes, have %d", d.I, n, len(d.B)-d.I)
	}
	out := d.B[d.I : d.I+int(n)]
	d.I += int(n)
	return out, nil
}

func (d *Decoder) maxItems() int64 {
	if d.MaxItems > 0 {
		return int64(d.MaxItems)
	}
	return 1 << 24
}

// Decode reads one datum of schema s.
func (d *Decoder) Decode(s *Schema) (any, error) {
	switch s.Type {
	case "null":
		return nil, nil
	case "boolean":
		b, err := d.take(1)
		if err != nil {
			return nil, err
		}
		if b[0] > 1 {
			return nil, fmt.Errorf("at %d: boolean byte %d", d.I-1, b[0])
		}
		return b[0] == 1, nil
	case "int", "enum":
		v, err := d.long(s.Type)
		if err != nil {
			return nil, err
		}
		if v < math.MinInt32 || v > math.MaxInt32 {
			return nil, fmt.Errorf("int value %d out of 32-bit range", v)
		}
		if s.Type == "enum" && s.Symbols != nil && (v < 0 || int(v) >= len(s.Symbols)) {
			return nil, fmt.Errorf("enum index %d out of range", v)
		}
		return int32(v), nil
	case "long":
		v, err := d.long("long")
		if err != nil {
			return nil, err
		}
		return v, nil
	case "float":
		b, err := d.take(4)
		if err != nil {
			return nil, err
		}
		return math.Float32frombits(binary.LittleEndian.Uint32(b)), nil
	case "double":
		b, err := d.take(8)
		if err != nil {
			return nil, err
		}
		return math.Float64frombits(binary.LittleEndian.Uint64(b)), nil
	case "bytes":
		l, err := d.long("len")
		if err != nil {
			return nil, err
		}
		b, err := d.take(l)
		if err != nil {
			return nil, err
		}
		return append([]byte{}, b...), nil
	case "string":
		l, err := d.long("len")
		if err != nil {
			return nil, err
		}
		b, err := d.take(l)
		if err != nil {
			return nil, err
		}
		return string(b), nil
	case "fixed":
		b, err := d.take(int64(s.Size))
		if err != nil {
			return nil, err
		}
		return append([]byte{}, b...), nil
	case "record":
		r := &Record{Fields: make([]any, len(s.Fields))}
		for i, f := range s.Fields {
			v, err := d.Decode(f.Type)
			if err != nil {
				return nil, fmt.Errorf("field %q: %w", f.Name, err)
			}
			r.Fields[i] = v
		}
		return r, nil
	case "array":
		out := []any{}
		for {
			c, err := d.long("count")
			if err != nil {
				return nil, err
			}
			if c == 0 {
				return out, nil
			}
			var end = -1
			if c < 0 {
				if c == math.MinInt64 {
					return nil, fmt.Errorf("array count MinInt64")
				}
				c = -c
				bs, err := d.long("blocksize")
				if err != nil {
					return nil, err
				}
				if bs < 0 || bs > int64(len(d.B)-d.I) {
					return nil, fmt.Errorf("array block size %d out of range", bs)
				}
				end = d.I + int(bs)
			}
			if c > d.maxItems() {
				return nil, fmt.Errorf("array count %d too large", c)
			}
			for ; c > 0; c-- {
				v, err := d.Decode(s.Items)
				if err != nil {
					return nil, err
				}
				out = append(out, v)
			}
			if end >= 0 && d.I != end {
				return nil, fmt.Errorf("array block size inexact: at %d want %d", d.I, end)
			}
		}
	case "map":
		out := &Map{}
		for {
			c, err := d.long("count")
			if err != nil {
				return nil, err
			}
			if c == 0 {
				return out, nil
			}
			var end = -1
			if c < 0 {
				if c == math.MinInt64 {
					return nil, fmt.Errorf("map count MinInt64")
				}
				c = -c
				bs, err := d.long("blocksize")
				if err != nil {
					return nil, err
				}
				if bs < 0 || bs > int64(len(d.B)-d.I) {
					return nil, fmt.Errorf("map block size %d out of range", bs)
				}
				end = d.I + int(bs)
			}
			if c > d.maxItems() {
				return nil, fmt.Errorf("map count %d too large", c)
			}
			for ; c > 0; c-- {
				l, err := d.long("len")
				if err != nil {
					return nil, err
				}
				kb, err := d.take(l)
				if err != nil {
					return nil, err
				}
				v, err := d.Decode(s.Values)
				if err != nil {
					return nil, err
				}
				out.Entries = append(out.Entries, MapEntry{Key: string(kb), Val: v})
			}
			if end >= 0 && d.I != end {
				return nil, fmt.Errorf("map block size inexact: at %d want %d", d.I, end)
			}
		}
	case "union":
		sel, err := d.long("selector")
		if err != nil {
			return nil, err
		}
		if sel < 0 || sel >= int64(len(s.Branches)) {
			return nil, fmt.Errorf("union selector %d out of range (%d branches)", sel, len(s.Branches))
		}
		v, err := d.Decode(s.Branches[sel])
		if err != nil {
			return nil, err
		}
		return &Union{Branch: int(sel), Val: v}, nil
	}
	return nil, fmt.Errorf("cannot decode schema type %q", s.Type)
}

// DecodeAll decodes exactly n datums from b and demands that no byte is left.
func DecodeAll(s *Schema, b []byte, n int) ([]any, error) {
	out, _, err := DecodeAllLF(s, b, n)
	return out, err
}

// DecodeAllLF is DecodeAll that also reports how many varints were not in shortest form.
func DecodeAllLF(s *Schema, b []byte, n int) (res []any, longForms int, err error) {
	d := &Decoder{B: b}
	res, err = decodeAll(d, s, n)
	return res, d.LongForms, err
}

func decodeAll(d *Decoder, s *Schema, n int) ([]any, error) {
	b := d.B
	out := make([]any, 0, n)
	for i := 0; i < n; i++ {
		v, err := d.Decode(s)
		if err != nil {
			return out, fmt.Errorf("record %d: %w", i, err)
		}
		out = append(out, v)
	}
	if d.I != len(b) {
		return out, fmt.Errorf("%d bytes left over after %d records", len(b)-d.I, n)
	}
	return out, nil
}

// ---------- datum rendering / comparison ----------

// Render gives a canonical text form of a datum: maps sorted by key (last
// duplicate wins as a reader building a map would), NaN by bits.
func Render(d any) string {
	var b strings.Builder
	render(&b, d)
	return b.String()
}

func render(b *strings.Builder, d any) {
	switch v := d.(type) {
	case nil:
		b.WriteString("null")
	case bool:
		fmt.Fprintf(b, "%v", v)
	case int32:
		fmt.Fprintf(b, "i%d", v)
	case int64:
		fmt.Fprintf(b, "l%d", v)
	case float32:
		fmt.Fprintf(b, "f%08x", math.Float32bits(v))
	case float64:
		fmt.Fprintf(b, "d%016x", math.Float64bits(v))
	case []byte:
		fmt.Fprintf(b, "b%x", v)
	case string:
		fmt.Fprintf(b, "s%q", v)
	case []any:
		b.WriteByte('[')
		for i, e := range v {
			if i > 0 {
				b.WriteByte(',')
			}
			render(b, e)
		}
		b.WriteByte(']')
	case *Map:
		m := map[string]any{}
		for _, e := range v.Entries {
			m[e.Key] = e.Val
		}
		ks := make([]string, 0, len(m))
		for k := range m {
			ks = append(ks, k)
		}
		sort.Strings(ks)
		b.WriteByte('{')
		for i, k := range ks {
			if i > 0 {
				b.WriteByte(',')
			}
			fmt.Fprintf(b, "%q:", k)
			render(b, m[k])
		}
		b.WriteByte('}')
	case *Record:
		b.WriteByte('(')
		for i, e := range v.Fields {
			if i > 0 {
				b.WriteByte(',')
			}
			render(b, e)
		}
		b.WriteByte(')')
	case *Union:
		fmt.Fprintf(b, "u%d:", v.Branch)
		render(b, v.Val)
	default:
		fmt.Fprintf(b, "?%T", d)
	}
}

// DecodeCount reads one block-count varint (recorded as a "count" site).
func (d *Decoder) DecodeCount() (int64, error) { return d.long("count") }
