package refavro

import (
	"bytes"
	"compress/flate"
	"encoding/binary"
	"fmt"
	"hash/crc32"
	"io"

	"github.com/golang/snappy"
)

var Magic = []byte{'O', 'b', 'j', 1}

type Block struct {
	Count      int64
	Start      int    // offset of the count varint
	PayloadOff int    // offset of first payload byte (compressed form)
	PayloadEnd int    // offset one past the payload (compressed form, incl. snappy CRC)
	End        int    // offset one past the sync marker
	Raw        []byte // compressed payload as in the file (incl. snappy CRC)
	Payload    []byte // decompressed
	Records    []any  // decoded datums
}

type Container struct {
	Meta       map[string][]byte
	MetaOrder  []string
	SchemaJSON []byte
	Schema     *Schema
	Codec      string // "" when the header has no avro.codec
	Sync       [16]byte
	HeaderEnd  int
	SyncOff    int // offset of header sync
	Blocks     []Block
	LongForms  int
}

// Decompress undoes the container codec using only the standard library and
// golang/snappy (third party, not library code).
func Decompress(codec string, raw []byte) ([]byte, error) {
	switch codec {
	case "", "null":
		return raw, nil
	case "deflate":
		r := flate.NewReader(bytes.NewReader(raw))
		out, err := io.ReadAll(r)
		if err != nil {
			return nil, fmt.Errorf("deflate: %w", err)
		}
		return out, nil
	case "snappy":
		if len(raw) < 4 {
			return nil, fmt.Errorf("snappy block shorter than its CRC")
		}
		out, err := snappy.Decode(nil, raw[:len(raw)-4])
		if err != nil {
			return nil, fmt.Errorf("snappy: %w", err)
		}
		if crc32.ChecksumIEEE(out) != binary.BigEndian.Uint32(raw[len(raw)-4:]) {
			return nil, fmt.Errorf("snappy: CRC mismatch")
		}
		return out, nil
	}
	return nil, fmt.Errorf("unknown codec %q", codec)
}

func Compress(codec string, payload []byte) ([]byte, error) {
	switch codec {
	case "", "null":
		return payload, nil
	case "deflate":
		var buf bytes.Buffer
		w, _ := flate.NewWriter(&buf, flate.DefaultCompression)
		w.Write(payload)
		w.Close()
		return buf.Bytes(), nil
	case "snappy":
		out := snappy.Encode(nil, payload)
		return binary.BigEndian.AppendUint32(out, crc32.ChecksumIEEE(payload)), nil
	}
	return nil, fmt.Errorf("unknown codec %q", codec)
}

// ParseHeader parses the container header strictly.
func ParseHeader(b []byte) (*Container, error) {
	c := &Container{Meta: map[string][]byte{}}
	if len(b) < 4 || !bytes.Equal(b[:4], Magic) {
		return nil, fmt.Errorf("bad magic")
	}
	d := &Decoder{B: b, I: 4}
	for {
		n, err := d.long("count")
		if err != nil {
			return nil, fmt.Errorf("metadata count: %w", err)
		}
		if n == 0 {
			break
		}
		if n < 0 {
			n = -n
			if _, err := d.long("blocksize"); err != nil {
				return nil, err
			}
		}
		if n > 1<<20 {
			return nil, fmt.Errorf("metadata count %d", n)
		}
		for ; n > 0; n-- {
			kl, err := d.long("len")
			if err != nil {
				return nil, err
			}
			k, err := d.take(kl)
			if err != nil {
				return nil, err
			}
			vl, err := d.long("len")
			if err != nil {
				return nil, err
			}
			v, err := d.take(vl)
			if err != nil {
				return nil, err
			}
			c.Meta[string(k)] = append([]byte{}, v...)
			c.MetaOrder = append(c.MetaOrder, string(k))
		}
	}
	c.SyncOff = d.I
	s, err := d.take(16)
	if err != nil {
		return nil, fmt.Errorf("header sync: %w", err)
	}
	copy(c.Sync[:], s)
	c.HeaderEnd = d.I
	c.LongForms = d.LongForms
	sj, ok := c.Meta["avro.schema"]
	if !ok {
		return nil, fmt.Errorf("no avro.schema in header")
	}
	c.SchemaJSON = sj
	c.Schema, err = ParseSchema(sj)
	if err != nil {
		return nil, fmt.Errorf("schema: %w", err)
	}
	if err := c.Schema.Validate(); err != nil {
		return nil, fmt.Errorf("schema invalid: %w", err)
	}
	if cd, ok := c.Meta["avro.codec"]; ok {
		c.Codec = string(cd)
		switch c.Codec {
		case "null", "deflate", "snappy":
		default:
			return nil, fmt.Errorf("unknown codec %q", c.Codec)
		}
	}
	return c, nil
}

// ReadContainer parses a whole object container file strictly: every block
// must have exact count and size, matching sync, and its payload must decode
// to exactly Count datums with no bytes left over.
func ReadContainer(b []byte) (*Container, error) {
	c, err := ParseHeader(b)
	if err != nil {
		return nil, err
	}
	d := &Decoder{B: b, I: c.HeaderEnd}
	for d.I < len(b) {
		blk := Block{Start: d.I}
		if blk.Count, err = d.long("count"); err != nil {
			return c, fmt.Errorf("block %d count: %w", len(c.Blocks), err)
		}
		if blk.Count < 0 {
			return c, fmt.Errorf("block %d: negative record count %d", len(c.Blocks), blk.Count)
		}
		sz, err := d.long("len")
		if err != nil {
			return c, fmt.Errorf("block %d size: %w", len(c.Blocks), err)
		}
		blk.PayloadOff = d.I
		raw, err := d.take(sz)
		if err != nil {
			return c, fmt.Errorf("block %d payload: %w", len(c.Blocks), err)
		}
		blk.PayloadEnd = d.I
		blk.Raw = raw
		sy, err := d.take(16)
		if err != nil {
			return c, fmt.Errorf("block %d sync: %w", len(c.Blocks), err)
		}
		if !bytes.Equal(sy, c.Sync[:]) {
			return c, fmt.Errorf("block %d: sync marker mismatch", len(c.Blocks))
		}
		blk.End = d.I
		if blk.Payload, err = Decompress(c.Codec, raw); err != nil {
			return c, fmt.Errorf("block %d: %w", len(c.Blocks), err)
		}
		if blk.Count > int64(len(blk.Payload))+1 && !zeroWidth(c.Schema) {
			return c, fmt.Errorf("block %d: count %d exceeds payload", len(c.Blocks), blk.Count)
		}
		if blk.Count > 1<<22 {
			return c, fmt.Errorf("block %d: count %d too large for the reference reader", len(c.Blocks), blk.Count)
		}
		var lf int
		blk.Records, lf, err = DecodeAllLF(c.Schema, blk.Payload, int(blk.Count))
		c.LongForms += lf
		if err != nil {
			return c, fmt.Errorf("block %d: %w", len(c.Blocks), err)
		}
		c.Blocks = append(c.Blocks, blk)
	}
	c.LongForms += d.LongForms
	return c, nil
}

// zeroWidth reports whether a datum of the schema may occupy zero bytes.
func zeroWidth(s *Schema) bool {
	switch s.Type {
	case "null":
		return true
	case "fixed":
		return s.Size == 0
	case "record":
		for _, f := range s.Fields {
			if !zeroWidth(f.Type) {
				return false
			}
		}
		return true
	}
	return false
}

func ZeroWidth(s *Schema) bool { return zeroWidth(s) }

// AllRecords flattens the datums of all blocks.
func (c *Container) AllRecords() []any {
	var out []any
	for _, b := range c.Blocks {
		out = append(out, b.Records...)
	}
	return out
}

// WriteOpts are the container-level writer choices.
type WriteOpts struct {
	Codec     string // "", "null", "deflate", "snappy"; "" omits avro.codec
	Sync      [16]byte
	ExtraMeta map[string][]byte
	// MetaCodecFirst writes avro.codec before avro.schema
	MetaCodecFirst bool
	// MetaBlocks > 1 splits the metadata map into that many (positive-count) blocks
	MetaBlocks int
	// MetaSized writes every metadata block in the size-prefixed form the specification allows for any map
	// block: negative count, then the block's size in bytes
	MetaSized bool
}

// WriteContainer writes records (already partitioned into blocks) as a file.
func WriteContainer(schemaJSON []byte, s *Schema, blocks [][]any, ch Chooser, o WriteOpts) ([]byte, error) {
	b := append([]byte{}, Magic...)
	type kv struct {
		k string
		v []byte
	}
	var metas []kv
	if o.Codec != "" && o.MetaCodecFirst {
		metas = append(metas, kv{"avro.codec", []byte(o.Codec)})
	}
	metas = append(metas, kv{"avro.schema", schemaJSON})
	if o.Codec != "" && !o.MetaCodecFirst {
		metas = append(metas, kv{"avro.codec", []byte(o.Codec)})
	}
	for k, v := range o.ExtraMeta {
		metas = append(metas, kv{k, v})
	}
	nb := o.MetaBlocks
	if nb < 1 {
		nb = 1
	}
	if nb > len(metas) {
		nb = len(metas)
	}
	per := (len(metas) + nb - 1) / nb
	for i := 0; i < len(metas); i += per {
		end := i + per
		if end > len(metas) {
			end = len(metas)
		}
		var blk []byte
		for _, m := range metas[i:end] {
			blk = AppendLong(blk, int64(len(m.k)))
			blk = append(blk, m.k...)
			blk = AppendLong(blk, int64(len(m.v)))
			blk = append(blk, m.v...)
		}
		if o.MetaSized {
			b = AppendLong(AppendLong(b, -int64(end-i)), int64(len(blk)))
		} else {
			b = AppendLong(b, int64(end-i))
		}
		b = append(b, blk...)
	}
	b = AppendLong(b, 0)
	b = append(b, o.Sync[:]...)
	for _, recs := range blocks {
		var payload []byte
		var err error
		for _, r := range recs {
			if payload, err = Encode(payload, s, r, ch); err != nil {
				return nil, err
			}
		}
		comp, err := Compress(o.Codec, payload)
		if err != nil {
			return nil, err
		}
		b = AppendLong(b, int64(len(recs)))
		b = AppendLong(b, int64(len(comp)))
		b = append(b, comp...)
		b = append(b, o.Sync[:]...)
	}
	return b, nil
}
