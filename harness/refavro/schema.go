// Package refavro is a reference implementation of the parts of the Avro 1.8
// specification that the properties talk about. It is written from the
// specification text and shares no code with the library under test.
package refavro

import (
	"bytes"
	"encoding/json"
	"fmt"
	"sort"
	"strconv"
	"strings"
)

// Schema is the reference IR of an Avro schema.
type Schema struct {
	Type        string // null boolean int long float double bytes string record enum array map fixed union
	Name        string
	Namespace   string
	LogicalType string
	Fields      []Field
	Items       *Schema
	Values      *Schema
	Size        int
	Symbols     []string
	Branches    []*Schema
	// ObjectForm: a primitive (or anything) that was written as {"type":...}
	ObjectForm bool
	// HasFields/HasSymbols/HasSize...: which attributes were present in the JSON
	Has map[string]bool
	// BareRef: (generator/renderer hint only) a bare-string reference to a named type, even if the name is a keyword
	BareRef bool
}

type Field struct {
	Name string
	Type *Schema
}

var primitives = map[string]bool{"null": true, "boolean": true, "int": true, "long": true, "float": true, "double": true, "bytes": true, "string": true}

func IsPrimitive(t string) bool { return primitives[t] }

// ParseSchema parses schema JSON with encoding/json. Unknown attributes are
// ignored, key order is irrelevant.
func ParseSchema(js []byte) (*Schema, error) {
	dec := json.NewDecoder(bytes.NewReader(js))
	dec.UseNumber()
	var v any
	if err := dec.Decode(&v); err != nil {
		return nil, err
	}
	// trailing garbage?
	var extra any
	if err := dec.Decode(&extra); err == nil {
		return nil, fmt.Errorf("trailing data after schema")
	} else if !strings.Contains(err.Error(), "EOF") {
		return nil, fmt.Errorf("trailing garbage: %w", err)
	}
	return fromAny(v)
}

func fromAny(v any) (*Schema, error) {
	switch x := v.(type) {
	case string:
		return &Schema{Type: x}, nil
	case []any:
		s := &Schema{Type: "union"}
		for _, b := range x {
			bs, err := fromAny(b)
			if err != nil {
				return nil, err
			}
			s.Branches = append(s.Branches, bs)
		}
		return s, nil
	case map[string]any:
		s := &Schema{ObjectForm: true, Has: map[string]bool{}}
		for k := range x {
			s.Has[k] = true
		}
		if t, ok := x["type"]; ok {
			ts, ok := t.(string)
			if !ok {
				return nil, fmt.Errorf("type attribute is not a string")
			}
			s.Type = ts
		}
		str := func(k string) (string, error) {
			if t, ok := x[k]; ok {
				ts, ok := t.(string)
				if !ok {
					return "", fmt.Errorf("%s attribute is not a string", k)
				}
				return ts, nil
			}
			return "", nil
		}
		var err error
		if s.Name, err = str("name"); err != nil {
			return nil, err
		}
		if s.Namespace, err = str("namespace"); err != nil {
			return nil, err
		}
		if s.LogicalType, err = str("logicalType"); err != nil {
			return nil, err
		}
		if f, ok := x["fields"]; ok {
			fa, ok := f.([]any)
			if !ok {
				return nil, fmt.Errorf("fields is not an array")
			}
			s.Fields = []Field{}
			for _, fe := range fa {
				fm, ok := fe.(map[string]any)
				if !ok {
					return nil, fmt.Errorf("field is not an object")
				}
				var fld Field
				if n, ok := fm["name"]; ok {
					ns, ok := n.(string)
					if !ok {
						return nil, fmt.Errorf("field name not a string")
					}
					fld.Name = ns
				}
				if t, ok := fm["type"]; ok {
					ft, err := fromAny(t)
					if err != nil {
						return nil, err
					}
					fld.Type = ft
				} else {
					fld.Type = &Schema{}
				}
				s.Fields = append(s.Fields, fld)
			}
		}
		if it, ok := x["items"]; ok {
			if s.Items, err = fromAny(it); err != nil {
				return nil, err
			}
		}
		if it, ok := x["values"]; ok {
			if s.Values, err = fromAny(it); err != nil {
				return nil, err
			}
		}
		if sz, ok := x["size"]; ok {
			n, ok := sz.(json.Number)
			if !ok {
				return nil, fmt.Errorf("size is not a number")
			}
			i, err := strconv.Atoi(string(n))
			if err != nil {
				return nil, fmt.Errorf("size is not an integer: %w", err)
			}
			s.Size = i
		}
		if sy, ok := x["symbols"]; ok {
			sa, ok := sy.([]any)
			if !ok {
				return nil, fmt.Errorf("symbols is not an array")
			}
			s.Symbols = []string{}
			for _, e := range sa {
				es, ok := e.(string)
				if !ok {
					return nil, fmt.Errorf("symbol is not a string")
				}
				s.Symbols = append(s.Symbols, es)
			}
		}
		return s, nil
	}
	return nil, fmt.Errorf("unexpected JSON value %T for schema", v)
}

// Validate checks that the schema is structurally usable by the binary layer.
// lenientNames: records may be nameless (the library emits nameless records
// for anonymous Go structs).
func (s *Schema) Validate() error {
	switch s.Type {
	case "null", "boolean", "int", "long", "float", "double", "bytes", "string":
		return nil
	case "record":
		seen := map[string]bool{}
		for _, f := range s.Fields {
			if f.Type == nil {
				return fmt.Errorf("field %q without type", f.Name)
			}
			if seen[f.Name] {
				return fmt.Errorf("record %q: duplicate field name %q", s.Name, f.Name)
			}
			seen[f.Name] = true
			if err := f.Type.Validate(); err != nil {
				return fmt.Errorf("field %q: %w", f.Name, err)
			}
		}
		return nil
	case "enum":
		return nil
	case "array":
		if s.Items == nil {
			return fmt.Errorf("array without items")
		}
		return s.Items.Validate()
	case "map":
		if s.Values == nil {
			return fmt.Errorf("map without values")
		}
		return s.Values.Validate()
	case "fixed":
		if s.Size < 0 {
			return fmt.Errorf("fixed with negative size")
		}
		return nil
	case "union":
		kinds := map[string]bool{}
		for _, b := range s.Branches {
			if b.Type == "union" {
				return fmt.Errorf("union directly inside union")
			}
			k := b.Type
			if k == "record" || k == "enum" || k == "fixed" {
				k = k + ":" + b.Namespace + "." + b.Name
			}
			if kinds[k] {
				return fmt.Errorf("union repeats branch type %s", k)
			}
			kinds[k] = true
			if err := b.Validate(); err != nil {
				return err
			}
		}
		return nil
	}
	return fmt.Errorf("unknown type %q", s.Type)
}

// JSON renders the schema canonically (attributes only where meaningful).
func (s *Schema) JSON() string {
	var b strings.Builder
	s.render(&b)
	return b.String()
}

func q(s string) string {
	j, _ := json.Marshal(s)
	return string(j)
}

func (s *Schema) render(b *strings.Builder) {
	if s.Type == "union" {
		b.WriteByte('[')
		for i, br := range s.Branches {
			if i > 0 {
				b.WriteByte(',')
			}
			br.render(b)
		}
		b.WriteByte(']')
		return
	}
	if IsPrimitive(s.Type) && !s.ObjectForm && s.LogicalType == "" {
		b.WriteString(q(s.Type))
		return
	}
	b.WriteString(`{"type":` + q(s.Type))
	if s.LogicalType != "" {
		b.WriteString(`,"logicalType":` + q(s.LogicalType))
	}
	if s.Name != "" {
		b.WriteString(`,"name":` + q(s.Name))
	}
	if s.Namespace != "" {
		b.WriteString(`,"namespace":` + q(s.Namespace))
	}
	switch s.Type {
	case "record":
		b.WriteString(`,"fields":[`)
		for i, f := range s.Fields {
			if i > 0 {
				b.WriteByte(',')
			}
			b.WriteString(`{"name":` + q(f.Name) + `,"type":`)
			f.Type.render(b)
			b.WriteByte('}')
		}
		b.WriteByte(']')
	case "enum":
		b.WriteString(`,"symbols":[`)
		for i, sy := range s.Symbols {
			if i > 0 {
				b.WriteByte(',')
			}
			b.WriteString(q(sy))
		}
		b.WriteByte(']')
	case "array":
		b.WriteString(`,"items":`)
		s.Items.render(b)
	case "map":
		b.WriteString(`,"values":`)
		s.Values.render(b)
	case "fixed":
		b.WriteString(`,"size":` + strconv.Itoa(s.Size))
	}
	b.WriteByte('}')
}

// Shape returns a structural signature ignoring names (for distinct counting).
func (s *Schema) Shape() string {
	if s == nil {
		return "?"
	}
	switch s.Type {
	case "record":
		parts := make([]string, len(s.Fields))
		for i, f := range s.Fields {
			parts[i] = f.Type.Shape()
		}
		return "R(" + strings.Join(parts, ",") + ")"
	case "array":
		return "A(" + s.Items.Shape() + ")"
	case "map":
		return "M(" + s.Values.Shape() + ")"
	case "union":
		parts := make([]string, len(s.Branches))
		for i, f := range s.Branches {
			parts[i] = f.Shape()
		}
		return "U(" + strings.Join(parts, "|") + ")"
	case "fixed":
		return "F" + strconv.Itoa(s.Size)
	}
	if s.LogicalType != "" {
		return s.Type + "/" + s.LogicalType
	}
	return s.Type
}

// Equal compares two schemas structurally (type, names, logical type, fields
// in order, items, values, size, symbols, branches in order).
func Equal(a, b *Schema) bool { return Diff(a, b, "") == "" }

// Diff returns "" when equal, else a description of the first difference.
func Diff(a, b *Schema, path string) string {
	if a == nil || b == nil {
		if a == b {
			return ""
		}
		return path + ": one side nil"
	}
	if a.Type != b.Type {
		return fmt.Sprintf("%s: type %q vs %q", path, a.Type, b.Type)
	}
	if a.Name != b.Name {
		return fmt.Sprintf("%s: name %q vs %q", path, a.Name, b.Name)
	}
	if a.Namespace != b.Namespace {
		return fmt.Sprintf("%s: namespace %q vs %q", path, a.Namespace, b.Namespace)
	}
	if a.LogicalType != b.LogicalType {
		return fmt.Sprintf("%s: logicalType %q vs %q", path, a.LogicalType, b.LogicalType)
	}
	if a.Size != b.Size {
		return fmt.Sprintf("%s: size %d vs %d", path, a.Size, b.Size)
	}
	if len(a.Fields) != len(b.Fields) {
		return fmt.Sprintf("%s: %d fields vs %d", path, len(a.Fields), len(b.Fields))
	}
	for i := range a.Fields {
		if a.Fields[i].Name != b.Fields[i].Name {
			return fmt.Sprintf("%s: field %d name %q vs %q", path, i, a.Fields[i].Name, b.Fields[i].Name)
		}
		if d := Diff(a.Fields[i].Type, b.Fields[i].Type, path+"."+a.Fields[i].Name); d != "" {
			return d
		}
	}
	if (a.Items == nil) != (b.Items == nil) {
		return path + ": items presence differs"
	}
	if a.Items != nil {
		if d := Diff(a.Items, b.Items, path+"[]"); d != "" {
			return d
		}
	}
	if (a.Values == nil) != (b.Values == nil) {
		return path + ": values presence differs"
	}
	if a.Values != nil {
		if d := Diff(a.Values, b.Values, path+"{}"); d != "" {
			return d
		}
	}
	if len(a.Symbols) != len(b.Symbols) {
		return fmt.Sprintf("%s: %d symbols vs %d", path, len(a.Symbols), len(b.Symbols))
	}
	for i := range a.Symbols {
		if a.Symbols[i] != b.Symbols[i] {
			return fmt.Sprintf("%s: symbol %d %q vs %q", path, i, a.Symbols[i], b.Symbols[i])
		}
	}
	if len(a.Branches) != len(b.Branches) {
		return fmt.Sprintf("%s: %d branches vs %d", path, len(a.Branches), len(b.Branches))
	}
	for i := range a.Branches {
		if d := Diff(a.Branches[i], b.Branches[i], fmt.Sprintf("%s|%d", path, i)); d != "" {
			return d
		}
	}
	return ""
}

// NamedDefs returns, for every fully qualified named type (record/enum/fixed
// with a non-empty name), how many times it is defined in the schema.
func (s *Schema) NamedDefs(out map[string]int) {
	if s == nil {
		return
	}
	switch s.Type {
	case "record", "enum", "fixed":
		if s.Name != "" {
			out[s.Namespace+"."+s.Name]++
		}
	}
	for _, f := range s.Fields {
		f.Type.NamedDefs(out)
	}
	s.Items.NamedDefs(out)
	s.Values.NamedDefs(out)
	for _, b := range s.Branches {
		b.NamedDefs(out)
	}
}

func sortedKeys(m map[string]bool) []string {
	ks := make([]string, 0, len(m))
	for k := range m {
		ks = append(ks, k)
	}
	sort.Strings(ks)
	return ks
}
