package refavro

import (
	"math/rand/v2"
	"os"
	"testing"
)

// The two container files shipped with the library were written by a third
// implementation (BigQuery export): the reference reader must accept them
// strictly, and re-encoding their datums with every writer choice must decode
// to the same datums.
func TestThirdPartyFiles(t *testing.T) {
	for _, p := range []string{"/repo/testdata/avro1", "/repo/null/testdata/nullavro"} {
		b, err := os.ReadFile(p)
		if err != nil {
			t.Skip("repository test data not available: ", err)
		}
		c, err := ReadContainer(b)
		if err != nil {
			t.Fatalf("%s: %v", p, err)
		}
		recs := c.AllRecords()
		if len(recs) == 0 {
			t.Fatalf("%s: no records", p)
		}
		t.Logf("%s: codec=%q blocks=%d records=%d longforms=%d schema=%.80s", p, c.Codec, len(c.Blocks), len(recs), c.LongForms, c.Schema.JSON())
		for _, codec := range []string{"", "null", "deflate", "snappy"} {
			for style := 0; style < 4; style++ {
				ch := &testChooser{r: rand.New(rand.NewPCG(1, uint64(style))), style: style}
				out, err := WriteContainer(c.SchemaJSON, c.Schema, [][]any{recs[:len(recs)/2], recs[len(recs)/2:]}, ch, WriteOpts{Codec: codec})
				if err != nil {
					t.Fatal(err)
				}
				c2, err := ReadContainer(out)
				if err != nil {
					t.Fatalf("%s re-encoded (%q, style %d): %v", p, codec, style, err)
				}
				r2 := c2.AllRecords()
				if len(r2) != len(recs) {
					t.Fatalf("record count %d vs %d", len(r2), len(recs))
				}
				for i := range recs {
					if Render(recs[i]) != Render(r2[i]) {
						t.Fatalf("%s record %d differs after re-encoding", p, i)
					}
				}
			}
		}
	}
}

type testChooser struct {
	r     *rand.Rand
	style int
}

func (c *testChooser) Partition(n int) []int {
	if c.style == 0 || n == 1 {
		return []int{n}
	}
	var parts []int
	for n > 0 {
		k := 1 + c.r.IntN(n)
		parts = append(parts, k)
		n -= k
	}
	return parts
}
func (c *testChooser) SizePrefix() bool { return c.style >= 2 && c.r.IntN(2) == 0 }

func TestVarintRule(t *testing.T) {
	for _, v := range []int64{0, -1, 1, 63, 64, -64, -65, 8191, 8192, 1 << 40, -1 << 40, 1<<63 - 1, -1 << 63} {
		b := AppendLong(nil, v)
		got, n, shortest, err := ReadLong(b)
		if err != nil || got != v || n != len(b) || !shortest {
			t.Fatalf("%d: %v %d %d %v %v", v, b, got, n, shortest, err)
		}
	}
	if _, _, _, err := ReadLong([]byte{0x80, 0x80, 0x80, 0x80, 0x80, 0x80, 0x80, 0x80, 0x80, 0x02}); err == nil {
		t.Fatal("tenth byte 2 must overflow")
	}
	if _, _, _, err := ReadLong([]byte{0xff, 0xff, 0xff, 0xff, 0xff, 0xff, 0xff, 0xff, 0xff, 0x01}); err != nil {
		t.Fatal("MinInt64 encoding must be accepted")
	}
}
