// Package model holds independent statements of intended behaviour: the
// documented Go-type -> schema mapping, Go value -> expected datum, the
// round-trip comparator with the documented normalisations.
package model

import (
	"fmt"
	"math"
	"reflect"
	"sort"
	"strings"
	"time"

	"github.com/unravelin/null/v5"

	"verifharness/gen"
	"verifharness/refavro"
)

func prim(t string) *refavro.Schema { return &refavro.Schema{Type: t} }
func nullable(s *refavro.Schema) *refavro.Schema {
	return &refavro.Schema{Type: "union", Branches: []*refavro.Schema{prim("null"), s}}
}

// Registered returns the schema the library's own sub-packages register for
// time.Time and the null.* wrappers (transcribed from their documentation).
func Registered(k gen.Kind) *refavro.Schema {
	switch k {
	case gen.KTime, gen.KNullTime, gen.KNullString:
		return nullable(prim("string"))
	case gen.KNullInt:
		return nullable(prim("long"))
	case gen.KNullBool:
		return nullable(prim("boolean"))
	case gen.KNullFloat:
		return nullable(prim("double"))
	}
	return nil
}

// ErrUnsupported: the mapping says the type cannot be expressed.
var ErrUnsupported = fmt.Errorf("unsupported")

// ErrUnspecified: the documented mapping is silent about the type.
var ErrUnspecified = fmt.Errorf("unspecified")

// ExpectedSchema transcribes the documented mapping (C15's sentence).
// Record names/namespaces are left empty (the sentence is silent about them).
func ExpectedSchema(t *gen.T) (*refavro.Schema, error) {
	if s := Registered(t.K); s != nil {
		return s, nil
	}
	switch t.K {
	case gen.KBool:
		return prim("boolean"), nil
	case gen.KInt, gen.KInt16, gen.KInt32, gen.KInt64, gen.KInt8:
		return prim("long"), nil
	case gen.KFloat32, gen.KFloat64:
		return prim("double"), nil
	case gen.KString:
		return prim("string"), nil
	case gen.KBytes:
		return prim("bytes"), nil
	case gen.KSlice:
		if t.Elem.K == gen.KUint8 {
			return prim("bytes"), nil
		}
		it, err := ExpectedSchema(t.Elem)
		if err != nil {
			return nil, err
		}
		return &refavro.Schema{Type: "array", Items: it, ObjectForm: true}, nil
	case gen.KMap:
		vs, err := ExpectedSchema(t.Elem)
		if err != nil {
			return nil, err
		}
		return &refavro.Schema{Type: "map", Values: vs, ObjectForm: true}, nil
	case gen.KPtr:
		u, err := ExpectedSchema(t.Elem)
		if err != nil {
			return nil, err
		}
		if u.Type == "union" || u.Type == "array" || u.Type == "map" {
			return u, nil
		}
		return nullable(u), nil
	case gen.KStruct:
		s := &refavro.Schema{Type: "record", ObjectForm: true, Fields: []refavro.Field{}}
		for _, f := range t.Fields {
			if f.Excluded() {
				continue
			}
			fs, err := ExpectedSchema(f.T)
			if err != nil {
				return nil, err
			}
			if f.Omit && fs.Type != "union" {
				fs = nullable(fs)
			}
			s.Fields = append(s.Fields, refavro.Field{Name: f.AvroName(), Type: fs})
		}
		return s, nil
	case gen.KUint, gen.KUint8, gen.KUint16, gen.KUint32, gen.KUint64:
		return nil, ErrUnsupported
	}
	return nil, ErrUnspecified
}

// ptrToColl: the documented schema of t is a plain array or map (a slice or map behind any number of
// pointers). Does not walk into element types, so it is usable on the cyclic IR of self-containing types.
func ptrToColl(t *gen.T) bool {
	for {
		if Registered(t.K) != nil {
			return false
		}
		switch t.K {
		case gen.KPtr:
			t = t.Elem
			continue
		case gen.KSlice:
			return t.Elem.K != gen.KUint8
		case gen.KMap:
			return true
		}
		return false
	}
}

// StripNames clears record names and namespaces (not compared by C15/C02).
func StripNames(s *refavro.Schema) *refavro.Schema {
	if s == nil {
		return nil
	}
	c := *s
	if c.Type == "record" {
		c.Name, c.Namespace = "", ""
	}
	c.Fields = nil
	for _, f := range s.Fields {
		c.Fields = append(c.Fields, refavro.Field{Name: f.Name, Type: StripNames(f.Type)})
	}
	c.Items = StripNames(s.Items)
	c.Values = StripNames(s.Values)
	c.Branches = nil
	for _, b := range s.Branches {
		c.Branches = append(c.Branches, StripNames(b))
	}
	return &c
}

// ---------------------------------------------------------------------------
// Go value -> datum matcher (C02)

// isZeroVal: the Go zero value of the field type.
func isZeroVal(v reflect.Value) bool { return v.IsZero() }

// MatchDatum checks that datum d (decoded by the reference reader under the
// documented schema of t in this context) is what the value v must have been
// written as. omit: the field carries omitempty. Returns "" or a diff.
func MatchDatum(t *gen.T, v reflect.Value, omit bool, d any, path string) string {
	switch t.K {
	case gen.KPtr:
		es, err := ExpectedSchema(t.Elem)
		if err != nil {
			return path + ": unsupported elem"
		}
		if es.Type == "array" || es.Type == "map" {
			// pointer(s) to slice/map: plain collection (nil at any level == empty); with omitempty a [null,coll] union
			ct, cv, isNil := derefColl(t, v)
			if omit {
				u, ok := d.(*refavro.Union)
				if !ok {
					return fmt.Sprintf("%s: want union, got %s", path, refavro.Render(d))
				}
				if isNil {
					if u.Branch != 0 {
						return fmt.Sprintf("%s: nil pointer written as non-null", path)
					}
					return ""
				}
				if u.Branch == 0 {
					// non-nil pointer to an empty collection may be null (guard)
					if cv.Len() == 0 {
						return ""
					}
					return fmt.Sprintf("%s: non-nil pointer to non-empty collection written as null", path)
				}
				return MatchDatum(ct, cv, false, u.Val, path+"*")
			}
			if isNil {
				return matchEmptyColl(es.Type, d, path)
			}
			return MatchDatum(ct, cv, false, d, path+"*")
		}
		// union (either created here or inherited from the element)
		u, ok := d.(*refavro.Union)
		if !ok {
			return fmt.Sprintf("%s: want union, got %s", path, refavro.Render(d))
		}
		if v.IsNil() {
			if u.Branch != 0 || u.Val != nil {
				return fmt.Sprintf("%s: nil pointer written as %s", path, refavro.Render(d))
			}
			return ""
		}
		if es.Type == "union" {
			// the element brings its own null: same union
			return MatchDatum(t.Elem, v.Elem(), false, d, path+"*")
		}
		if u.Branch != 1 {
			return fmt.Sprintf("%s: non-nil pointer written as null", path)
		}
		return MatchDatum(t.Elem, v.Elem(), false, u.Val, path+"*")
	case gen.KTime:
		u, ok := d.(*refavro.Union)
		if !ok {
			return fmt.Sprintf("%s: want union, got %s", path, refavro.Render(d))
		}
		tv := v.Interface().(time.Time)
		if tv.IsZero() {
			if u.Branch == 0 {
				return ""
			}
			if omit {
				return fmt.Sprintf("%s: zero omitempty time written as non-null %s", path, refavro.Render(d))
			}
			// guard: zero non-omitempty time may be the RFC 3339 text of year 1
		} else if u.Branch == 0 {
			return fmt.Sprintf("%s: non-zero time %v written as null", path, tv)
		}
		return matchTimeString(tv, u.Val, path)
	case gen.KNullInt:
		n := v.Interface().(null.Int)
		return matchWrapper(n.Valid, d, path, func(x any) string { return matchPrim(int64(n.Int64), x, path) })
	case gen.KNullBool:
		n := v.Interface().(null.Bool)
		return matchWrapper(n.Valid, d, path, func(x any) string { return matchPrim(n.Bool, x, path) })
	case gen.KNullFloat:
		n := v.Interface().(null.Float)
		return matchWrapper(n.Valid, d, path, func(x any) string { return matchPrim(n.Float64, x, path) })
	case gen.KNullString:
		n := v.Interface().(null.String)
		return matchWrapper(n.Valid, d, path, func(x any) string { return matchPrim(n.String, x, path) })
	case gen.KNullTime:
		n := v.Interface().(null.Time)
		return matchWrapper(n.Valid, d, path, func(x any) string { return matchTimeString(n.Time, x, path) })
	}
	// non-union base kinds: omitempty wraps in [null,T]
	if omit {
		u, ok := d.(*refavro.Union)
		if !ok {
			return fmt.Sprintf("%s: want union (omitempty), got %s", path, refavro.Render(d))
		}
		zero := isZeroVal(v)
		emptyColl := (t.K == gen.KSlice || t.K == gen.KMap || t.K == gen.KBytes) && v.Len() == 0
		negZero := (t.K == gen.KFloat32 || t.K == gen.KFloat64) && v.Float() == 0
		if u.Branch == 0 {
			if zero || emptyColl || negZero {
				return ""
			}
			return fmt.Sprintf("%s: non-zero omitempty value written as null", path)
		}
		if zero && t.K != gen.KStruct {
			return fmt.Sprintf("%s: zero omitempty value written as non-null %s", path, refavro.Render(d))
		}
		d = u.Val
	}
	switch t.K {
	case gen.KBool:
		return matchPrim(v.Bool(), d, path)
	case gen.KInt, gen.KInt16, gen.KInt32, gen.KInt64, gen.KInt8:
		return matchPrim(v.Int(), d, path)
	case gen.KFloat64:
		return matchPrim(v.Float(), d, path)
	case gen.KFloat32:
		// float32 widened exactly to double (NaN stays NaN)
		f := float32(v.Float())
		got, ok := d.(float64)
		if !ok {
			return fmt.Sprintf("%s: want double, got %s", path, refavro.Render(d))
		}
		if f != f {
			if got == got {
				return fmt.Sprintf("%s: NaN written as %v", path, got)
			}
			return ""
		}
		if math.Float64bits(float64(f)) != math.Float64bits(got) {
			return fmt.Sprintf("%s: float32 %v written as double %v", path, f, got)
		}
		return ""
	case gen.KString:
		return matchPrim(v.String(), d, path)
	case gen.KBytes:
		got, ok := d.([]byte)
		if !ok {
			return fmt.Sprintf("%s: want bytes, got %s", path, refavro.Render(d))
		}
		if string(got) != string(v.Bytes()) {
			return fmt.Sprintf("%s: bytes %x written as %x", path, v.Bytes(), got)
		}
		return ""
	case gen.KSlice:
		got, ok := d.([]any)
		if !ok {
			return fmt.Sprintf("%s: want array, got %s", path, refavro.Render(d))
		}
		if len(got) != v.Len() {
			return fmt.Sprintf("%s: slice of %d written as array of %d", path, v.Len(), len(got))
		}
		for i := range got {
			if df := MatchDatum(t.Elem, v.Index(i), false, got[i], fmt.Sprintf("%s[%d]", path, i)); df != "" {
				return df
			}
		}
		return ""
	case gen.KMap:
		got, ok := d.(*refavro.Map)
		if !ok {
			return fmt.Sprintf("%s: want map, got %s", path, refavro.Render(d))
		}
		if len(got.Entries) != v.Len() {
			return fmt.Sprintf("%s: map of %d written with %d entries", path, v.Len(), len(got.Entries))
		}
		seen := map[string]bool{}
		for _, e := range got.Entries {
			if seen[e.Key] {
				return fmt.Sprintf("%s: key %q written twice", path, e.Key)
			}
			seen[e.Key] = true
			mv := v.MapIndex(reflect.ValueOf(e.Key))
			if !mv.IsValid() {
				return fmt.Sprintf("%s: key %q not in the map written", path, e.Key)
			}
			if df := MatchDatum(t.Elem, mv, false, e.Val, fmt.Sprintf("%s[%q]", path, e.Key)); df != "" {
				return df
			}
		}
		return ""
	case gen.KStruct:
		got, ok := d.(*refavro.Record)
		if !ok {
			return fmt.Sprintf("%s: want record, got %s", path, refavro.Render(d))
		}
		j := 0
		for i, f := range t.Fields {
			if f.Excluded() {
				continue
			}
			if j >= len(got.Fields) {
				return fmt.Sprintf("%s: record has too few fields", path)
			}
			if df := MatchDatum(f.T, gen.Field(v, i), f.Omit, got.Fields[j], path+"."+f.AvroName()); df != "" {
				return df
			}
			j++
		}
		if j != len(got.Fields) {
			return fmt.Sprintf("%s: record has %d fields, want %d", path, len(got.Fields), j)
		}
		return ""
	}
	return fmt.Sprintf("%s: kind %v not in the model", path, t.K)
}

func matchEmptyColl(typ string, d any, path string) string {
	switch typ {
	case "array":
		if a, ok := d.([]any); ok && len(a) == 0 {
			return ""
		}
	case "map":
		if m, ok := d.(*refavro.Map); ok && len(m.Entries) == 0 {
			return ""
		}
	}
	return fmt.Sprintf("%s: nil pointer to collection written as %s", path, refavro.Render(d))
}

func matchWrapper(valid bool, d any, path string, inner func(any) string) string {
	u, ok := d.(*refavro.Union)
	if !ok {
		return fmt.Sprintf("%s: want union, got %s", path, refavro.Render(d))
	}
	if !valid {
		if u.Branch != 0 {
			return fmt.Sprintf("%s: invalid wrapper written as non-null %s", path, refavro.Render(d))
		}
		return ""
	}
	if u.Branch != 1 {
		return fmt.Sprintf("%s: valid wrapper written as null", path)
	}
	return inner(u.Val)
}

func matchPrim(want any, got any, path string) string {
	switch w := want.(type) {
	case bool:
		if g, ok := got.(bool); ok && g == w {
			return ""
		}
	case int64:
		if g, ok := got.(int64); ok && g == w {
			return ""
		}
	case float64:
		if g, ok := got.(float64); ok && math.Float64bits(g) == math.Float64bits(w) {
			return ""
		}
	case string:
		if g, ok := got.(string); ok && g == w {
			return ""
		}
	}
	return fmt.Sprintf("%s: value %#v written as %s", path, want, refavro.Render(got))
}

func matchTimeString(tv time.Time, d any, path string) string {
	s, ok := d.(string)
	if !ok {
		return fmt.Sprintf("%s: want string for time, got %s", path, refavro.Render(d))
	}
	p, err := time.Parse(time.RFC3339Nano, s)
	if err != nil {
		return fmt.Sprintf("%s: time written as %q which the standard library rejects: %v", path, s, err)
	}
	_, o1 := p.Zone()
	_, o2 := tv.Zone()
	if !p.Equal(tv) || o1 != o2 {
		return fmt.Sprintf("%s: time %v written as %q", path, tv.Format(time.RFC3339Nano), s)
	}
	return ""
}

// ---------------------------------------------------------------------------
// Round-trip comparator (C01)

// EqualNorm compares the value written (w) with the value read back (g) up to
// the documented normalisations. Returns "" or a diff.
func EqualNorm(t *gen.T, w, g reflect.Value, omit bool, path string) string {
	switch t.K {
	case gen.KBool:
		if w.Bool() != g.Bool() {
			return fmt.Sprintf("%s: %v != %v", path, w.Bool(), g.Bool())
		}
	case gen.KInt, gen.KInt8, gen.KInt16, gen.KInt32, gen.KInt64:
		if w.Int() != g.Int() {
			return fmt.Sprintf("%s: %d != %d", path, w.Int(), g.Int())
		}
	case gen.KFloat64:
		a, b := w.Float(), g.Float()
		if math.Float64bits(a) != math.Float64bits(b) {
			if omit && a == 0 && b == 0 {
				return "" // -0 in an omitempty field reads back as the zero value
			}
			return fmt.Sprintf("%s: %v (%x) != %v (%x)", path, a, math.Float64bits(a), b, math.Float64bits(b))
		}
	case gen.KFloat32:
		a, b := math.Float32frombits(f32bits(w)), math.Float32frombits(f32bits(g))
		if math.Float32bits(a) != math.Float32bits(b) {
			if a != a && b != b {
				return "" // NaN payload/quiet bit: hardware conversion
			}
			if omit && a == 0 && b == 0 {
				return ""
			}
			return fmt.Sprintf("%s: %v (%x) != %v (%x)", path, a, math.Float32bits(a), b, math.Float32bits(b))
		}
	case gen.KString:
		if w.String() != g.String() {
			return fmt.Sprintf("%s: %q != %q", path, trunc(w.String()), trunc(g.String()))
		}
	case gen.KBytes:
		if string(w.Bytes()) != string(g.Bytes()) {
			return fmt.Sprintf("%s: bytes %x != %x", path, w.Bytes(), g.Bytes())
		}
	case gen.KTime:
		return timeEq(w.Interface().(time.Time), g.Interface().(time.Time), path)
	case gen.KNullInt:
		a, b := w.Interface().(null.Int), g.Interface().(null.Int)
		if !a.Valid {
			a = null.Int{}
		}
		if a != b {
			return fmt.Sprintf("%s: %+v != %+v", path, a, b)
		}
	case gen.KNullBool:
		a, b := w.Interface().(null.Bool), g.Interface().(null.Bool)
		if !a.Valid {
			a = null.Bool{}
		}
		if a != b {
			return fmt.Sprintf("%s: %+v != %+v", path, a, b)
		}
	case gen.KNullFloat:
		a, b := w.Interface().(null.Float), g.Interface().(null.Float)
		if !a.Valid {
			a = null.Float{}
		}
		if a.Valid != b.Valid || math.Float64bits(a.Float64) != math.Float64bits(b.Float64) {
			return fmt.Sprintf("%s: %+v != %+v", path, a, b)
		}
	case gen.KNullString:
		a, b := w.Interface().(null.String), g.Interface().(null.String)
		if !a.Valid {
			a = null.String{}
		}
		if a != b {
			return fmt.Sprintf("%s: %+v != %+v", path, a, b)
		}
	case gen.KNullTime:
		a, b := w.Interface().(null.Time), g.Interface().(null.Time)
		if !a.Valid {
			a = null.Time{}
		}
		if a.Valid != b.Valid {
			return fmt.Sprintf("%s: valid %v != %v", path, a.Valid, b.Valid)
		}
		return timeEq(a.Time, b.Time, path)
	case gen.KPtr:
		if ptrToColl(t.Elem) {
			// nil and empty are identified through the pointer levels as well
			ct, wv, wnil := derefColl(t, w)
			_, gv, gnil := derefColl(t, g)
			wl, gl := 0, 0
			if !wnil {
				wl = wv.Len()
			}
			if !gnil {
				gl = gv.Len()
			}
			if wl == 0 && gl == 0 {
				return ""
			}
			if wnil != gnil {
				return fmt.Sprintf("%s: nil-ness %v != %v", path, wnil, gnil)
			}
			return EqualNorm(ct, wv, gv, false, path+"*")
		}
		if w.IsNil() != g.IsNil() {
			return fmt.Sprintf("%s: nil-ness %v != %v", path, w.IsNil(), g.IsNil())
		}
		if w.IsNil() {
			return ""
		}
		return EqualNorm(t.Elem, w.Elem(), g.Elem(), false, path+"*")
	case gen.KSlice:
		if w.Len() != g.Len() {
			return fmt.Sprintf("%s: len %d != %d", path, w.Len(), g.Len())
		}
		for i := 0; i < w.Len(); i++ {
			if d := EqualNorm(t.Elem, w.Index(i), g.Index(i), false, fmt.Sprintf("%s[%d]", path, i)); d != "" {
				return d
			}
		}
	case gen.KArray:
		for i := 0; i < w.Len(); i++ {
			if t.Elem.K == gen.KUint8 {
				if w.Index(i).Uint() != g.Index(i).Uint() {
					return fmt.Sprintf("%s[%d]: byte %d != %d", path, i, w.Index(i).Uint(), g.Index(i).Uint())
				}
			} else if d := EqualNorm(t.Elem, w.Index(i), g.Index(i), false, fmt.Sprintf("%s[%d]", path, i)); d != "" {
				return d
			}
		}
	case gen.KUint8:
		if w.Uint() != g.Uint() {
			return fmt.Sprintf("%s: %d != %d", path, w.Uint(), g.Uint())
		}
	case gen.KMap:
		if w.Len() != g.Len() {
			return fmt.Sprintf("%s: map len %d != %d", path, w.Len(), g.Len())
		}
		keys := w.MapKeys()
		sort.Slice(keys, func(i, j int) bool { return keys[i].String() < keys[j].String() })
		for _, k := range keys {
			gv := g.MapIndex(k)
			if !gv.IsValid() {
				return fmt.Sprintf("%s: key %q missing", path, k.String())
			}
			if d := EqualNorm(t.Elem, w.MapIndex(k), gv, false, fmt.Sprintf("%s[%q]", path, k.String())); d != "" {
				return d
			}
		}
	case gen.KStruct:
		for i, f := range t.Fields {
			gf := gen.Field(g, i)
			if f.Excluded() {
				if !gf.IsZero() {
					return fmt.Sprintf("%s.%s: excluded field came back non-zero", path, f.Go)
				}
				continue
			}
			if d := EqualNorm(f.T, gen.Field(w, i), gf, f.Omit, path+"."+f.Go); d != "" {
				return d
			}
		}
	default:
		if w.IsZero() && g.IsZero() {
			return ""
		}
		return fmt.Sprintf("%s: kind %v not in the comparator and not zero on both sides", path, t.K)
	}
	return ""
}

func timeEq(a, b time.Time, path string) string {
	_, oa := a.Zone()
	_, ob := b.Zone()
	if !a.Equal(b) || oa != ob {
		return fmt.Sprintf("%s: time %s != %s", path, a.Format(time.RFC3339Nano), b.Format(time.RFC3339Nano))
	}
	return ""
}

func trunc(s string) string {
	if len(s) > 60 {
		return s[:60] + "…"
	}
	return s
}

// HasNestedNull reports whether the value contains the quarantined feature
// c01.nested-null: a non-nil pointer whose pointee is itself null-like.
func HasNestedNull(t *gen.T, v reflect.Value) bool {
	switch t.K {
	case gen.KPtr:
		if v.IsNil() {
			return false
		}
		if gen.IsNullable(t.Elem) && IsNullLike(t.Elem, v.Elem()) {
			return true
		}
		return HasNestedNull(t.Elem, v.Elem())
	case gen.KSlice:
		for i := 0; i < v.Len(); i++ {
			if HasNestedNull(t.Elem, v.Index(i)) {
				return true
			}
		}
	case gen.KMap:
		it := v.MapRange()
		for it.Next() {
			if HasNestedNull(t.Elem, it.Value()) {
				return true
			}
		}
	case gen.KStruct:
		for i, f := range t.Fields {
			if !f.Excluded() && HasNestedNull(f.T, gen.Field(v, i)) {
				return true
			}
		}
	}
	return false
}

// IsNullLike: v would be written as the null branch.
func IsNullLike(t *gen.T, v reflect.Value) bool {
	switch t.K {
	case gen.KPtr:
		return v.IsNil()
	case gen.KTime:
		return v.Interface().(time.Time).IsZero()
	case gen.KNullInt, gen.KNullBool, gen.KNullFloat, gen.KNullString, gen.KNullTime:
		return !v.FieldByName("Valid").Bool()
	}
	return false
}

// RenderValue renders a Go value (for samples/witnesses).
func RenderValue(t *gen.T, v reflect.Value) string {
	var b strings.Builder
	renderValue(&b, t, v)
	return b.String()
}

func renderValue(b *strings.Builder, t *gen.T, v reflect.Value) {
	switch t.K {
	case gen.KPtr:
		if v.IsNil() {
			b.WriteString("nil")
			return
		}
		b.WriteString("&")
		renderValue(b, t.Elem, v.Elem())
	case gen.KSlice:
		if v.IsNil() {
			b.WriteString("nil[]")
			return
		}
		b.WriteString("[")
		for i := 0; i < v.Len(); i++ {
			if i > 0 {
				b.WriteString(",")
			}
			if i > 8 {
				fmt.Fprintf(b, "…%d more", v.Len()-i)
				break
			}
			renderValue(b, t.Elem, v.Index(i))
		}
		b.WriteString("]")
	case gen.KMap:
		if v.IsNil() {
			b.WriteString("nilmap")
			return
		}
		keys := v.MapKeys()
		sort.Slice(keys, func(i, j int) bool { return keys[i].String() < keys[j].String() })
		b.WriteString("{")
		for i, k := range keys {
			if i > 0 {
				b.WriteString(",")
			}
			fmt.Fprintf(b, "%q:", k.String())
			renderValue(b, t.Elem, v.MapIndex(k))
		}
		b.WriteString("}")
	case gen.KStruct:
		b.WriteString("{")
		for i, f := range t.Fields {
			if i > 0 {
				b.WriteString(" ")
			}
			b.WriteString(f.Go + ":")
			if fv := gen.Field(v, i); fv.CanInterface() {
				renderValue(b, f.T, fv)
			} else {
				b.WriteString("<unexported>")
			}
		}
		b.WriteString("}")
	case gen.KTime:
		b.WriteString(v.Interface().(time.Time).Format(time.RFC3339Nano))
	case gen.KString:
		fmt.Fprintf(b, "%q", trunc(v.String()))
	case gen.KBytes:
		if v.IsNil() {
			b.WriteString("nilbytes")
		} else if v.Len() > 16 {
			fmt.Fprintf(b, "x%x…(%d)", v.Bytes()[:16], v.Len())
		} else {
			fmt.Fprintf(b, "x%x", v.Bytes())
		}
	case gen.KFloat32, gen.KFloat64:
		fmt.Fprintf(b, "%v", v.Float())
	default:
		fmt.Fprintf(b, "%+v", v.Interface())
	}
}

// derefColl walks through pointer levels down to the collection; isNil if any level is nil.
func derefColl(t *gen.T, v reflect.Value) (*gen.T, reflect.Value, bool) {
	for t.K == gen.KPtr {
		if v.IsNil() {
			return t, v, true
		}
		v = v.Elem()
		t = t.Elem
	}
	return t, v, false
}

// f32bits returns the bit pattern of a float32-kind value (predeclared or defined type).
func f32bits(v reflect.Value) uint32 {
	if v.CanAddr() {
		return *(*uint32)(v.Addr().UnsafePointer())
	}
	c := reflect.New(v.Type()).Elem()
	c.Set(v)
	return *(*uint32)(c.Addr().UnsafePointer())
}
