package model

import (
	"errors"
	"fmt"
	"math"
	"reflect"
	"time"

	"verifharness/gen"
	"verifharness/refavro"
)

// ErrNoFit: the datum does not fit the chosen Go field (an error must be reported by the reader).
var ErrNoFit = errors.New("value does not fit the target field")

// ErrInexact: the conversion is outside what the property pins down (e.g. a
// double that is not exactly a float32): no expectation.
var ErrInexact = errors.New("conversion not pinned down by the property")

func logicalMult(s *refavro.Schema) int64 {
	switch s.LogicalType {
	case "timestamp-millis":
		return 1e6
	case "timestamp-micros":
		return 1e3
	}
	return 1
}

// FillFromDatum builds, in v (a zero value of t.RT()), the Go value that
// decoding datum d of schema s into target type t must produce.
func FillFromDatum(s *refavro.Schema, d any, t *gen.T, v reflect.Value) error {
	if s.Type == "union" {
		u := d.(*refavro.Union)
		b := s.Branches[u.Branch]
		if b.Type == "null" {
			return nil // target keeps its zero value
		}
		return FillFromDatum(b, u.Val, t, v)
	}
	if s.Type == "null" {
		return nil
	}
	if t.K == gen.KPtr {
		p := reflect.New(t.Elem.RT())
		if err := FillFromDatum(s, d, t.Elem, p.Elem()); err != nil {
			return err
		}
		v.Set(p)
		return nil
	}
	mismatch := func() error {
		return fmt.Errorf("model: schema %s cannot fill %v", s.Type, t.K)
	}
	switch s.Type {
	case "boolean":
		b := d.(bool)
		switch t.K {
		case gen.KBool:
			v.SetBool(b)
		case gen.KNullBool:
			v.FieldByName("Bool").SetBool(b)
			v.FieldByName("Valid").SetBool(true)
		default:
			return mismatch()
		}
	case "int", "long":
		var x int64
		if s.Type == "int" {
			x = int64(d.(int32))
		} else {
			x = d.(int64)
		}
		switch t.K {
		case gen.KInt, gen.KInt64:
			v.SetInt(x)
		case gen.KInt32:
			if x < math.MinInt32 || x > math.MaxInt32 {
				return ErrNoFit
			}
			v.SetInt(x)
		case gen.KInt16:
			if x < math.MinInt16 || x > math.MaxInt16 {
				return ErrNoFit
			}
			v.SetInt(x)
		case gen.KNullInt:
			v.FieldByName("Int64").SetInt(x)
			v.FieldByName("Valid").SetBool(true)
		case gen.KTime:
			var tm time.Time
			if s.Type == "int" {
				tm = time.Unix(x*86400, 0).UTC()
			} else {
				switch logicalMult(s) {
				case 1e6:
					tm = time.UnixMilli(x).UTC() // the specification's instant, also beyond the int64-nanosecond years
				case 1e3:
					tm = time.UnixMicro(x).UTC()
				default:
					tm = time.Unix(0, x).UTC()
				}
			}
			v.Set(reflect.ValueOf(tm))
		default:
			return mismatch()
		}
	case "float":
		f := d.(float32)
		switch t.K {
		case gen.KFloat32:
			*(*float32)(v.Addr().UnsafePointer()) = f
		case gen.KNullFloat:
			v.FieldByName("Float64").SetFloat(float64(f))
			v.FieldByName("Valid").SetBool(true)
		default:
			return mismatch()
		}
	case "double":
		f := d.(float64)
		switch t.K {
		case gen.KFloat64:
			v.SetFloat(f)
		case gen.KFloat32:
			if f == f && float64(float32(f)) != f {
				return ErrInexact
			}
			*(*float32)(v.Addr().UnsafePointer()) = float32(f)
		case gen.KNullFloat:
			v.FieldByName("Float64").SetFloat(f)
			v.FieldByName("Valid").SetBool(true)
		default:
			return mismatch()
		}
	case "bytes":
		b := d.([]byte)
		if t.K != gen.KBytes {
			return mismatch()
		}
		if len(b) > 0 {
			v.SetBytes(append([]byte{}, b...))
		}
	case "string":
		str := d.(string)
		switch t.K {
		case gen.KString:
			v.SetString(str)
		case gen.KNullString:
			v.FieldByName("String").SetString(str)
			v.FieldByName("Valid").SetBool(true)
		case gen.KTime, gen.KNullTime:
			var tm time.Time
			if str != "" {
				p, err := time.Parse(time.RFC3339Nano, str)
				if err != nil {
					return ErrInexact
				}
				tm = p
			}
			if t.K == gen.KTime {
				v.Set(reflect.ValueOf(tm))
			} else {
				v.FieldByName("Time").Set(reflect.ValueOf(tm))
				v.FieldByName("Valid").SetBool(true)
			}
		default:
			return mismatch()
		}
	case "fixed":
		b := d.([]byte)
		if t.K != gen.KArray || t.N != len(b) {
			return mismatch()
		}
		for i := range b {
			v.Index(i).SetUint(uint64(b[i]))
		}
	case "record":
		rec := d.(*refavro.Record)
		if t.K != gen.KStruct {
			return mismatch()
		}
		for i, f := range s.Fields {
			ti, tf := t.FieldByAvroName(f.Name)
			if tf == nil {
				continue // skipped
			}
			if err := FillFromDatum(f.Type, rec.Fields[i], tf.T, gen.Field(v, ti)); err != nil {
				return err
			}
		}
	case "array":
		a := d.([]any)
		if t.K != gen.KSlice {
			return mismatch()
		}
		if len(a) > 0 {
			sl := reflect.MakeSlice(t.RT(), len(a), len(a))
			for i := range a {
				if err := FillFromDatum(s.Items, a[i], t.Elem, sl.Index(i)); err != nil {
					return err
				}
			}
			v.Set(sl)
		}
	case "map":
		m := d.(*refavro.Map)
		if t.K != gen.KMap {
			return mismatch()
		}
		mv := reflect.MakeMap(t.RT())
		for _, e := range m.Entries {
			ev := reflect.New(t.Elem.RT()).Elem()
			if err := FillFromDatum(s.Values, e.Val, t.Elem, ev); err != nil {
				return err
			}
			mv.SetMapIndex(reflect.ValueOf(e.Key), ev)
		}
		v.Set(mv)
	default:
		return mismatch()
	}
	return nil
}

// MatchUnder checks that datum d (decoded by the reference decoder under the
// caller's schema s) is a valid encoding of Go value v of type t under s.
// omit: the struct field carries omitempty.
func MatchUnder(s *refavro.Schema, t *gen.T, v reflect.Value, omit bool, d any, path string) string {
	if s.Type == "union" {
		u, ok := d.(*refavro.Union)
		if !ok {
			return fmt.Sprintf("%s: want union datum, got %s", path, refavro.Render(d))
		}
		nullIdx, otherIdx := -1, -1
		for i, b := range s.Branches {
			if b.Type == "null" {
				nullIdx = i
			} else {
				otherIdx = i
			}
		}
		if len(s.Branches) != 2 || nullIdx < 0 {
			return path + ": model handles only [null,T]/[T,null] on the write side"
		}
		isNull := false
		eitherOK := false // a zero value under omitempty may be written as null or as the zero value
		tt, vv := t, v
		for tt.K == gen.KPtr {
			if vv.IsNil() {
				isNull = true
				break
			}
			tt, vv = tt.Elem, vv.Elem()
		}
		if !isNull {
			switch tt.K {
			case gen.KTime, gen.KNullInt, gen.KNullBool, gen.KNullFloat, gen.KNullString, gen.KNullTime:
				isNull = IsNullLike(tt, vv)
			default:
				if omit && t.K != gen.KPtr && vv.IsZero() && tt.K != gen.KStruct {
					eitherOK = true
				}
			}
		}
		if eitherOK {
			if u.Branch == nullIdx {
				return ""
			}
			if u.Branch != otherIdx {
				return fmt.Sprintf("%s: selector %d out of range", path, u.Branch)
			}
			return MatchUnder(s.Branches[otherIdx], tt, vv, false, u.Val, path)
		}
		if isNull {
			if u.Branch != nullIdx {
				return fmt.Sprintf("%s: null value written as branch %d (%s); null is branch %d", path, u.Branch, refavro.Render(u.Val), nullIdx)
			}
			return ""
		}
		if u.Branch != otherIdx {
			return fmt.Sprintf("%s: non-null value written as branch %d; its type is branch %d", path, u.Branch, otherIdx)
		}
		return MatchUnder(s.Branches[otherIdx], tt, vv, false, u.Val, path)
	}
	if s.Type == "null" {
		if d != nil {
			return fmt.Sprintf("%s: null schema but datum %s", path, refavro.Render(d))
		}
		return ""
	}
	for t.K == gen.KPtr {
		if v.IsNil() {
			// a nil pointer to a collection has no null to use: the empty collection
			if s.Type == "array" || s.Type == "map" {
				return matchEmptyColl(s.Type, d, path)
			}
			return path + ": nil pointer outside a union (outside the property's premise)"
		}
		t, v = t.Elem, v.Elem()
	}
	bad := func(want any) string {
		return fmt.Sprintf("%s: value %v must be written as %v under %s, got %s", path, RenderValue(t, v), want, s.Type, refavro.Render(d))
	}
	switch s.Type {
	case "null":
		if d != nil {
			return bad("null")
		}
	case "boolean":
		var b bool
		switch t.K {
		case gen.KBool:
			b = v.Bool()
		case gen.KNullBool:
			b = v.FieldByName("Bool").Bool()
		default:
			return path + ": model mismatch"
		}
		if g, ok := d.(bool); !ok || g != b {
			return bad(b)
		}
	case "int", "long":
		var x int64
		switch t.K {
		case gen.KInt, gen.KInt16, gen.KInt32, gen.KInt64:
			x = v.Int()
		case gen.KNullInt:
			x = v.FieldByName("Int64").Int()
		case gen.KTime:
			tm := v.Interface().(time.Time)
			if s.Type == "int" {
				secs := tm.Unix()
				x = secs / 86400
				if secs%86400 < 0 {
					x--
				}
			} else {
				switch logicalMult(s) {
				case 1e6:
					x = tm.UnixMilli()
				case 1e3:
					x = tm.UnixMicro()
				default:
					x = tm.UnixNano()
				}
			}
		default:
			return path + ": model mismatch"
		}
		if s.Type == "int" {
			if g, ok := d.(int32); !ok || int64(g) != x {
				return bad(x)
			}
		} else if g, ok := d.(int64); !ok || g != x {
			return bad(x)
		}
	case "float":
		var f float32
		switch t.K {
		case gen.KFloat32:
			f = float32(v.Float())
		case gen.KNullFloat:
			f = float32(v.FieldByName("Float64").Float())
		default:
			return path + ": model mismatch"
		}
		g, ok := d.(float32)
		if !ok || (math.Float32bits(g) != math.Float32bits(f) && !(g != g && f != f)) {
			return bad(f)
		}
	case "double":
		var f float64
		switch t.K {
		case gen.KFloat64:
			f = v.Float()
		case gen.KFloat32:
			f = v.Float()
		case gen.KNullFloat:
			f = v.FieldByName("Float64").Float()
		default:
			return path + ": model mismatch"
		}
		g, ok := d.(float64)
		if !ok || (math.Float64bits(g) != math.Float64bits(f) && !(g != g && f != f)) {
			return bad(f)
		}
	case "bytes":
		g, ok := d.([]byte)
		if !ok || string(g) != string(v.Bytes()) {
			return bad("bytes")
		}
	case "string":
		switch t.K {
		case gen.KString:
			if g, ok := d.(string); !ok || g != v.String() {
				return bad(v.String())
			}
		case gen.KNullString:
			if g, ok := d.(string); !ok || g != v.FieldByName("String").String() {
				return bad("string")
			}
		case gen.KTime:
			return matchTimeString(v.Interface().(time.Time), d, path)
		case gen.KNullTime:
			return matchTimeString(v.FieldByName("Time").Interface().(time.Time), d, path)
		default:
			return path + ": model mismatch"
		}
	case "fixed":
		g, ok := d.([]byte)
		if !ok || len(g) != v.Len() {
			return bad("fixed")
		}
		for i := range g {
			if uint64(g[i]) != v.Index(i).Uint() {
				return bad("fixed")
			}
		}
	case "record":
		g, ok := d.(*refavro.Record)
		if !ok || len(g.Fields) != len(s.Fields) {
			return bad("record")
		}
		for i, f := range s.Fields {
			ti, tf := t.FieldByAvroName(f.Name)
			if tf == nil {
				return path + ": struct does not cover field " + f.Name
			}
			if df := MatchUnder(f.Type, tf.T, gen.Field(v, ti), tf.Omit, g.Fields[i], path+"."+f.Name); df != "" {
				return df
			}
		}
	case "array":
		g, ok := d.([]any)
		if !ok || len(g) != v.Len() {
			return bad(fmt.Sprintf("array of %d", v.Len()))
		}
		for i := range g {
			if df := MatchUnder(s.Items, t.Elem, v.Index(i), false, g[i], fmt.Sprintf("%s[%d]", path, i)); df != "" {
				return df
			}
		}
	case "map":
		g, ok := d.(*refavro.Map)
		if !ok || len(g.Entries) != v.Len() {
			return bad(fmt.Sprintf("map of %d", v.Len()))
		}
		seen := map[string]bool{}
		for _, e := range g.Entries {
			mv := v.MapIndex(reflect.ValueOf(e.Key))
			if !mv.IsValid() || seen[e.Key] {
				return fmt.Sprintf("%s: key %q wrong or repeated", path, e.Key)
			}
			seen[e.Key] = true
			if df := MatchUnder(s.Values, t.Elem, mv, false, e.Val, fmt.Sprintf("%s[%q]", path, e.Key)); df != "" {
				return df
			}
		}
	default:
		return path + ": model has no rule for " + s.Type
	}
	return ""
}
