package core

import (
	"encoding/json"
	"os"
	"path/filepath"
)

type Finding struct {
	ID         string   `json:"id"`
	Property   string   `json:"property"`
	Status     string   `json:"status"` // open | fixed
	Commit     string   `json:"commit,omitempty"`
	What       string   `json:"what"`
	Line       string   `json:"line,omitempty"`
	Witness    string   `json:"witness,omitempty"`
	Quarantine []string `json:"quarantine,omitempty"`
}

type FindingsFile struct {
	Findings []Finding `json:"findings"`
}

// VerifRoot is /verif (overridable for tests).
func VerifRoot() string {
	if r := os.Getenv("VERIF_ROOT"); r != "" {
		return r
	}
	return "/verif"
}

// OutRoot is where build output, work directories, evidence and witnesses go:
// /verif normally, or $VERIF_SCRATCH for isolated runs against a scratch copy of the repository.
func OutRoot() string {
	if r := os.Getenv("VERIF_SCRATCH"); r != "" {
		return r
	}
	return VerifRoot()
}

var findingsCache *FindingsFile

// LoadFindings reads known_findings.json (read-only at run time).
func LoadFindings() *FindingsFile {
	if findingsCache != nil {
		return findingsCache
	}
	ff := &FindingsFile{}
	b, err := os.ReadFile(filepath.Join(VerifRoot(), "known_findings.json"))
	if err == nil {
		json.Unmarshal(b, ff)
	}
	findingsCache = ff
	return ff
}

// OpenFindings lists the open findings of a property.
func OpenFindings(prop string) []Finding {
	var out []Finding
	for _, f := range LoadFindings().Findings {
		if f.Property == prop && f.Status == "open" {
			out = append(out, f)
		}
	}
	return out
}

// OpenQuarantine lists the quarantine keys active for a property.
func OpenQuarantine(prop string) []string {
	var out []string
	for _, f := range OpenFindings(prop) {
		out = append(out, f.Quarantine...)
	}
	return out
}
