// Package core is the shared worker/orchestrator machinery: case loops with a
// pre-call journal, event/result files, child-process management, evidence.
package core

import (
	"encoding/json"
	"fmt"
	"hash/fnv"
	"math/rand/v2"
	"os"
	"runtime/debug"
	"sort"
	"strings"
	"sync"
)

type Violation struct {
	Prop   string         `json:"property"`
	Clause string         `json:"clause"`
	Case   string         `json:"case"`
	Mode   string         `json:"mode"`
	Seed   int64          `json:"seed"`
	Tier   string         `json:"tier"`
	Detail string         `json:"detail"`
	Replay map[string]any `json:"replay,omitempty"`
}

// Result is what one worker shard reports.
type Result struct {
	Prop         string           `json:"prop"`
	Mode         string           `json:"mode"`
	Shard        int              `json:"shard"`
	Evaluations  int64            `json:"evaluations"`
	Shapes       []string         `json:"shapes"`
	Counters     map[string]int64 `json:"counters"`
	Samples      []any            `json:"samples"`
	Violations   []Violation      `json:"violations"`
	Inconclusive []string         `json:"inconclusive"`
	Done         bool             `json:"done"`
}

type Mode struct {
	Name    string   // unique within the property
	Variant string   // plain | checkptr | race | asan | go126 | go126race
	Env     []string // extra environment (GODEBUG=..., GOGC=...)
	// CaseDiv: run only cases with i % CaseDiv == 0 (0/1 = all)
	CaseDiv int
	Shards  int // 0 = default
	// NoRlimit: do not set RLIMIT_AS
	NoRlimit bool
	// Group: cases of this mode are a different list (NumCases is asked per mode)
	Group string
}

type Prop struct {
	ID          string
	Level       string
	Technique   string
	Rule        string
	Explanation string
	Assumptions []string
	Modes       func(tier string) []Mode
	NumCases    func(c *Ctx) int
	Setup       func(c *Ctx)
	Run         func(c *Ctx, i int)
	Finish      func(c *Ctx)
	// Floors inspects aggregated counters and returns the unmet ones.
	Floors func(a *Agg) []string
	// Findings: witness replays of known findings, keyed by finding id; return
	// a non-empty description when the finding still reproduces.
	Findings map[string]func(c *Ctx) string
	// Exhaustive: returns true if the run enumerated its declared finite space completely
	Exhaustive func(a *Agg) bool
}

var registry = map[string]*Prop{}

func Register(p *Prop)    { registry[p.ID] = p }
func Get(id string) *Prop { return registry[id] }
func IDs() []string {
	var ids []string
	for k := range registry {
		ids = append(ids, k)
	}
	sort.Strings(ids)
	return ids
}

// Ctx is handed to property code inside a worker.
type Ctx struct {
	Prop    *Prop
	Seed    int64
	Tier    string
	Mode    Mode
	Shard   int
	NShards int
	Dir     string
	Replay  bool

	mu        sync.Mutex
	res       Result
	shapes    map[uint64]struct{}
	journal   *os.File
	lastInput *os.File
	curCase   string
	quarant   map[string]bool
	maxSamp   int
	violSeen  map[string]int
}

func NewCtx(p *Prop, seed int64, tier string, mode Mode, shard, nshards int, dir string) *Ctx {
	c := &Ctx{Prop: p, Seed: seed, Tier: tier, Mode: mode, Shard: shard, NShards: nshards, Dir: dir,
		shapes: map[uint64]struct{}{}, quarant: map[string]bool{}, maxSamp: 3, violSeen: map[string]int{}}
	c.res = Result{Prop: p.ID, Mode: mode.Name, Shard: shard, Counters: map[string]int64{}}
	if dir != "" {
		f, err := os.OpenFile(fmt.Sprintf("%s/journal.%s.%d", dir, mode.Name, shard), os.O_CREATE|os.O_WRONLY|os.O_TRUNC, 0o644)
		if err == nil {
			c.journal = f
		}
	}
	for _, k := range OpenQuarantine(p.ID) {
		c.quarant[k] = true
	}
	return c
}

func (c *Ctx) Quick() bool { return c.Tier != "thorough" }

// Pick returns q in the quick tier and t in the thorough tier.
func (c *Ctx) Pick(q, t int) int {
	if c.Quick() {
		return q
	}
	return t
}

// Quarantined reports whether an open known finding removes the feature from the domain.
func (c *Ctx) Quarantined(key string) bool { return c.quarant[key] }

func hash64(s string) uint64 {
	h := fnv.New64a()
	h.Write([]byte(s))
	return h.Sum64()
}

// Rand returns the PRNG of case i (pure function of property, seed, i, stream).
func (c *Ctx) Rand(i int, stream uint64) *rand.Rand {
	return rand.New(rand.NewPCG(uint64(c.Seed)*0x9e3779b97f4a7c15^hash64(c.Prop.ID), uint64(i)<<8|stream))
}

// Journal records the imminent case with one unbuffered write.
func (c *Ctx) Journal(caseID string, extra string) {
	c.curCase = caseID
	if c.journal != nil {
		line := caseID
		if extra != "" {
			line += " " + extra
		}
		c.journal.Write([]byte(line + "\n"))
	}
}

func (c *Ctx) CurCase() string { return c.curCase }

// JournalInput saves the raw input of the imminent call (overwritten each time)
// so that a process death can be attributed to the exact bytes.
func (c *Ctx) JournalInput(entry string, input []byte) {
	if c.Dir == "" {
		return
	}
	if c.lastInput == nil {
		f, err := os.OpenFile(fmt.Sprintf("%s/lastinput.%s.%d", c.Dir, c.Mode.Name, c.Shard), os.O_CREATE|os.O_WRONLY|os.O_TRUNC, 0o644)
		if err != nil {
			return
		}
		c.lastInput = f
	}
	buf := make([]byte, 0, len(entry)+1+2*len(input))
	buf = append(buf, entry...)
	buf = append(buf, ' ')
	const hexd = "0123456789abcdef"
	for _, b := range input {
		buf = append(buf, hexd[b>>4], hexd[b&15])
	}
	c.lastInput.WriteAt(buf, 0)
	c.lastInput.Truncate(int64(len(buf)))
}

func (c *Ctx) Eval(n int) {
	c.mu.Lock()
	c.res.Evaluations += int64(n)
	c.mu.Unlock()
}

// Shape registers one distinct non-trivial case shape.
func (c *Ctx) Shape(s string) {
	h := hash64(s)
	c.mu.Lock()
	c.shapes[h] = struct{}{}
	c.mu.Unlock()
}

func (c *Ctx) Count(k string, n int64) {
	c.mu.Lock()
	c.res.Counters[k] += n
	c.mu.Unlock()
}

func (c *Ctx) Max(k string, n int64) {
	c.mu.Lock()
	if c.res.Counters[k] < n {
		c.res.Counters[k] = n
	}
	c.mu.Unlock()
}

func (c *Ctx) Sample(v any) {
	c.mu.Lock()
	if len(c.res.Samples) < c.maxSamp {
		c.res.Samples = append(c.res.Samples, v)
	}
	c.mu.Unlock()
}

func (c *Ctx) Inconclusive(why string) {
	c.mu.Lock()
	c.res.Inconclusive = append(c.res.Inconclusive, why)
	c.mu.Unlock()
}

// Violate records a violation (at most 5 per clause are kept in detail).
func (c *Ctx) Violate(clause, detail string, replay map[string]any) {
	c.mu.Lock()
	defer c.mu.Unlock()
	c.violSeen[clause]++
	c.res.Counters["violations."+clause]++
	if c.violSeen[clause] > 5 {
		return
	}
	if len(detail) > 4000 {
		detail = detail[:4000] + "…"
	}
	c.res.Violations = append(c.res.Violations, Violation{Prop: c.Prop.ID, Clause: clause, Case: c.curCase, Mode: c.Mode.Name,
		Seed: c.Seed, Tier: c.Tier, Detail: detail, Replay: replay})
}

func (c *Ctx) NumViolations() int {
	c.mu.Lock()
	defer c.mu.Unlock()
	n := 0
	for _, v := range c.violSeen {
		n += v
	}
	return n
}

// RunCase runs one case with journal + panic capture.
// OnCaseStart hooks run before every case (generators reset what they remember, so that a case replayed
// alone sees what it saw in the full run).
var OnCaseStart []func()

func (c *Ctx) RunCase(i int) {
	c.Journal(fmt.Sprintf("i=%d", i), "")
	for _, f := range OnCaseStart {
		f()
	}
	defer func() {
		if r := recover(); r != nil {
			c.Violate("panic", fmt.Sprintf("panic: %v\n%s", r, trimStack(debug.Stack())), nil)
		}
	}()
	c.Prop.Run(c, i)
}

func trimStack(b []byte) string {
	s := string(b)
	if len(s) > 3000 {
		s = s[:3000]
	}
	return s
}

// WriteResult flushes the shard result to <dir>/result.<mode>.<shard>.json.
func (c *Ctx) WriteResult(done bool) error {
	c.mu.Lock()
	defer c.mu.Unlock()
	c.res.Done = done
	c.res.Shapes = c.res.Shapes[:0]
	for h := range c.shapes {
		c.res.Shapes = append(c.res.Shapes, fmt.Sprintf("%016x", h))
	}
	b, err := json.Marshal(&c.res)
	if err != nil {
		// samples may contain something unmarshalable; drop them
		c.res.Samples = nil
		b, err = json.Marshal(&c.res)
		if err != nil {
			return err
		}
	}
	if c.Dir == "" {
		os.Stdout.Write(b)
		os.Stdout.Write([]byte("\n"))
		return nil
	}
	tmp := fmt.Sprintf("%s/result.%s.%d.json.tmp", c.Dir, c.Mode.Name, c.Shard)
	if err := os.WriteFile(tmp, b, 0o644); err != nil {
		return err
	}
	return os.Rename(tmp, strings.TrimSuffix(tmp, ".tmp"))
}

func (c *Ctx) Result() *Result { return &c.res }

// Agg is the aggregate over all shards and modes of a run.
type Agg struct {
	Evaluations  int64
	Shapes       map[string]struct{}
	Counters     map[string]int64
	Samples      []any
	Violations   []Violation
	Inconclusive []string
	ModesRun     []string
	Tier         string
}

func (a *Agg) C(k string) int64 { return a.Counters[k] }
