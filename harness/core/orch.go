package core

import (
	"bufio"
	"bytes"
	"encoding/json"
	"errors"
	"fmt"
	"os"
	"os/exec"
	"path/filepath"
	"runtime"
	"sort"
	"strconv"
	"strings"
	"sync"
	"syscall"
	"time"
)

func binPath(variant string) string { return filepath.Join(OutRoot(), "bin", "vw-"+variant) }

// BuildVariant builds the worker binary for a variant from /repo's working tree.
func BuildVariant(variant string) error {
	goBin := os.Getenv("VGO")
	if goBin == "" {
		goBin = "go"
	}
	args := []string{"build", "-tags", "verif", "-o", binPath(variant)}
	if mf := os.Getenv("VERIF_MODFILE"); mf != "" {
		args = append(args, "-modfile="+mf)
	}
	switch variant {
	case "plain":
	case "checkptr":
		args = append(args, "-gcflags=all=-d=checkptr")
	case "race":
		args = append(args, "-race")
	case "asan":
		args = append(args, "-asan")
	case "go126":
		goBin = os.Getenv("VGO126")
	case "go126race":
		goBin = os.Getenv("VGO126")
		args = append(args, "-race")
	default:
		return fmt.Errorf("unknown variant %q", variant)
	}
	if goBin == "" {
		return fmt.Errorf("no go toolchain for variant %s", variant)
	}
	args = append(args, "./cmd/vw")
	cmd := exec.Command(goBin, args...)
	cmd.Dir = filepath.Join(VerifRoot(), "harness")
	cmd.Env = os.Environ()
	if strings.HasPrefix(variant, "go126") {
		cmd.Env = append(cmd.Env, "GOTOOLCHAIN=local")
	}
	out, err := cmd.CombinedOutput()
	if err != nil {
		return fmt.Errorf("build %s failed: %v\n%s", variant, err, out)
	}
	return nil
}

type childSpec struct {
	mode  Mode
	shard int
	n     int
	extra []string
}

type childOutcome struct {
	spec      childSpec
	res       *Result
	exitCode  int
	timedOut  bool
	stderr    string
	journal   string
	lastIn    string
	hungTwice bool
}

func runChild(p *Prop, tier string, seed int64, dir string, sp childSpec, timeout time.Duration) childOutcome {
	oc := childOutcome{spec: sp}
	outPath := fmt.Sprintf("%s/out.%s.%d", dir, sp.mode.Name, sp.shard)
	resPath := fmt.Sprintf("%s/result.%s.%d.json", dir, sp.mode.Name, sp.shard)
	os.Remove(resPath)
	args := []string{"-s", "QUIT", "-k", "10", strconv.Itoa(int(timeout.Seconds())), binPath(sp.mode.Variant), "worker", p.ID,
		"-seed", strconv.FormatInt(seed, 10), "-tier", tier, "-mode", sp.mode.Name, "-shard", strconv.Itoa(sp.shard),
		"-nshards", strconv.Itoa(sp.n), "-dir", dir}
	args = append(args, sp.extra...)
	cmd := exec.Command("timeout", args...)
	cmd.Env = append(os.Environ(), sp.mode.Env...)
	of, err := os.Create(outPath)
	if err == nil {
		cmd.Stdout = of
		cmd.Stderr = of
		defer of.Close()
	}
	err = cmd.Run()
	if err != nil {
		var ee *exec.ExitError
		if errors.As(err, &ee) {
			oc.exitCode = ee.ExitCode()
			if ws, ok := ee.Sys().(syscall.WaitStatus); ok && ws.Signaled() {
				oc.exitCode = 128 + int(ws.Signal())
			}
		} else {
			oc.exitCode = -1
		}
	}
	if oc.exitCode == 124 || oc.exitCode == 137 {
		oc.timedOut = true
	}
	if b, err := os.ReadFile(resPath); err == nil {
		var r Result
		if json.Unmarshal(b, &r) == nil {
			oc.res = &r
		}
	}
	if b, err := os.ReadFile(outPath); err == nil {
		if len(b) > 6000 {
			// keep head (fatal error line) and tail
			b = append(append(b[:3000:3000], []byte("\n…\n")...), b[len(b)-2500:]...)
		}
		oc.stderr = string(b)
	}
	if b, err := os.ReadFile(fmt.Sprintf("%s/journal.%s.%d", dir, sp.mode.Name, sp.shard)); err == nil {
		lines := strings.Split(strings.TrimSpace(string(b)), "\n")
		oc.journal = lines[len(lines)-1]
	}
	if b, err := os.ReadFile(fmt.Sprintf("%s/lastinput.%s.%d", dir, sp.mode.Name, sp.shard)); err == nil {
		oc.lastIn = string(b)
	}
	return oc
}

// canaryExpect: what the canary process of a sanitizer variant must print when it dies.
var canaryExpect = map[string]string{
	"checkptr": "checkptr",
	"race":     "DATA RACE",
	"asan":     "AddressSanitizer",
}

func runCanary(variant string) error {
	want, ok := canaryExpect[variant]
	if !ok {
		return nil
	}
	cmd := exec.Command("timeout", "-s", "KILL", "120", binPath(variant), "canary", variant)
	cmd.Env = append(os.Environ(), "GORACE=halt_on_error=1")
	out, err := cmd.CombinedOutput()
	if err == nil {
		return fmt.Errorf("canary for %s survived: the sanitizer build is not live", variant)
	}
	if !bytes.Contains(out, []byte(want)) {
		return fmt.Errorf("canary for %s died without %q: %s", variant, want, trimTo(string(out), 500))
	}
	return nil
}

func trimTo(s string, n int) string {
	if len(s) > n {
		return s[:n]
	}
	return s
}

// Orchestrate runs one property check and returns the process exit code.
func Orchestrate(propID, tier string, seed int64, replay string) int {
	start := time.Now()
	p := Get(propID)
	if p == nil {
		fmt.Fprintf(os.Stderr, "unknown property %s\n", propID)
		return 3
	}
	if replay != "" {
		return replayWitness(p, replay)
	}
	if old, _ := filepath.Glob(filepath.Join(OutRoot(), "replay", propID+"-*.json")); len(old) > 0 {
		for _, f := range old {
			os.Remove(f)
		}
	}
	dir := filepath.Join(OutRoot(), ".work", fmt.Sprintf("%s.%d", propID, os.Getpid()))
	os.MkdirAll(dir, 0o755)
	defer os.RemoveAll(dir)

	modes := p.Modes(tier)
	variants := map[string]bool{"plain": true}
	for _, m := range modes {
		variants[m.Variant] = true
	}
	// build (plain was already built by the check script; the others on demand)
	var wg sync.WaitGroup
	var bmu sync.Mutex
	var berrs []string
	for v := range variants {
		if v == "plain" {
			continue
		}
		wg.Add(1)
		go func(v string) {
			defer wg.Done()
			if err := BuildVariant(v); err != nil {
				bmu.Lock()
				berrs = append(berrs, err.Error())
				bmu.Unlock()
			}
		}(v)
	}
	wg.Wait()
	if len(berrs) > 0 {
		fmt.Println("CHECK-BROKEN: build failed:", strings.Join(berrs, "; "))
		return 3
	}
	var canaries []string
	for v := range variants {
		if err := runCanary(v); err != nil {
			fmt.Println("CHECK-BROKEN:", err)
			return 3
		}
		if _, ok := canaryExpect[v]; ok {
			canaries = append(canaries, v)
		}
	}
	sort.Strings(canaries)

	// known findings: replay pinned witnesses
	var knownLines []string
	for _, f := range OpenFindings(p.ID) {
		fn := p.Findings[f.ID]
		if fn == nil {
			continue
		}
		cmd := exec.Command("timeout", "-s", "KILL", "300", binPath("plain"), "finding", p.ID, f.ID)
		cmd.Env = os.Environ()
		out, _ := cmd.CombinedOutput()
		if bytes.Contains(out, []byte("REPRODUCES")) {
			line := fmt.Sprintf("KNOWN-FINDING: property=%s %s", p.ID, f.What)
			fmt.Println(line)
			knownLines = append(knownLines, line)
		} else {
			fmt.Printf("note: known finding %s no longer reproduces\n", f.ID)
		}
	}

	// children
	agg := &Agg{Shapes: map[string]struct{}{}, Counters: map[string]int64{}, Tier: tier}
	sem := make(chan struct{}, runtime.NumCPU())
	timeout := 6 * time.Minute
	if tier == "thorough" {
		timeout = 60 * time.Minute
	}
	var outcomes []childOutcome
	var omu sync.Mutex
	for _, m := range modes {
		n := m.Shards
		if n <= 0 {
			n = runtime.NumCPU()
		}
		for s := 0; s < n; s++ {
			wg.Add(1)
			go func(sp childSpec) {
				defer wg.Done()
				sem <- struct{}{}
				oc := runChild(p, tier, seed, dir, sp, timeout)
				if oc.timedOut && (oc.res == nil || !oc.res.Done) {
					// inconclusive: retry once in a fresh process
					oc2 := runChild(p, tier, seed, dir, sp, timeout)
					if !(oc2.timedOut && (oc2.res == nil || !oc2.res.Done)) {
						oc = oc2
					} else if oc2.journal == oc.journal && oc2.lastIn == oc.lastIn {
						// the same case did not terminate twice under a generous watchdog: not load
						oc.hungTwice = true
					}
				}
				<-sem
				omu.Lock()
				outcomes = append(outcomes, oc)
				omu.Unlock()
			}(childSpec{mode: m, shard: s, n: n})
		}
		agg.ModesRun = append(agg.ModesRun, m.Name+"("+m.Variant+strings.Join(append([]string{""}, m.Env...), " ")+")")
	}
	wg.Wait()
	sort.Slice(outcomes, func(i, j int) bool {
		if outcomes[i].spec.mode.Name != outcomes[j].spec.mode.Name {
			return outcomes[i].spec.mode.Name < outcomes[j].spec.mode.Name
		}
		return outcomes[i].spec.shard < outcomes[j].spec.shard
	})
	for _, oc := range outcomes {
		if oc.res != nil {
			agg.Evaluations += oc.res.Evaluations
			for _, s := range oc.res.Shapes {
				agg.Shapes[s] = struct{}{}
			}
			for k, v := range oc.res.Counters {
				if strings.HasPrefix(k, "max.") {
					if agg.Counters[k] < v {
						agg.Counters[k] = v
					}
				} else {
					agg.Counters[k] += v
				}
			}
			if len(agg.Samples) < 5 {
				for _, s := range oc.res.Samples {
					if len(agg.Samples) < 5 {
						agg.Samples = append(agg.Samples, s)
					}
				}
			}
			agg.Violations = append(agg.Violations, oc.res.Violations...)
			agg.Inconclusive = append(agg.Inconclusive, oc.res.Inconclusive...)
		}
		if oc.res == nil || !oc.res.Done {
			if oc.timedOut && oc.hungTwice {
				agg.Violations = append(agg.Violations, Violation{Prop: p.ID, Clause: "no-termination", Case: firstField(oc.journal), Mode: oc.spec.mode.Name,
					Seed: seed, Tier: tier, Detail: fmt.Sprintf("worker did not terminate within %v, twice, at the same journalled case %q\n%s", timeout, oc.journal, oc.stderr),
					Replay: map[string]any{"last_input": oc.lastIn}})
				agg.Counters["violations.no-termination"]++
				continue
			}
			if oc.timedOut {
				agg.Inconclusive = append(agg.Inconclusive, fmt.Sprintf("watchdog: mode %s shard %d at case %q", oc.spec.mode.Name, oc.spec.shard, oc.journal))
				continue
			}
			clause := "process-died"
			if strings.Contains(oc.stderr, "WARNING: DATA RACE") {
				clause = "data-race"
			}
			agg.Violations = append(agg.Violations, Violation{Prop: p.ID, Clause: clause, Case: firstField(oc.journal), Mode: oc.spec.mode.Name,
				Seed: seed, Tier: tier, Detail: fmt.Sprintf("worker exit=%d at journal %q\n%s", oc.exitCode, oc.journal, oc.stderr),
				Replay: map[string]any{"last_input": oc.lastIn}})
			agg.Counters["violations."+clause]++
		}
	}

	// floors
	var unmet []string
	if p.Floors != nil && len(agg.Violations) == 0 {
		unmet = p.Floors(agg)
	}
	nviol := int64(0)
	for k, v := range agg.Counters {
		if strings.HasPrefix(k, "violations.") {
			nviol += v
		}
	}
	// witnesses
	os.MkdirAll(filepath.Join(OutRoot(), "replay"), 0o755)
	printed := 0
	seen := map[string]bool{}
	for _, v := range agg.Violations {
		key := v.Clause + "|" + v.Case + "|" + v.Mode
		if seen[key] {
			continue
		}
		seen[key] = true
		name := fmt.Sprintf("%s-%d-%s-%s-%s.json", p.ID, seed, tier, v.Mode, sanitize(v.Case+"-"+v.Clause))
		path := filepath.Join(OutRoot(), "replay", name)
		b, _ := json.MarshalIndent(v, "", " ")
		os.WriteFile(path, b, 0o644)
		if printed < 12 {
			fmt.Printf("VIOLATION property=%s replay=%s\n", p.ID, path)
			fmt.Printf("  clause=%s mode=%s case=%s: %s\n", v.Clause, v.Mode, v.Case, firstLine(v.Detail))
			printed++
		}
	}
	// evidence
	ev := map[string]any{
		"property_id": p.ID,
		"tier":        tier,
		"seed":        seed,
		"level":       p.Level,
		"wall_s":      time.Since(start).Seconds(),
		"violations":  nviol,
		"assumptions": p.Assumptions,
	}
	cov := map[string]any{
		"evaluations":         agg.Evaluations,
		"distinct_nontrivial": len(agg.Shapes),
		"rule":                p.Rule,
		"samples":             agg.Samples,
		"explanation":         p.Explanation,
		"counters":            agg.Counters,
		"modes_run":           agg.ModesRun,
		"sanitizer_canaries":  canaries,
		"inconclusive":        agg.Inconclusive,
		"known_findings":      knownLines,
		"floors_unmet":        unmet,
	}
	if p.Exhaustive != nil && p.Exhaustive(agg) {
		cov["exhaustive"] = true
	}
	if agg.Samples == nil {
		cov["samples"] = []any{}
	}
	ev["coverage"] = cov
	if len(p.Assumptions) == 0 {
		ev["assumptions"] = []string{}
	}
	eb, _ := json.MarshalIndent(ev, "", " ")
	os.MkdirAll(filepath.Join(OutRoot(), "evidence"), 0o755)
	os.WriteFile(filepath.Join(OutRoot(), "evidence", p.ID+".json"), eb, 0o644)

	fmt.Printf("%s tier=%s seed=%d: evaluations=%d distinct=%d violations=%d inconclusive=%d wall=%.1fs\n", p.ID, tier, seed,
		agg.Evaluations, len(agg.Shapes), nviol, len(agg.Inconclusive), time.Since(start).Seconds())
	if nviol > 0 || len(agg.Violations) > 0 {
		return 1
	}
	if len(unmet) > 0 {
		fmt.Println("CHECK-BROKEN: observation floors not met:", strings.Join(unmet, "; "))
		return 3
	}
	return 0
}

func firstField(s string) string {
	f := strings.Fields(s)
	if len(f) == 0 {
		return "?"
	}
	return f[0]
}

func firstLine(s string) string {
	if i := strings.IndexByte(s, '\n'); i >= 0 {
		s = s[:i]
	}
	return trimTo(s, 300)
}

func sanitize(s string) string {
	var b strings.Builder
	for _, r := range s {
		if r >= 'a' && r <= 'z' || r >= 'A' && r <= 'Z' || r >= '0' && r <= '9' || r == '-' || r == '_' || r == '.' {
			b.WriteRune(r)
		} else {
			b.WriteByte('_')
		}
	}
	return trimTo(b.String(), 80)
}

func replayWitness(p *Prop, path string) int {
	b, err := os.ReadFile(path)
	if err != nil {
		fmt.Println("cannot read witness:", err)
		return 3
	}
	var v Violation
	if err := json.Unmarshal(b, &v); err != nil {
		fmt.Println("bad witness:", err)
		return 3
	}
	var mode *Mode
	for _, m := range p.Modes(v.Tier) {
		if m.Name == v.Mode {
			mm := m
			mode = &mm
		}
	}
	if mode == nil {
		fmt.Println("witness names unknown mode", v.Mode)
		return 3
	}
	if err := BuildVariant(mode.Variant); err != nil {
		fmt.Println(err)
		return 3
	}
	cs := strings.TrimPrefix(v.Case, "i=")
	if _, err := strconv.Atoi(cs); err != nil {
		fmt.Printf("witness case %q is not an index; showing the recorded detail only:\n%s\n", v.Case, v.Detail)
		return 1
	}
	cmd := exec.Command(binPath(mode.Variant), "worker", p.ID, "-seed", strconv.FormatInt(v.Seed, 10), "-tier", v.Tier, "-mode", mode.Name, "-case", cs)
	cmd.Env = append(os.Environ(), mode.Env...)
	out, err := cmd.CombinedOutput()
	sc := bufio.NewScanner(bytes.NewReader(out))
	sc.Buffer(make([]byte, 1<<20), 1<<26)
	code := 0
	for sc.Scan() {
		line := sc.Text()
		var r Result
		if json.Unmarshal([]byte(line), &r) == nil && r.Prop != "" {
			for _, vv := range r.Violations {
				fmt.Printf("VIOLATION property=%s replay=%s\n  clause=%s: %s\n", p.ID, path, vv.Clause, vv.Detail)
				code = 1
			}
			continue
		}
		fmt.Println(line)
	}
	if err != nil && code == 0 {
		fmt.Printf("VIOLATION property=%s replay=%s\n  replay process died: %v\n", p.ID, path, err)
		code = 1
	}
	if code == 0 {
		fmt.Println("replay: no violation")
	}
	return code
}

// WorkerMain runs one shard (or a single case) inside a child process.
func WorkerMain(args []string) int {
	if len(args) < 1 {
		return 3
	}
	p := Get(args[0])
	if p == nil {
		fmt.Fprintln(os.Stderr, "unknown property", args[0])
		return 3
	}
	var seed int64 = 1
	tier, modeName, dir := "quick", "", ""
	shard, nshards, single := 0, 1, -1
	for i := 1; i+1 < len(args); i += 2 {
		switch args[i] {
		case "-seed":
			seed, _ = strconv.ParseInt(args[i+1], 10, 64)
		case "-tier":
			tier = args[i+1]
		case "-mode":
			modeName = args[i+1]
		case "-shard":
			shard, _ = strconv.Atoi(args[i+1])
		case "-nshards":
			nshards, _ = strconv.Atoi(args[i+1])
		case "-dir":
			dir = args[i+1]
		case "-case":
			single, _ = strconv.Atoi(args[i+1])
		}
	}
	var mode Mode
	found := false
	for _, m := range p.Modes(tier) {
		if m.Name == modeName || modeName == "" {
			mode = m
			found = true
			break
		}
	}
	if !found {
		fmt.Fprintln(os.Stderr, "unknown mode", modeName)
		return 3
	}
	if !mode.NoRlimit && (mode.Variant == "plain" || mode.Variant == "checkptr" || mode.Variant == "go126") {
		lim := uint64(24) << 30
		syscall.Setrlimit(syscall.RLIMIT_AS, &syscall.Rlimit{Cur: lim, Max: lim})
	}
	c := NewCtx(p, seed, tier, mode, shard, nshards, dir)
	if p.Setup != nil {
		p.Setup(c)
	}
	if single >= 0 {
		c.Replay = true
		c.RunCase(single)
		if p.Finish != nil {
			p.Finish(c)
		}
		c.WriteResult(true)
		if c.NumViolations() > 0 {
			return 1
		}
		return 0
	}
	n := p.NumCases(c)
	div := mode.CaseDiv
	for i := shard; i < n; i += nshards {
		if div > 1 && (i/nshards)%div != 0 {
			continue
		}
		c.RunCase(i)
		if c.NumViolations() > 200 {
			break
		}
	}
	c.Journal("finish", "")
	if p.Finish != nil {
		func() {
			defer func() {
				if r := recover(); r != nil {
					c.Violate("panic", fmt.Sprintf("panic in finish: %v", r), nil)
				}
			}()
			p.Finish(c)
		}()
	}
	if err := c.WriteResult(true); err != nil {
		fmt.Fprintln(os.Stderr, "write result:", err)
		return 3
	}
	return 0
}

// FindingMain replays the pinned witness of a known finding.
func FindingMain(args []string) int {
	if len(args) < 2 {
		return 3
	}
	p := Get(args[0])
	if p == nil || p.Findings[args[1]] == nil {
		return 3
	}
	c := NewCtx(p, 1, "quick", Mode{Name: "finding", Variant: "plain"}, 0, 1, "")
	if p.Setup != nil {
		p.Setup(c)
	}
	var msg string
	func() {
		defer func() {
			if r := recover(); r != nil {
				msg = fmt.Sprintf("panic: %v", r)
			}
		}()
		msg = p.Findings[args[1]](c)
	}()
	if msg != "" {
		fmt.Println("REPRODUCES:", msg)
		return 1
	}
	fmt.Println("does not reproduce")
	return 0
}
