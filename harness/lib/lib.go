// Package lib adapts the library under test (github.com/philpearl/avro) to
// reflect-built types. It contains no oracle logic.
package lib

import (
	"bytes"
	"fmt"
	"io"
	"reflect"
	"unsafe"

	"github.com/philpearl/avro"
	avronull "github.com/philpearl/avro/null"
	avrotime "github.com/philpearl/avro/time"
)

func init() {
	avrotime.RegisterCodecs()
	avronull.RegisterCodecs()
}

// SchemaFor runs schema generation for a reflect type.
func SchemaFor(rt reflect.Type) (avro.Schema, error) {
	return avro.SchemaForType(reflect.New(rt).Interface())
}

// CodecFor builds a codec for (schema, struct type).
func CodecFor(s avro.Schema, rt reflect.Type) (avro.Codec, error) {
	return s.Codec(reflect.New(rt).Interface())
}

// FlushPlan says after which record indices Flush is called (value = how many times).
type FlushPlan struct {
	BeforeFirst int
	After       map[int]int
	AtEnd       int
}

type EncodeCfg struct {
	Compression avro.Compression
	BlockSize   int
	Plan        FlushPlan
	// NoScratch: do not swap byte slices for scratch copies around Encode (values shared between goroutines)
	NoScratch bool
}

// EncodeTwin is the reflective twin of Encoder[T]: same public building
// blocks (SchemaForType, Schema.Codec, Schema.Marshal, FileWriter), for types
// that only exist at run time.
func EncodeTwin(w io.Writer, rt reflect.Type, vals []reflect.Value, cfg EncodeCfg) error {
	s, err := SchemaFor(rt)
	if err != nil {
		return fmt.Errorf("generating schema: %w", err)
	}
	c, err := CodecFor(s, rt)
	if err != nil {
		return fmt.Errorf("generating codec: %w", err)
	}
	sb, err := s.Marshal()
	if err != nil {
		return fmt.Errorf("marshaling schema: %w", err)
	}
	fw, err := avro.NewFileWriter(sb, cfg.Compression)
	if err != nil {
		return err
	}
	if err := fw.WriteHeader(w); err != nil {
		return err
	}
	wb := avro.NewWriteBuf(make([]byte, 0, cfg.BlockSize))
	count := 0
	flush := func() error {
		if count > 0 {
			if err := fw.WriteBlock(w, count, wb.Bytes()); err != nil {
				return err
			}
			count = 0
			wb.Reset()
		}
		return nil
	}
	for k := 0; k < cfg.Plan.BeforeFirst; k++ {
		if err := flush(); err != nil {
			return err
		}
	}
	for i, v := range vals {
		restore := func() {}
		if !cfg.NoScratch {
			restore = ScratchBytes(v)
		}
		c.Write(wb, unsafe.Pointer(v.UnsafeAddr()))
		restore()
		count++
		if wb.Len() >= cfg.BlockSize {
			if err := flush(); err != nil {
				return err
			}
		}
		for k := 0; k < cfg.Plan.After[i]; k++ {
			if err := flush(); err != nil {
				return err
			}
		}
	}
	for k := 0; k < cfg.Plan.AtEnd; k++ {
		if err := flush(); err != nil {
			return err
		}
	}
	return nil
}

// EncodeStatic drives a real Encoder[T].
// ScratchBytes replaces every non-empty []byte reachable from v (through exported struct fields, pointers,
// slices and map values) by a private copy and returns a function that overwrites those copies and puts the
// originals back. Called around Encode it does what a caller does who reuses one buffer for every row: once
// Encode has returned, the bytes it was given are the caller's again.
func ScratchBytes(v reflect.Value) func() {
	var undo []func()
	var walk func(v reflect.Value, depth int)
	walk = func(v reflect.Value, depth int) {
		if depth > 8 {
			return
		}
		switch v.Kind() {
		case reflect.Pointer:
			if !v.IsNil() {
				walk(v.Elem(), depth+1)
			}
		case reflect.Struct:
			if v.Type().PkgPath() != "" && v.NumField() > 0 && !v.Type().Field(0).IsExported() {
				return
			}
			for i := 0; i < v.NumField(); i++ {
				if v.Type().Field(i).IsExported() {
					walk(v.Field(i), depth+1)
				}
			}
		case reflect.Slice:
			if v.Type().Elem().Kind() == reflect.Uint8 {
				if v.Len() > 0 && v.CanSet() {
					orig := v.Bytes()
					tmp := append(make([]byte, 0, len(orig)), orig...)
					origV := reflect.ValueOf(orig)
					if v.Type() != origV.Type() {
						origV = origV.Convert(v.Type())
					}
					v.SetBytes(tmp)
					ScratchedSlices++
					undo = append(undo, func() {
						for k := range tmp {
							tmp[k] = 0xEE
						}
						v.Set(origV)
					})
				}
				return
			}
			for i := 0; i < v.Len() && i < 64; i++ {
				walk(v.Index(i), depth+1)
			}
		case reflect.Map:
			if v.Type().Elem().Kind() == reflect.Slice && v.Type().Elem().Elem().Kind() == reflect.Uint8 && v.Type().Elem() == reflect.TypeOf([]byte(nil)) {
				for _, key := range v.MapKeys() {
					orig := v.MapIndex(key).Bytes()
					if len(orig) == 0 {
						continue
					}
					tmp := append(make([]byte, 0, len(orig)), orig...)
					key := key
					v.SetMapIndex(key, reflect.ValueOf(tmp))
					ScratchedSlices++
					undo = append(undo, func() {
						for k := range tmp {
							tmp[k] = 0xEE
						}
						v.SetMapIndex(key, reflect.ValueOf(orig))
					})
				}
			}
		}
	}
	walk(v, 0)
	return func() {
		for _, f := range undo {
			f()
		}
	}
}

// ScratchedSlices counts the byte slices handed to the encoder as scratch copies (evidence).
var ScratchedSlices int64

func EncodeStatic[T any](w io.Writer, vals []reflect.Value, cfg EncodeCfg) error {
	enc, err := avro.NewEncoderFor[T](w, cfg.Compression, cfg.BlockSize)
	if err != nil {
		return err
	}
	for k := 0; k < cfg.Plan.BeforeFirst; k++ {
		if err := enc.Flush(); err != nil {
			return err
		}
	}
	for i, v := range vals {
		restore := func() {}
		if !cfg.NoScratch {
			restore = ScratchBytes(v)
		}
		err := enc.Encode(v.Addr().Interface().(*T))
		restore()
		if err != nil {
			return err
		}
		for k := 0; k < cfg.Plan.After[i]; k++ {
			if err := enc.Flush(); err != nil {
				return err
			}
		}
	}
	for k := 0; k < cfg.Plan.AtEnd; k++ {
		if err := enc.Flush(); err != nil {
			return err
		}
	}
	return nil
}

// ReadAll reads a whole file into values of rt. Banks are left open so the
// returned values stay valid. ptrTarget passes *T instead of T as "out".
// DirtyValue, when set, supplies an arbitrary valid value of a record type. The readers below use it the way a
// caller legitimately may: the target handed to ReadFile already holds data from earlier use, and the callback
// overwrites the record it was given once it has taken its copy. Neither may show in any later record.
var DirtyValue func(rt reflect.Type) (reflect.Value, bool)

// Scribbles counts how often a record or target was overwritten with a dirty value (evidence).
var Scribbles int64

// Scribble overwrites the record/target at p with an arbitrary valid value of its type.
func Scribble(rt reflect.Type, p unsafe.Pointer) {
	if DirtyValue == nil || p == nil {
		return
	}
	if d, ok := DirtyValue(rt); ok {
		reflect.NewAt(rt, p).Elem().Set(d)
		Scribbles++
	}
}

// NewTarget returns a ReadFile target (value or pointer) that already holds arbitrary data.
func NewTarget(rt reflect.Type, ptrTarget bool) any {
	if ptrTarget {
		t := reflect.New(rt)
		Scribble(rt, t.UnsafePointer())
		return t.Interface()
	}
	t := reflect.New(rt).Elem()
	Scribble(rt, t.Addr().UnsafePointer())
	return t.Interface()
}

func ReadAll(data []byte, rt reflect.Type, ptrTarget bool) ([]reflect.Value, error) {
	var out []reflect.Value
	target := NewTarget(rt, ptrTarget)
	err := avro.ReadFile(bytes.NewReader(data), target, func(val unsafe.Pointer, rb *avro.ResourceBank) error {
		v := reflect.New(rt).Elem()
		v.Set(reflect.NewAt(rt, val).Elem())
		out = append(out, v)
		Scribble(rt, val)
		return nil
	})
	return out, err
}

// ReadAllFrom is ReadAll over an arbitrary avro.Reader.
var readFromTick int

func ReadAllFrom(r avro.Reader, rt reflect.Type) ([]reflect.Value, error) {
	var out []reflect.Value
	readFromTick++
	err := avro.ReadFile(r, NewTarget(rt, readFromTick%2 == 0), func(val unsafe.Pointer, rb *avro.ResourceBank) error {
		v := reflect.New(rt).Elem()
		v.Set(reflect.NewAt(rt, val).Elem())
		out = append(out, v)
		Scribble(rt, val)
		return nil
	})
	return out, err
}

// Session is a step-wise handle on a real Encoder[T].
type Session interface {
	Encode(v reflect.Value) error
	Flush() error
}

type staticSession[T any] struct{ enc *avro.Encoder[T] }

func (s staticSession[T]) Encode(v reflect.Value) error {
	return s.enc.Encode(v.Addr().Interface().(*T))
}
func (s staticSession[T]) Flush() error { return s.enc.Flush() }

// NewStaticSession calls NewEncoderFor[T] (which writes the header to w).
func NewStaticSession[T any](w io.Writer, comp avro.Compression, blockSize int) (Session, error) {
	enc, err := avro.NewEncoderFor[T](w, comp, blockSize)
	if err != nil {
		return nil, err
	}
	return staticSession[T]{enc}, nil
}

// ReadEach reads a file and hands every record to fn inside the callback; the bank is closed
// right after fn returns (the documented usage), so fn must not retain the value.
func ReadEach(data []byte, rt reflect.Type, ptrTarget bool, fn func(k int, v reflect.Value) error) (int, error) {
	target := NewTarget(rt, ptrTarget)
	k := 0
	err := avro.ReadFile(bytes.NewReader(data), target, func(val unsafe.Pointer, rb *avro.ResourceBank) error {
		err := fn(k, reflect.NewAt(rt, val).Elem())
		k++
		Scribble(rt, val)
		rb.Close()
		return err
	})
	return k, err
}
