// Package monitor holds the runtime monitors: per-call CPU/allocation meters,
// recording/failing writers, GC stressors.
package monitor

import (
	"runtime"
	"syscall"
	"unsafe"
)

const rusageThread = 1

type rusage struct {
	Utime, Stime syscall.Timeval
	_            [14]int64
}

// ThreadCPU returns the CPU time (ns) consumed by the calling OS thread.
// The caller must have locked the goroutine to its thread.
func ThreadCPU() int64 {
	var ru rusage
	_, _, e := syscall.RawSyscall(syscall.SYS_GETRUSAGE, rusageThread, uintptr(unsafe.Pointer(&ru)), 0)
	if e != 0 {
		return 0
	}
	return (ru.Utime.Sec+ru.Stime.Sec)*1e9 + (ru.Utime.Usec+ru.Stime.Usec)*1e3
}

// Meter measures one call: CPU time of the thread and cumulative heap bytes allocated.
type Meter struct {
	ms0, ms1 runtime.MemStats
	cpu0     int64
}

func (m *Meter) Start() {
	runtime.ReadMemStats(&m.ms0)
	m.cpu0 = ThreadCPU()
}

// Stop returns (cpu ns, bytes allocated during the call).
func (m *Meter) Stop() (int64, uint64) {
	cpu := ThreadCPU() - m.cpu0
	runtime.ReadMemStats(&m.ms1)
	return cpu, m.ms1.TotalAlloc - m.ms0.TotalAlloc
}
