// Command vw is the verification worker and orchestrator for philpearl/avro.
//
//	vw orch <Cxx> [-tier quick|thorough] [-seed N] [-replay file]
//	vw worker <Cxx> -seed N -tier T -mode M -shard i -nshards n -dir D [-case k]
//	vw finding <Cxx> <finding-id>
//	vw canary <variant>
package main

import (
	"fmt"
	"os"
	"strconv"

	"verifharness/core"
	_ "verifharness/props"
)

func main() {
	if len(os.Args) < 2 {
		fmt.Println("usage: vw orch|worker|finding|canary ...")
		os.Exit(3)
	}
	switch os.Args[1] {
	case "orch":
		if len(os.Args) < 3 {
			os.Exit(3)
		}
		tier := os.Getenv("VERIF_TIER")
		if tier == "" {
			tier = "quick"
		}
		seed := int64(1)
		if s := os.Getenv("VERIF_SEED"); s != "" {
			if v, err := strconv.ParseInt(s, 10, 64); err == nil {
				seed = v
			}
		}
		replay := ""
		a := os.Args[3:]
		for i := 0; i < len(a); i++ {
			switch a[i] {
			case "-tier", "--tier":
				if i+1 < len(a) {
					tier = a[i+1]
					i++
				}
			case "-seed", "--seed":
				if i+1 < len(a) {
					seed, _ = strconv.ParseInt(a[i+1], 10, 64)
					i++
				}
			case "-replay", "--replay":
				if i+1 < len(a) {
					replay = a[i+1]
					i++
				}
			case "quick", "thorough":
				tier = a[i]
			}
		}
		if tier != "thorough" {
			tier = "quick"
		}
		os.Exit(core.Orchestrate(os.Args[2], tier, seed, replay))
	case "worker":
		os.Exit(core.WorkerMain(os.Args[2:]))
	case "finding":
		os.Exit(core.FindingMain(os.Args[2:]))
	case "canary":
		if len(os.Args) < 3 {
			os.Exit(3)
		}
		canary(os.Args[2])
	case "list":
		for _, id := range core.IDs() {
			fmt.Println(id)
		}
	default:
		fmt.Println("unknown subcommand", os.Args[1])
		os.Exit(3)
	}
}
