package main

import (
	"fmt"
	"os"
	"runtime"
	"sync"
	"unsafe"
)

var sink any

// canary commits the very fault the sanitizer variant exists to see. If the
// process survives, the variant's silence means nothing.
func canary(variant string) {
	switch variant {
	case "checkptr":
		type S struct {
			A int64
			B int16
		}
		arr := make([]S, 4)
		sink = arr
		q := (*[100]int64)(unsafe.Pointer(&arr[3].B)) // straddles the allocation
		fmt.Println(q[0])
	case "race", "go126race":
		var n int
		var wg sync.WaitGroup
		for g := 0; g < 4; g++ {
			wg.Add(1)
			go func() {
				defer wg.Done()
				for i := 0; i < 10000; i++ {
					n++
					runtime.Gosched()
				}
			}()
		}
		wg.Wait()
		fmt.Println(n)
	case "asan":
		b := make([]byte, 16)
		sink = b
		p := unsafe.Add(unsafe.Pointer(&b[0]), 17)
		*(*byte)(p) = 1
		fmt.Println(b[0])
	}
	fmt.Println("canary survived")
	os.Exit(0)
}
