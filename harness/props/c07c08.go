package props

import (
	"bufio"
	"bytes"
	"errors"
	"fmt"
	"hash/crc32"
	"io"
	"math/rand/v2"
	"reflect"
	"strings"
	"unsafe"

	"github.com/philpearl/avro"

	"verifharness/core"
	"verifharness/gen"
	"verifharness/lib"
	"verifharness/model"
	"verifharness/refavro"
)

// C07 — container reader delivers exactly the declared records and rejects damage.
// C08 — a truncated file yields a prefix of its records and an error.

type contFile struct {
	file   []byte
	cont   *refavro.Container
	t      *gen.T
	schema *refavro.Schema
	// baseline values (for files written by the library's own encoder)
	baseline []reflect.Value
	origin   string
	desc     string
	// zeroWidth: the records occupy no bytes (a damaged count then legally stands for any number of records, so
	// only the intact file and its truncations are presented)
	zeroWidth bool
}

// zeroWidthFiles is switched on by the checks that can judge files of zero-width records.
var zeroWidthFiles = true

// genContFile builds a valid container file: even cases from the reference writer, odd cases from the library's encoder.
func genContFile(c *core.Ctx, i int, codecIdx int, maxRecs int) *contFile {
	r := c.Rand(i, 0)
	codec := []string{"null", "deflate", "snappy", ""}[codecIdx%4]
	cf := &contFile{}
	if i%2 == 0 {
		depth := 1 + r.IntN(3)
		if maxRecs >= 64 {
			depth = 1
		}
		ds := gen.GenDataSchema(r, gen.DataOpts{MaxDepth: depth, NoZeroWidth: true})
		if zeroWidthFiles && i%16 == 6 {
			// records that occupy no bytes: the blocks declare N records and have empty payloads
			ds = gen.GenZeroWidthSchema(r)
			cf.zeroWidth = true
		}
		cf.t = ds.Target(r, ds.S, gen.TargetOpts{Canonical: true})
		cf.schema = ds.S
		n := 1 + r.IntN(maxRecs)
		nb := 1 + r.IntN(6)
		if maxRecs >= 64 {
			// blocks whose record count needs a two-byte varint
			n = 64 + r.IntN(maxRecs)
			nb = 1 + r.IntN(2)
		}
		var recs []any
		for k := 0; k < n; k++ {
			recs = append(recs, ds.GenDatum(r, ds.S, gen.DatumOpts{MaxElems: 3}, nil))
		}
		var blocks [][]any
		rest := recs
		for b := 0; b < nb && len(rest) > 0; b++ {
			k := 1 + r.IntN(len(rest))
			if b == nb-1 {
				k = len(rest)
			}
			blocks = append(blocks, rest[:k])
			rest = rest[k:]
		}
		if len(rest) > 0 {
			blocks = append(blocks, rest)
		}
		if r.IntN(3) == 0 {
			// a block that declares zero records is legal; its payload is still compressed, checksummed and sync-terminated
			at := r.IntN(len(blocks) + 1)
			blocks = append(blocks[:at:at], append([][]any{{}}, blocks[at:]...)...)
		}
		var sync [16]byte
		for k := range sync {
			sync[k] = byte(r.IntN(256))
		}
		f, err := refavro.WriteContainer([]byte(ds.S.JSON()), ds.S, blocks, &gen.RandChooser{R: r, Style: r.IntN(4)}, refavro.WriteOpts{MetaSized: i%5 == 3, Codec: codec, Sync: sync, MetaCodecFirst: r.IntN(2) == 0, MetaBlocks: 1 + r.IntN(2)*r.IntN(3)})
		if err != nil {
			panic(err)
		}
		cf.file = f
		cf.origin = "reference-writer"
	} else {
		if codec == "" {
			codec = "null"
		}
		for {
			cf.t = gen.GenStruct(r, gen.TypeOpts{MaxDepth: 2 + r.IntN(2), MaxFields: 2 + r.IntN(4), NoExcluded: true})
			// make sure records are at least one byte
			cf.t.Fields = append(cf.t.Fields, gen.Fld("Zb", "zb", false, gen.Leaf(gen.KBool)))
			cf.t = &gen.T{K: gen.KStruct, Fields: cf.t.Fields}
			// no zero-width array items (a corrupted count would legally stand for any number of items)
			if es, err := model.ExpectedSchema(cf.t); err == nil && !schemaZeroWidthHazard(es) {
				break
			}
		}
		n := 1 + r.IntN(maxRecs)
		var vals []reflect.Value
		for k := 0; k < n; k++ {
			vals = append(vals, gen.NewValue(r, cf.t, gen.ValOpts{NoInnerNil: true, NoBigStrings: true}))
		}
		plan := lib.FlushPlan{After: map[int]int{}, AtEnd: 1}
		for k := 0; k < n; k++ {
			if r.IntN(3) == 0 {
				plan.After[k] = 1
			}
		}
		var buf bytes.Buffer
		if err := lib.EncodeTwin(&buf, cf.t.RT(), vals, lib.EncodeCfg{Compression: avro.Compression(codec), BlockSize: []int{0, 64, 1 << 20}[r.IntN(3)], Plan: plan}); err != nil {
			c.Violate("harness-encode", err.Error(), nil)
			return nil
		}
		cf.file = buf.Bytes()
		cf.origin = "library-encoder"
		base, err := lib.ReadAll(cf.file, cf.t.RT(), false)
		if err != nil || len(base) != n {
			c.Violate("pristine-read", fmt.Sprintf("pristine file from the library's encoder does not read back: %v (%d of %d)", err, len(base), n), nil)
			return nil
		}
		cf.baseline = base
	}
	cont, err := refavro.ReadContainer(cf.file)
	if err != nil {
		c.Violate("harness", "reference reader rejects the pristine file: "+err.Error(), nil)
		return nil
	}
	cf.cont = cont
	if cf.schema == nil {
		cf.schema = cont.Schema
	}
	cf.desc = fmt.Sprintf("%s codec=%q blocks=%d records=%d bytes=%d", cf.origin, codec, len(cont.Blocks), len(cont.AllRecords()), len(cf.file))
	return cf
}

// expected values for the first n records of the container
func (cf *contFile) expected(cont *refavro.Container) ([]reflect.Value, error) {
	if cf.baseline != nil && cont == cf.cont {
		return cf.baseline, nil
	}
	var out []reflect.Value
	for _, d := range cont.AllRecords() {
		v := reflect.New(cf.t.RT()).Elem()
		if err := model.FillFromDatum(cont.Schema, d, cf.t, v); err != nil {
			return nil, err
		}
		out = append(out, v)
	}
	return out, nil
}

var readCollectTick int

type readOutcome struct {
	vals []reflect.Value
	err  error
	pan  any
}

func readCollect(r avro.Reader, rt reflect.Type, failAt int, sentinel error) (o readOutcome) {
	defer func() { o.pan = recover() }()
	n := 0
	readCollectTick++
	// the target already holds data from earlier use, and the callback overwrites the record once it has its copy
	o.err = avro.ReadFile(r, lib.NewTarget(rt, readCollectTick%2 == 0), func(val unsafe.Pointer, rb *avro.ResourceBank) error {
		v := reflect.New(rt).Elem()
		v.Set(reflect.NewAt(rt, val).Elem())
		o.vals = append(o.vals, v)
		lib.Scribble(rt, val)
		n++
		if failAt >= 0 && n-1 == failAt {
			return sentinel
		}
		return nil
	})
	return
}

func (cf *contFile) rep(mut []byte, what string) map[string]any {
	m := map[string]any{"file": cf.desc, "schema": cf.schema.JSON(), "target": cf.t.String(), "fault": what}
	if len(mut) <= 4096 {
		m["file_hex"] = fmt.Sprintf("%x", mut)
	}
	return m
}

func cmpVals(t *gen.T, want, got []reflect.Value) string {
	if len(want) != len(got) {
		return fmt.Sprintf("%d records delivered, want %d", len(got), len(want))
	}
	for k := range want {
		if d := model.EqualNorm(t, want[k], got[k], false, fmt.Sprintf("rec[%d]", k)); d != "" {
			return d
		}
	}
	return ""
}

// mustFail: the corrupted file must produce an error.
func (cf *contFile) mustFail(c *core.Ctx, mut []byte, what, class string) bool {
	c.JournalInput("ReadFile "+what, mut)
	o := readCollect(bytes.NewReader(mut), cf.t.RT(), -1, nil)
	c.Eval(1)
	c.Count("faults."+class, 1)
	if o.pan != nil {
		c.Violate("panic", fmt.Sprintf("ReadFile panicked on %s: %v [%s]", what, o.pan, cf.desc), cf.rep(mut, what))
		return false
	}
	if o.err == nil {
		c.Violate("damage-accepted", fmt.Sprintf("%s: ReadFile returned no error and delivered %d records [%s]", what, len(o.vals), cf.desc), cf.rep(mut, what))
		return false
	}
	return true
}

func flipBit(b []byte, off int, bit uint) []byte {
	o := append([]byte{}, b...)
	o[off] ^= 1 << bit
	return o
}

// c07schemaTwins: two valid files for one Go type whose header schemas differ (field order) but agree in length
// and CRC-32; read one after the other in one process, each is decoded by its own schema.
func c07schemaTwins(c *core.Ctx, r *rand.Rand) bool {
	type ab struct {
		A int64 `json:"a"`
		B int64 `json:"b"`
	}
	mk := func(first, second, doc string) string {
		return `{"type":"record","name":"twin","doc":"` + doc + `","fields":[{"name":"` + first + `","type":"long"},{"name":"` + second + `","type":"long"}]}`
	}
	sa := mk("a", "b", "0000000000000000")
	target := crc32.ChecksumIEEE([]byte(sa))
	var sb string
	for try := 0; try < 5000 && sb == ""; try++ {
		cand := []byte(mk("b", "a", fmt.Sprintf("%012dXXXX", try)))
		pos := bytes.Index(cand, []byte("XXXX"))
		if !forgeCRC32(cand, pos, target) {
			continue
		}
		okBytes := true
		for _, ch := range cand[pos : pos+4] {
			if ch < 0x20 || ch > 0x7e || ch == '"' || ch == '\\' {
				okBytes = false
			}
		}
		if okBytes {
			sb = string(cand)
		}
	}
	if sb == "" || len(sb) != len(sa) || crc32.ChecksumIEEE([]byte(sb)) != target {
		c.Count("schema-twins-not-constructed", 1)
		return true
	}
	ra, e1 := refavro.ParseSchema([]byte(sa))
	rb, e2 := refavro.ParseSchema([]byte(sb))
	if e1 != nil || e2 != nil {
		c.Violate("harness", fmt.Sprint(e1, e2), nil)
		return false
	}
	codec := []string{"null", "deflate", "snappy"}[r.IntN(3)]
	recA := func(a, b int64) any { return &refavro.Record{Fields: []any{a, b}} }
	fa, e1 := refavro.WriteContainer([]byte(sa), ra, [][]any{{recA(10, 20), recA(30, 40)}}, nil, refavro.WriteOpts{Codec: codec})
	fb, e2 := refavro.WriteContainer([]byte(sb), rb, [][]any{{recA(20, 10), recA(40, 30)}}, nil, refavro.WriteOpts{Codec: codec}) // b first
	if e1 != nil || e2 != nil {
		c.Violate("harness", fmt.Sprint(e1, e2), nil)
		return false
	}
	for round := 0; round < 2; round++ {
		for k, f := range [][]byte{fa, fb, fa} {
			var got []ab
			err := avro.ReadFile(bytes.NewReader(f), ab{}, func(val unsafe.Pointer, rb *avro.ResourceBank) error {
				got = append(got, *(*ab)(val))
				return nil
			})
			c.Eval(1)
			if err != nil || len(got) != 2 || got[0] != (ab{10, 20}) || got[1] != (ab{30, 40}) {
				c.Violate("intact-file", fmt.Sprintf("file %d of a sequence of valid files whose schemas differ in field order but agree in length and CRC-32: err=%v records=%+v, the file holds {10 20} {30 40}", k, err, got), nil)
				return false
			}
		}
	}
	c.Count("schema-twin-sequences", 1)
	return true
}

// c07compressible: valid files whose blocks inflate by three orders of magnitude.
func c07compressible(c *core.Ctx, i int) bool {
	sch, _ := refavro.ParseSchema([]byte(`{"type":"record","name":"z","fields":[{"name":"b","type":"bytes"},{"name":"n","type":"long"}]}`))
	type zrec struct {
		B []byte `json:"b"`
		N int64  `json:"n"`
	}
	for _, codec := range []string{"deflate", "snappy"} {
		for k, mk := range []func() []byte{
			func() []byte { return make([]byte, 4<<20) },
			func() []byte { return bytes.Repeat([]byte("abc"), (8<<20)/3) },
			func() []byte { return bytes.Repeat([]byte{0xff}, 6<<20+17) },
		} {
			data := mk()
			file, err := refavro.WriteContainer([]byte(sch.JSON()), sch, [][]any{{&refavro.Record{Fields: []any{data, int64(k)}}}, {&refavro.Record{Fields: []any{[]byte("tail"), int64(99)}}}}, nil, refavro.WriteOpts{Codec: codec})
			if err != nil {
				c.Violate("harness", err.Error(), nil)
				return false
			}
			var got []zrec
			rerr := avro.ReadFile(bytes.NewReader(file), zrec{}, func(val unsafe.Pointer, rb *avro.ResourceBank) error {
				r := *(*zrec)(val)
				got = append(got, zrec{B: r.B[:len(r.B):len(r.B)], N: r.N})
				return nil
			})
			c.Eval(1)
			c.Count("compressible-big-blocks", 1)
			if rerr != nil || len(got) != 2 || !bytes.Equal(got[0].B, data) || got[0].N != int64(k) || got[1].N != 99 {
				c.Violate("intact-file", fmt.Sprintf("valid %s file (%d bytes) with a block that inflates to %d bytes: err=%v, %d records delivered", codec, len(file), len(data), rerr, len(got)), nil)
				return false
			}
		}
	}
	return true
}

func runC07(c *core.Ctx, i int) {
	cf := genContFile(c, i, i/2, 12)
	if cf == nil {
		return
	}
	rt := cf.t.RT()
	cont := cf.cont
	c.Journal(c.CurCase(), cf.desc)
	// 0. pristine: exactly the declared records, in order
	want, err := cf.expected(cont)
	if err != nil {
		c.Violate("harness", err.Error(), nil)
		return
	}
	o := readCollect(bytes.NewReader(cf.file), rt, -1, nil)
	c.Eval(1)
	if o.pan != nil || o.err != nil {
		c.Violate("intact-file", fmt.Sprintf("intact file not read: err=%v panic=%v [%s]", o.err, o.pan, cf.desc), cf.rep(cf.file, "none"))
		return
	}
	if d := cmpVals(cf.t, want, o.vals); d != "" {
		c.Violate("intact-file", fmt.Sprintf("intact file delivered wrong records: %s [%s]", d, cf.desc), cf.rep(cf.file, "none"))
		return
	}
	// the same intact file through readers that return short reads / one byte at a time
	for shape, rd := range []avro.Reader{bufio.NewReaderSize(&oneByteReader{b: cf.file}, 16), bufio.NewReaderSize(&eofTogetherReader{b: cf.file}, 16), bufio.NewReader(&oneByteReader{b: cf.file}),
		bytes.NewBuffer(append([]byte(nil), cf.file...)), strings.NewReader(string(cf.file))} {
		o := readCollect(rd, rt, -1, nil)
		c.Eval(1)
		if o.pan != nil || o.err != nil || cmpVals(cf.t, want, o.vals) != "" {
			c.Violate("intact-file", fmt.Sprintf("intact file through reader shape %d: err=%v panic=%v %s [%s]", shape+1, o.err, o.pan, cmpVals(cf.t, want, o.vals), cf.desc), cf.rep(cf.file, "none"))
			return
		}
	}
	c.Count("files."+cf.origin, 1)
	c.Count("files.codec."+cont.Codec, 1)
	c.Shape(cf.desc)
	// 0b. a read stopped by its callback, then overlapping reads: the outer read's callback reads the whole file
	// again (a nested ReadFile); each read delivers exactly its own file's records
	if i%4 == 1 && len(want) > 0 {
		sentinel := fmt.Errorf("stop")
		if o := readCollect(bytes.NewReader(cf.file), rt, 0, sentinel); o.err != sentinel || o.pan != nil {
			c.Violate("intact-file", fmt.Sprintf("a read stopped by its callback returned %v (panic %v) instead of the callback's error [%s]", o.err, o.pan, cf.desc), nil)
			return
		}
		var outer []reflect.Value
		nestedBad := ""
		err := avro.ReadFile(bytes.NewReader(cf.file), reflect.New(rt).Elem().Interface(), func(val unsafe.Pointer, rb *avro.ResourceBank) error {
			v := reflect.New(rt).Elem()
			v.Set(reflect.NewAt(rt, val).Elem())
			outer = append(outer, v)
			if len(outer) <= 2 {
				in := readCollect(bytes.NewReader(cf.file), rt, -1, nil)
				if in.err != nil || in.pan != nil || cmpVals(cf.t, want, in.vals) != "" {
					nestedBad = fmt.Sprintf("nested read: err=%v panic=%v %s", in.err, in.pan, cmpVals(cf.t, want, in.vals))
				}
			}
			return nil
		})
		c.Eval(1)
		if err != nil || nestedBad != "" || cmpVals(cf.t, want, outer) != "" {
			c.Violate("intact-file", fmt.Sprintf("overlapping reads of an intact file (after one read was stopped by its callback): outer err=%v %s; %s [%s]", err, cmpVals(cf.t, want, outer), nestedBad, cf.desc), cf.rep(cf.file, "none"))
			return
		}
		c.Count("nested-reads", 1)
	}
	// 0c. very compressible multi-MiB blocks (deflate reaches ratios above 1000:1)
	if i%64 == 9 {
		if !c07compressible(c, i) {
			return
		}
	}
	if i%64 == 17 {
		if !c07schemaTwins(c, c.Rand(i, 41)) {
			return
		}
	}
	// 1. magic
	for off := 0; off < 4; off++ {
		for bit := uint(0); bit < 8; bit++ {
			if !cf.mustFail(c, flipBit(cf.file, off, bit), fmt.Sprintf("magic byte %d bit %d flipped", off, bit), "magic") {
				return
			}
		}
	}
	// 2. every bit of the header sync and of every block sync
	if len(cont.Blocks) > 0 {
		for off := cont.SyncOff; off < cont.SyncOff+16; off++ {
			for bit := uint(0); bit < 8; bit++ {
				if !cf.mustFail(c, flipBit(cf.file, off, bit), fmt.Sprintf("header sync byte %d bit %d flipped", off-cont.SyncOff, bit), "sync-bit") {
					return
				}
			}
		}
	}
	for bi, b := range cont.Blocks {
		for off := b.PayloadEnd; off < b.End; off++ {
			for bit := uint(0); bit < 8; bit++ {
				if !cf.mustFail(c, flipBit(cf.file, off, bit), fmt.Sprintf("block %d sync byte %d bit %d flipped", bi, off-b.PayloadEnd, bit), "sync-bit") {
					return
				}
			}
		}
	}
	// 2b. two damage sites in one marker: the same mask applied to byte j and byte j+8, and the marker
	// replaced by another well-formed 16-byte value
	for bi, b := range cont.Blocks {
		for j := 0; j < 8; j++ {
			for _, m := range []byte{0x01, 0x80, 0xff} {
				mut := append([]byte{}, cf.file...)
				mut[b.PayloadEnd+j] ^= m
				mut[b.PayloadEnd+j+8] ^= m
				if !cf.mustFail(c, mut, fmt.Sprintf("block %d sync bytes %d and %d xor %#x", bi, j, j+8, m), "sync-two-sites") {
					return
				}
			}
		}
		mut := append([]byte{}, cf.file...)
		for j := 0; j < 16; j++ {
			mut[b.PayloadEnd+j] = cf.file[b.PayloadEnd+(j+8)%16]
		}
		if !bytes.Equal(mut, cf.file) && !cf.mustFail(c, mut, fmt.Sprintf("block %d sync halves swapped", bi), "sync-two-sites") {
			return
		}
	}
	if cf.zeroWidth {
		// counts and payloads of zero-width records are not damaged (any count is then a legal number of records)
		c.Count("zero-width-record-files", 1)
		return
	}
	// 3. every bit of every snappy CRC
	if cont.Codec == "snappy" {
		for bi, b := range cont.Blocks {
			for off := b.PayloadEnd - 4; off < b.PayloadEnd; off++ {
				for bit := uint(0); bit < 8; bit++ {
					if !cf.mustFail(c, flipBit(cf.file, off, bit), fmt.Sprintf("block %d snappy CRC byte %d bit %d flipped", bi, off-(b.PayloadEnd-4), bit), "crc-bit") {
						return
					}
				}
			}
		}
	}
	// 4. compressed payload corruption
	allBits := len(cf.file) <= 300 || !c.Quick()
	for bi, b := range cont.Blocks {
		end := b.PayloadEnd
		if cont.Codec == "snappy" {
			end -= 4
		}
		for off := b.PayloadOff; off < end; off++ {
			masks := []byte{0x01, 0x10, 0x80}
			if allBits {
				masks = []byte{1, 2, 4, 8, 16, 32, 64, 128}
			}
			for _, m := range masks {
				mut := append([]byte{}, cf.file...)
				mut[off] ^= m
				what := fmt.Sprintf("block %d payload byte %d xor %#x", bi, off-b.PayloadOff, m)
				raw := mut[b.PayloadOff:b.PayloadEnd]
				_, derr := refavro.Decompress(cont.Codec, raw)
				if derr != nil && cont.Codec != "" && cont.Codec != "null" {
					c.Count("payload.decompressor-rejects", 1)
					if !cf.mustFail(c, mut, what+" (independent decompressor rejects: "+derr.Error()+")", "payload-rejected") {
						return
					}
					continue
				}
				c.Count("payload.decompressor-accepts", 1)
				// damage the decompressor cannot see: if the file is still a valid container, it must be read as such
				mc, merr := refavro.ReadContainer(mut)
				c.JournalInput("ReadFile "+what, mut)
				o := readCollect(bytes.NewReader(mut), rt, -1, nil)
				c.Eval(1)
				if o.pan != nil {
					c.Violate("panic", fmt.Sprintf("ReadFile panicked on %s: %v [%s]", what, o.pan, cf.desc), cf.rep(mut, what))
					return
				}
				if merr == nil && mc.LongForms == 0 {
					mw, err := cf.expected(mc)
					if cf.baseline != nil {
						// library-encoder files: expectations come from datums only when the model covers them
						mw, err = nil, errors.New("no model")
					}
					if err == nil {
						c.Count("payload.still-valid", 1)
						if o.err != nil {
							c.Violate("valid-variant-rejected", fmt.Sprintf("%s yields another valid file, ReadFile fails: %v [%s]", what, o.err, cf.desc), cf.rep(mut, what))
							return
						}
						if d := cmpVals(cf.t, mw, o.vals); d != "" {
							c.Violate("valid-variant-misread", fmt.Sprintf("%s yields another valid file, records differ: %s [%s]", what, d, cf.desc), cf.rep(mut, what))
							return
						}
					}
				}
			}
		}
	}
	// 4b. a block that declares one record more than its payload holds
	for bi, b := range cont.Blocks {
		d := &refavro.Decoder{B: cf.file, I: b.Start, Rec: true}
		d.Decode(&refavro.Schema{Type: "long"})
		if len(d.Sites) == 1 {
			mut := mutateSite(cf.file, d.Sites[0], refavro.AppendLong(nil, b.Count+1))
			if !cf.mustFail(c, mut, fmt.Sprintf("block %d declares %d records but holds %d", bi, b.Count+1, b.Count), "over-declared-count") {
				return
			}
		}
	}
	// 5. header variants
	schemaJSON := string(cont.SchemaJSON)
	var counts []int64
	var payloads [][]byte
	for _, b := range cont.Blocks {
		counts = append(counts, b.Count)
		payloads = append(payloads, b.Payload)
	}
	noCodec := rebuildFile(schemaJSON, "", counts, payloads)
	o = readCollect(bytes.NewReader(noCodec), rt, -1, nil)
	c.Eval(1)
	c.Count("faults.header-no-codec", 1)
	if o.pan != nil || o.err != nil || cmpVals(cf.t, want, o.vals) != "" {
		c.Violate("no-codec-means-null", fmt.Sprintf("header without avro.codec: err=%v panic=%v %s [%s]", o.err, o.pan, cmpVals(cf.t, want, o.vals), cf.desc), cf.rep(noCodec, "avro.codec removed, payload uncompressed"))
		return
	}
	if !cf.mustFail(c, rebuildFile(schemaJSON, "lzma", counts, payloads), "unknown codec name lzma", "header-unknown-codec") {
		return
	}
	// schema entry removed: rename the key
	noSchema := bytes.Replace(cf.file, []byte("avro.schema"), []byte("avro.schemX"), 1)
	if !cf.mustFail(c, noSchema, "avro.schema entry missing", "header-no-schema") {
		return
	}
	// 6. callback failure at every record index
	for k := range want {
		var sentinel error
		switch (i + k) % 5 {
		case 0, 1:
			sentinel = fmt.Errorf("sentinel-%d-%d", i, k)
		case 2:
			sentinel = io.EOF // any error value, including the ones the reader itself gives a meaning to
		case 3:
			sentinel = fmt.Errorf("callback gave up: %w", io.EOF)
		default:
			sentinel = io.ErrUnexpectedEOF
		}
		c.Count(fmt.Sprintf("faults.callback-kind%d", (i+k)%5), 1)
		o := readCollect(bytes.NewReader(cf.file), rt, k, sentinel)
		c.Eval(1)
		c.Count("faults.callback", 1)
		if o.pan != nil {
			c.Violate("panic", fmt.Sprintf("panic with failing callback: %v", o.pan), cf.rep(cf.file, "callback"))
			return
		}
		if o.err != sentinel {
			c.Violate("callback-error", fmt.Sprintf("callback failed at record %d with %v, ReadFile returned %v (must be the same error value) [%s]", k, sentinel, o.err, cf.desc), cf.rep(cf.file, fmt.Sprintf("callback fails at %d", k)))
			return
		}
		if len(o.vals) != k+1 {
			c.Violate("callback-error", fmt.Sprintf("callback failed at record %d but %d callbacks were made [%s]", k, len(o.vals), cf.desc), cf.rep(cf.file, fmt.Sprintf("callback fails at %d", k)))
			return
		}
	}
	c.Sample(map[string]any{"file": cf.desc, "schema": trunc(cf.schema.JSON(), 200)})
}

// --- C08 ---

type oneByteReader struct {
	b []byte
	i int
}

func (r *oneByteReader) Read(p []byte) (int, error) {
	if r.i >= len(r.b) {
		return 0, io.EOF
	}
	if len(p) == 0 {
		return 0, nil
	}
	p[0] = r.b[r.i]
	r.i++
	return 1, nil
}

type eofTogetherReader struct {
	b []byte
	i int
}

func (r *eofTogetherReader) Read(p []byte) (int, error) {
	if r.i >= len(r.b) {
		return 0, io.EOF
	}
	n := copy(p, r.b[r.i:])
	r.i += n
	if r.i >= len(r.b) {
		return n, io.EOF
	}
	return n, nil
}

// c08big: a file whose middle block has a payload of 70-400 KiB; only the interesting cut positions are
// enumerated (every structural boundary +-3, every multiple of 4 KiB inside the big payload +-1, random ones)
func c08big(c *core.Ctx, i int) {
	r := c.Rand(i, 3)
	sch, _ := refavro.ParseSchema([]byte(`{"type":"record","name":"big","fields":[{"name":"b","type":"bytes"},{"name":"n","type":"long"}]}`))
	t := gen.StructOf(gen.Fld("B", "b", false, gen.Leaf(gen.KBytes)), gen.Fld("N", "n", false, gen.Leaf(gen.KInt64)))
	mk := func(n int) any {
		b := make([]byte, n)
		for k := range b {
			b[k] = byte(r.Uint32())
		}
		return &refavro.Record{Fields: []any{b, int64(n)}}
	}
	bigN := 70000 + r.IntN(330000)
	if i%64 == 31 {
		bigN = 4<<20 + 4096 + r.IntN(1<<20) // a stored block of more than 4 MiB (incompressible)
		c.Count("multi-MiB-block-files", 1)
	}
	blocks := [][]any{{mk(100), mk(3000)}, {mk(bigN / 2), mk(bigN / 2)}, {mk(500)}}
	if r.IntN(2) == 0 {
		blocks = [][]any{{mk(bigN)}, {mk(100)}}
	}
	codec := []string{"null", "deflate", "snappy"}[r.IntN(3)]
	if i%64 == 31 {
		codec = []string{"deflate", "snappy", "null"}[(i/64)%3]
	}
	file, err := refavro.WriteContainer([]byte(sch.JSON()), sch, blocks, nil, refavro.WriteOpts{Codec: codec})
	if err != nil {
		c.Violate("harness", err.Error(), nil)
		return
	}
	cont, err := refavro.ReadContainer(file)
	if err != nil {
		c.Violate("harness", err.Error(), nil)
		return
	}
	cf := &contFile{file: file, cont: cont, t: t, schema: sch, origin: "reference-writer", desc: fmt.Sprintf("reference-writer big blocks codec=%q blocks=%d bytes=%d", codec, len(cont.Blocks), len(file))}
	want, err := cf.expected(cont)
	if err != nil {
		c.Violate("harness", err.Error(), nil)
		return
	}
	cuts := map[int]bool{0: true, len(file): true}
	add := func(p int) {
		for d := -3; d <= 3; d++ {
			if p+d >= 0 && p+d <= len(file) {
				cuts[p+d] = true
			}
		}
	}
	add(cont.HeaderEnd)
	for _, b := range cont.Blocks {
		add(b.Start)
		add(b.PayloadOff)
		add(b.PayloadEnd)
		add(b.End)
		add(b.PayloadEnd + 8) // inside the marker
		step := 4096
		if b.PayloadEnd-b.PayloadOff > 1<<20 {
			step = 1 << 18
		}
		for p := b.PayloadOff + step; p < b.PayloadEnd; p += step {
			cuts[p-1], cuts[p], cuts[p+1] = true, true, true
		}
	}
	for k := 0; k < 40; k++ {
		cuts[r.IntN(len(file)+1)] = true
	}
	rt := t.RT()
	for cut := range cuts {
		nrec := 0
		okEnd := cut == cont.HeaderEnd
		for _, b := range cont.Blocks {
			if b.PayloadEnd <= cut {
				nrec += int(b.Count)
			}
			if b.End == cut {
				okEnd = true
			}
		}
		prefix := file[:cut]
		for shape := 0; shape < 4; shape++ {
			var rd avro.Reader = bytes.NewReader(prefix)
			name := "bytes.Reader"
			switch shape {
			case 1:
				rd, name = bufio.NewReaderSize(&eofTogetherReader{b: prefix}, 4096), "bufio over a reader returning data and EOF together"
			case 2:
				rd, name = bytes.NewBuffer(append([]byte(nil), prefix...)), "bytes.Buffer"
			case 3:
				rd, name = strings.NewReader(string(prefix)), "strings.Reader"
			}
			o := readCollect(rd, rt, -1, nil)
			c.Eval(1)
			what := fmt.Sprintf("cut at %d of %d (reader: %s)", cut, len(file), name)
			switch {
			case o.pan != nil:
				c.Violate("panic", fmt.Sprintf("%s: panic %v [%s]", what, o.pan, cf.desc), nil)
			case len(o.vals) != nrec || cmpVals(t, want[:nrec], o.vals) != "":
				c.Violate("prefix-records", fmt.Sprintf("%s: %d records delivered, the blocks whose payload is complete hold %d [%s]", what, len(o.vals), nrec, cf.desc), nil)
			case okEnd && o.err != nil:
				c.Violate("boundary-error", fmt.Sprintf("%s ends exactly at the header/a block end but ReadFile reports %v [%s]", what, o.err, cf.desc), nil)
			case !okEnd && o.err == nil:
				c.Violate("truncation-accepted", fmt.Sprintf("%s is inside the header or a block, yet ReadFile reports success [%s]", what, cf.desc), nil)
			default:
				continue
			}
			return
		}
	}
	c.Count("big-block-files", 1)
	c.Count("big-block-cuts", int64(len(cuts)))
	c.Shape(cf.desc)
}

func runC08(c *core.Ctx, i int) {
	if i%16 == 15 {
		c08big(c, i)
		return
	}
	maxRecs := 10
	if i%8 == 6 {
		maxRecs = 100 // 64..163 records: two-byte count varints
	}
	cf := genContFile(c, i, i/2, maxRecs)
	if cf == nil {
		return
	}
	if cf.cont != nil {
		for _, b := range cf.cont.Blocks {
			if b.Count >= 64 {
				c.Count("blocks-with-two-byte-count", 1)
			}
			if b.PayloadEnd-b.PayloadOff >= 8192 {
				c.Count("blocks-with-three-byte-size", 1)
			}
		}
	}
	// a variant with zero blocks now and then
	if i%11 == 10 {
		cf.file = cf.file[:cf.cont.HeaderEnd]
		cf.cont.Blocks = nil
		cf.baseline = nil
		if cf.origin == "library-encoder" {
			cf.baseline = []reflect.Value{}
		}
	}
	rt := cf.t.RT()
	cont := cf.cont
	c.Journal(c.CurCase(), cf.desc)
	want, err := cf.expected(cont)
	if err != nil {
		c.Violate("harness", err.Error(), nil)
		return
	}
	// number of records deliverable at each cut
	classes := map[string]bool{}
	// every cut of files up to 16 KiB; of longer files (a record with a very large string) every cut within 48
	// bytes of a structural boundary and every 61st in between (the cost of all cuts grows with the square)
	sampled := len(cf.file) > 16<<10
	near := func(cut int) bool {
		if !sampled || cut%61 == 0 || cut >= len(cf.file)-48 {
			return true
		}
		d := func(x int) bool { return cut >= x-48 && cut <= x+48 }
		if d(cont.HeaderEnd) {
			return true
		}
		for _, b := range cont.Blocks {
			if d(b.Start) || d(b.PayloadOff) || d(b.PayloadEnd) || d(b.End) {
				return true
			}
		}
		return false
	}
	if sampled {
		c.Count("files-with-sampled-cuts", 1)
	}
	// within the count/length varints of a block header and the first and last bytes of the marker
	atBoundary := func(cut int) bool {
		for _, b := range cont.Blocks {
			if (cut >= b.Start && cut <= b.PayloadOff+1) || (cut >= b.PayloadEnd-1 && cut <= b.End) {
				return true
			}
		}
		return cut >= cont.HeaderEnd-17 && cut <= cont.HeaderEnd
	}
	for cut := 0; cut <= len(cf.file); cut++ {
		if !near(cut) {
			continue
		}
		nrec := 0
		okEnd := cut == cont.HeaderEnd
		for _, b := range cont.Blocks {
			if b.PayloadEnd <= cut {
				nrec += int(b.Count)
			}
			if b.End == cut {
				okEnd = true
			}
		}
		prefix := cf.file[:cut]
		for shape := 0; shape < 5; shape++ {
			if (maxRecs >= 64 || sampled) && shape > 0 && shape != 1+cut%4 && !atBoundary(cut) {
				continue // long files: bytes.Reader at every cut, the other four shapes in rotation (all five around block headers)
			}
			var rd avro.Reader
			switch shape {
			case 0:
				rd = bytes.NewReader(prefix)
			case 1:
				rd = bufio.NewReaderSize(&oneByteReader{b: prefix}, 16)
			case 2:
				rd = bufio.NewReaderSize(&eofTogetherReader{b: prefix}, 16)
			case 3:
				rd = bytes.NewBuffer(append([]byte(nil), prefix...)) // shape 3: *bytes.Buffer
			case 4:
				rd = strings.NewReader(string(prefix)) // shape 4: *strings.Reader
			}
			o := readCollect(rd, rt, -1, nil)
			c.Eval(1)
			what := fmt.Sprintf("cut at %d of %d (reader shape %d)", cut, len(cf.file), shape)
			if o.pan != nil {
				c.Violate("panic", fmt.Sprintf("%s: panic %v [%s]", what, o.pan, cf.desc), cf.rep(prefix, what))
				return
			}
			if len(o.vals) != nrec {
				c.Violate("prefix-records", fmt.Sprintf("%s: %d records delivered, the blocks whose payload is complete hold %d [%s]", what, len(o.vals), nrec, cf.desc), cf.rep(prefix, what))
				return
			}
			if d := cmpVals(cf.t, want[:nrec], o.vals); d != "" {
				c.Violate("prefix-records", fmt.Sprintf("%s: delivered records differ: %s [%s]", what, d, cf.desc), cf.rep(prefix, what))
				return
			}
			if okEnd && o.err != nil {
				c.Violate("boundary-error", fmt.Sprintf("%s ends exactly at the header/a block end but ReadFile reports %v [%s]", what, o.err, cf.desc), cf.rep(prefix, what))
				return
			}
			if !okEnd && o.err == nil {
				c.Violate("truncation-accepted", fmt.Sprintf("%s is inside the header or a block, yet ReadFile reports success [%s]", what, cf.desc), cf.rep(prefix, what))
				return
			}
			classes[fmt.Sprintf("%d/%v", nrec, o.err == nil)] = true
		}
		c.Count("cuts", 1)
	}
	c.Count("files", 1)
	c.Count("files.codec."+cont.Codec, 1)
	c.Count("files."+cf.origin, 1)
	c.Max("max.classes-per-file", int64(len(classes)))
	if len(cont.Blocks) > 1 {
		c.Count("multiblock-files", 1)
	}
	c.Shape(cf.desc)
	c.Sample(map[string]any{"file": cf.desc, "cuts": len(cf.file) + 1, "outcome_classes": len(classes)})
}

func init() {
	core.Register(&core.Prop{
		ID:        "C07",
		Level:     "fault_enumeration",
		Technique: "runtime monitoring with exhaustive fault enumeration: every bit of the magic, of every sync marker and of every snappy checksum, every byte (every bit for small files / thorough tier) of every compressed payload, each header variant and a callback failure at every record index, judged by an independent container parser and independent decompressors",
		Rule: "per file (half from the reference writer over generated schemas, half from the library's own encoder; null/deflate/snappy/absent codec; 1..7 blocks): all fault sites enumerated; one file in sixteen holds zero-width records (intact-file and marker clauses only); " +
			"distinct_nontrivial = distinct files whose complete fault set was enumerated",
		Explanation: "Oracle per corrupted file: magic/sync/CRC bit flipped => error required. Payload flipped => if compress/flate resp. snappy.Decode rejects it or the CRC no longer matches => error required; otherwise, if the file is still a valid container by the strict reference parser (every varint in shortest form, as a conformant writer produces), the records delivered must equal its decoding. Header without avro.codec => same records as null. Unknown codec / missing schema => error. Callback error at record i => exactly i+1 callbacks and the identical error value.",
		Assumptions: []string{"payload damage that both decompressor and checksum accept and that the strict reference parser rejects (e.g. leftover bytes) carries no demand: the statement lists sync, checksum, decompressor, magic, schema, codec"},
		Modes:       func(tier string) []core.Mode { return []core.Mode{{Name: "plain", Variant: "plain"}} },
		NumCases:    func(c *core.Ctx) int { return c.Pick(128, 1600) },
		Run:         runC07,
		Floors: func(a *core.Agg) []string {
			var u []string
			for _, k := range []string{"faults.sync-bit", "faults.crc-bit", "faults.magic", "payload.decompressor-rejects", "faults.callback", "faults.header-no-codec", "faults.header-unknown-codec", "faults.header-no-schema"} {
				min := int64(30)
				if k == "payload.decompressor-rejects" || k == "faults.sync-bit" {
					min = 1000
				}
				if a.C(k) < min {
					u = append(u, fmt.Sprintf("%s=%d < %d", k, a.C(k), min))
				}
			}
			if a.C("payload.decompressor-accepts") < 100 {
				u = append(u, "too few payload flips accepted by the decompressor")
			}
			return u
		},
	})
	core.Register(&core.Prop{
		ID:        "C08",
		Level:     "fault_enumeration",
		Technique: "runtime monitoring with exhaustive crash-point enumeration: every prefix 0..len of every generated file (files over 16 KiB: every cut within 48 bytes of a structural boundary and every 61st in between) is read through five reader shapes (bytes.Reader, bufio over a one-byte reader, bufio over a reader that returns data and EOF together, bytes.Buffer, strings.Reader); delivered records and success/error are judged against block boundaries computed by the independent container parser",
		Rule: "per file (reference writer and library encoder; all codecs; 0..7 blocks; 1- and 2-byte count varints; multi-byte length varints): every cut position x {bytes.Reader, bufio over a one-byte-at-a-time reader, reader returning data together with io.EOF}; one reference-written file in sixteen holds zero-width records (blocks that declare N records and have no payload bytes); " +
			"distinct_nontrivial = distinct files whose every cut was enumerated",
		Explanation: "Expected at cut c: exactly the records of the blocks whose payload ends at or before c, unmodified and in order; nil error iff c is the end of the header or of a block.",
		Modes:       func(tier string) []core.Mode { return []core.Mode{{Name: "plain", Variant: "plain"}} },
		NumCases:    func(c *core.Ctx) int { return c.Pick(160, 3200) },
		Run:         runC08,
		Floors: func(a *core.Agg) []string {
			var u []string
			if a.C("cuts") < 5000 {
				u = append(u, fmt.Sprintf("cuts=%d < 5000", a.C("cuts")))
			}
			if a.C("max.classes-per-file") < 8 {
				u = append(u, fmt.Sprintf("max outcome classes per file %d < 8", a.C("max.classes-per-file")))
			}
			if a.C("big-block-files") < 4 {
				u = append(u, fmt.Sprintf("big-block-files=%d < 4", a.C("big-block-files")))
			}
			for _, k := range []string{"files.codec.null", "files.codec.deflate", "files.codec.snappy", "files.reference-writer", "files.library-encoder", "multiblock-files", "blocks-with-two-byte-count"} {
				if a.C(k) < 4 {
					u = append(u, fmt.Sprintf("%s=%d < 4", k, a.C(k)))
				}
			}
			return u
		},
	})
}
