package props

import (
	"bytes"
	"fmt"
	"math/rand/v2"
	"reflect"
	"sync"
	"unsafe"

	"github.com/philpearl/avro"

	"verifharness/core"
	"verifharness/refavro"
)

// C20, codec-only registrations. A named primitive or named byte-slice type whose default schema (string, long,
// bytes) suits it needs no registered schema: Register alone must make the custom codec govern the type in
// every position - plain field, omitempty field (a non-pointer nullable union), pointer, slice item, map value,
// pointer with omitempty. The codecs transform the value on the wire (reversed text behind '~', xor 0x5A, byte
// complement), so the reference decoder sees in each position whether the custom codec or a built-in one wrote
// it, and reading back inverts it.

type COStr string
type COInt int64
type COBytes []byte

type coHolder struct {
	S   COStr              `json:"s"`
	SO  COStr              `json:"so,omitempty"`
	SP  *COStr             `json:"sp"`
	SPO *COStr             `json:"spo,omitempty"`
	SL  []COStr            `json:"sl"`
	SM  map[string]COStr   `json:"sm"`
	I   COInt              `json:"i"`
	IO  COInt              `json:"io,omitempty"`
	IP  *COInt             `json:"ip"`
	IL  []COInt            `json:"il"`
	IM  map[string]COInt   `json:"im"`
	B   COBytes            `json:"b"`
	BO  COBytes            `json:"bo,omitempty"`
	BL  []COBytes          `json:"bl"`
	BM  map[string]COBytes `json:"bm"`
	N   int64              `json:"n"`
	T   string             `json:"t,omitempty"`
}

type coStrCodec struct{}

func (coStrCodec) Read(r *avro.ReadBuf, p unsafe.Pointer) error {
	s, err := readStr(r)
	if err != nil {
		return err
	}
	if len(s) == 0 || s[0] != '~' {
		return fmt.Errorf("COStr: wire text %q was not written by the custom codec", s)
	}
	*(*COStr)(p) = COStr(c20rev(s[1:]))
	return nil
}
func (coStrCodec) Skip(r *avro.ReadBuf) error         { _, err := readStr(r); return err }
func (coStrCodec) New(r *avro.ReadBuf) unsafe.Pointer { return r.Alloc(reflect.TypeOf(COStr(""))) }
func (coStrCodec) Omit(p unsafe.Pointer) bool         { return *(*COStr)(p) == "" }
func (coStrCodec) Write(w *avro.WriteBuf, p unsafe.Pointer) {
	writeStr(w, "~"+c20rev(string(*(*COStr)(p))))
}

type coIntCodec struct{}

func (coIntCodec) Read(r *avro.ReadBuf, p unsafe.Pointer) error {
	v, err := readLong(r)
	*(*COInt)(p) = COInt(v ^ 0x5A)
	return err
}
func (coIntCodec) Skip(r *avro.ReadBuf) error         { _, err := readLong(r); return err }
func (coIntCodec) New(r *avro.ReadBuf) unsafe.Pointer { return r.Alloc(reflect.TypeOf(COInt(0))) }
func (coIntCodec) Omit(p unsafe.Pointer) bool         { return *(*COInt)(p) == 0 }
func (coIntCodec) Write(w *avro.WriteBuf, p unsafe.Pointer) {
	w.Varint(int64(*(*COInt)(p)) ^ 0x5A)
}

type coBytesCodec struct{}

func coFlip(b []byte) []byte {
	out := make([]byte, len(b)+1)
	out[0] = 0xC0
	for i, x := range b {
		out[i+1] = ^x
	}
	return out
}
func (coBytesCodec) Read(r *avro.ReadBuf, p unsafe.Pointer) error {
	l, err := readLong(r)
	if err != nil {
		return err
	}
	b, err := r.Next(int(l))
	if err != nil {
		return err
	}
	if len(b) == 0 || b[0] != 0xC0 {
		return fmt.Errorf("COBytes: wire bytes %x were not written by the custom codec", b)
	}
	out := make([]byte, len(b)-1)
	for i := range out {
		out[i] = ^b[i+1]
	}
	*(*COBytes)(p) = out
	return nil
}
func (coBytesCodec) Skip(r *avro.ReadBuf) error {
	l, err := readLong(r)
	if err == nil {
		_, err = r.Next(int(l))
	}
	return err
}
func (coBytesCodec) New(r *avro.ReadBuf) unsafe.Pointer { return r.Alloc(reflect.TypeOf(COBytes(nil))) }
func (coBytesCodec) Omit(p unsafe.Pointer) bool         { return len(*(*COBytes)(p)) == 0 }
func (coBytesCodec) Write(w *avro.WriteBuf, p unsafe.Pointer) {
	b := coFlip(*(*COBytes)(p))
	w.Varint(int64(len(b)))
	w.Write(b)
}

var coOnce sync.Once
var coBuilds [3]int

func c20codecOnly(c *core.Ctx, r *rand.Rand) {
	coOnce.Do(func() {
		avro.Register(reflect.TypeOf(COStr("")), func(s avro.Schema, typ reflect.Type, omit bool) (avro.Codec, error) {
			if s.Type != "string" {
				return nil, fmt.Errorf("COStr under %q", s.Type)
			}
			coBuilds[0]++
			return coStrCodec{}, nil
		})
		avro.Register(reflect.TypeOf(COInt(0)), func(s avro.Schema, typ reflect.Type, omit bool) (avro.Codec, error) {
			if s.Type != "long" {
				return nil, fmt.Errorf("COInt under %q", s.Type)
			}
			coBuilds[1]++
			return coIntCodec{}, nil
		})
		avro.Register(reflect.TypeOf(COBytes(nil)), func(s avro.Schema, typ reflect.Type, omit bool) (avro.Codec, error) {
			if s.Type != "bytes" {
				return nil, fmt.Errorf("COBytes under %q", s.Type)
			}
			coBuilds[2]++
			return coBytesCodec{}, nil
		})
	})
	str := func() COStr { return COStr(fmt.Sprintf("v%d", r.IntN(1000))) }
	num := func() COInt { return COInt(1 + r.IntN(1<<30)) }
	byt := func() COBytes { return COBytes(fmt.Sprintf("b%d", r.IntN(1000))) }
	var hs []coHolder
	for k := 0; k < 2+r.IntN(4); k++ {
		h := coHolder{S: str(), I: num(), B: byt(), N: int64(k), T: "plain text"}
		if r.IntN(3) != 0 {
			h.SO, h.IO, h.BO = str(), num(), byt()
		}
		if r.IntN(3) != 0 {
			s, s2, n := str(), str(), num()
			h.SP, h.SPO, h.IP = &s, &s2, &n
		}
		for j := 0; j < r.IntN(4); j++ {
			h.SL, h.IL, h.BL = append(h.SL, str()), append(h.IL, num()), append(h.BL, byt())
		}
		if r.IntN(2) == 0 {
			h.SM, h.IM, h.BM = map[string]COStr{"k": str()}, map[string]COInt{"k": num()}, map[string]COBytes{"k": byt()}
		}
		hs = append(hs, h)
	}
	c.Eval(1)
	var buf bytes.Buffer
	enc, err := avro.NewEncoderFor[coHolder](&buf, compressions[r.IntN(3)], []int{0, 100, 1 << 20}[r.IntN(3)])
	if err != nil {
		c.Violate("encoder", "NewEncoderFor with fields of types that have a registered codec and no registered schema: "+err.Error(), nil)
		return
	}
	for k := range hs {
		if err := enc.Encode(&hs[k]); err != nil {
			c.Violate("encoder", "Encode: "+err.Error(), nil)
			return
		}
	}
	if err := enc.Flush(); err != nil {
		c.Violate("encoder", "Flush: "+err.Error(), nil)
		return
	}
	if coBuilds[0] == 0 || coBuilds[1] == 0 || coBuilds[2] == 0 {
		c.Violate("not-governed", fmt.Sprintf("builders registered without a schema were not all consulted (builds %v)", coBuilds), nil)
		return
	}
	cont, err := refavro.ReadContainer(buf.Bytes())
	if err != nil {
		c.Violate("invalid-file", "codec-only registrations: not a valid container: "+err.Error(), nil)
		return
	}
	// schema: the default mapping of the underlying kinds
	want, _ := refavro.ParseSchema([]byte(`{"type":"record","name":"coHolder","fields":[{"name":"s","type":"string"},{"name":"so","type":["null","string"]},{"name":"sp","type":["null","string"]},{"name":"spo","type":["null","string"]},
{"name":"sl","type":{"type":"array","items":"string"}},{"name":"sm","type":{"type":"map","values":"string"}},{"name":"i","type":"long"},{"name":"io","type":["null","long"]},{"name":"ip","type":["null","long"]},
{"name":"il","type":{"type":"array","items":"long"}},{"name":"im","type":{"type":"map","values":"long"}},{"name":"b","type":"bytes"},{"name":"bo","type":["null","bytes"]},{"name":"bl","type":{"type":"array","items":"bytes"}},
{"name":"bm","type":{"type":"map","values":"bytes"}},{"name":"n","type":"long"},{"name":"t","type":["null","string"]}]}`))
	if d := refavro.Diff(stripAll(cont.Schema), stripAll(want), "schema"); d != "" {
		c.Violate("schema-position", "codec-only registrations: the schema is not the default mapping of the underlying kinds: "+d, nil)
		return
	}
	// wire: the custom form in every position
	S := func(v COStr) any { return "~" + c20rev(string(v)) }
	I := func(v COInt) any { return int64(v) ^ 0x5A }
	B := func(v COBytes) any { return coFlip(v) }
	opt := func(present bool, v any) any {
		if !present {
			return &refavro.Union{Branch: 0, Val: nil}
		}
		return &refavro.Union{Branch: 1, Val: v}
	}
	recs := cont.AllRecords()
	if len(recs) != len(hs) {
		c.Violate("count", fmt.Sprintf("codec-only registrations: %d records written, %d in the file", len(hs), len(recs)), nil)
		return
	}
	for k, h := range hs {
		var sl, il, bl []any
		for j := range h.SL {
			sl, il, bl = append(sl, S(h.SL[j])), append(il, I(h.IL[j])), append(bl, B(h.BL[j]))
		}
		sm, im, bm := &refavro.Map{}, &refavro.Map{}, &refavro.Map{}
		if h.SM != nil {
			sm.Entries = []refavro.MapEntry{{Key: "k", Val: S(h.SM["k"])}}
			im.Entries = []refavro.MapEntry{{Key: "k", Val: I(h.IM["k"])}}
			bm.Entries = []refavro.MapEntry{{Key: "k", Val: B(h.BM["k"])}}
		}
		var sp, spo, ip any = opt(false, nil), opt(false, nil), opt(false, nil)
		if h.SP != nil {
			sp, spo, ip = opt(true, S(*h.SP)), opt(true, S(*h.SPO)), opt(true, I(*h.IP))
		}
		exp := &refavro.Record{Fields: []any{S(h.S), opt(h.SO != "", S(h.SO)), sp, spo, sl, sm, I(h.I), opt(h.IO != 0, I(h.IO)), ip, il, im, B(h.B), opt(len(h.BO) > 0, B(h.BO)), bl, bm, h.N, opt(true, "plain text")}}
		if got, wantR := refavro.Render(recs[k]), refavro.Render(exp); got != wantR {
			c.Violate("encoding-position", fmt.Sprintf("codec-only registrations, record %d: a position was not written by the registered codec (custom forms: text reversed behind '~', long xor 0x5A, bytes complemented behind 0xC0)\n wire     %s\n expected %s", k, trunc(got, 700), trunc(wantR, 700)), nil)
			return
		}
	}
	// and back
	var back []coHolder
	rerr := avro.ReadFile(bytes.NewReader(buf.Bytes()), coHolder{}, func(val unsafe.Pointer, rb *avro.ResourceBank) error {
		back = append(back, *(*coHolder)(val))
		return nil
	})
	if rerr != nil || len(back) != len(hs) {
		c.Violate("read", fmt.Sprintf("codec-only registrations: reading back: err=%v, %d of %d", rerr, len(back), len(hs)), nil)
		return
	}
	for k := range hs {
		if d := c20equal(reflect.ValueOf(hs[k]), reflect.ValueOf(back[k]), fmt.Sprintf("rec[%d]", k)); d != "" {
			c.Violate("roundtrip", "codec-only registrations: "+d, nil)
			return
		}
	}
	c.Count("codec-only-registration-files", 1)
}
