package props

import (
	"encoding/hex"
	"fmt"
	"math/rand/v2"
	"reflect"
	"unsafe"

	"github.com/philpearl/avro"

	"verifharness/core"
	"verifharness/gen"
	"verifharness/lib"
	"verifharness/model"
	"verifharness/refavro"
)

// C03 — reader decodes every spec-legal encoding of a datum to that datum.
// C04 — projection: fields the target struct lacks are skipped without side effects.

type readCase struct {
	ds      *gen.DataSchema
	datums  []any
	misfit  bool
	file    []byte
	codec   string
	style   int
	nblocks int
	ch      *gen.RandChooser
	desc    string
}

var fileCodecs = []string{"", "null", "deflate", "snappy"}

func genReadCase(c *core.Ctx, i int, outOfRange int) *readCase {
	r := c.Rand(i, 0)
	rc := &readCase{}
	rc.ds = gen.GenDataSchema(r, gen.DataOpts{MaxDepth: 1 + r.IntN(4)})
	n := 1 + r.IntN(8)
	if r.IntN(5) == 0 {
		n = 10 + r.IntN(21)
	}
	for k := 0; k < n; k++ {
		rc.datums = append(rc.datums, rc.ds.GenDatum(r, rc.ds.S, gen.DatumOpts{OutOfRange: outOfRange}, &rc.misfit))
	}
	big := i%251 == 250
	if big {
		// file blocks beyond 64 KiB and 128 KiB (the steps in which a reader may grow its block buffer)
		sz := 0
		for _, d := range rc.datums {
			b, _ := refavro.Encode(nil, rc.ds.S, d, nil)
			sz += len(b)
		}
		if sz > 0 {
			base, baseSz := rc.datums, sz
			for sz < 400<<10 && len(rc.datums) < 40000 {
				rc.datums = append(rc.datums, base...)
				sz += baseSz
			}
		}
	}
	rc.style = r.IntN(4)
	rc.ch = &gen.RandChooser{R: r, Style: rc.style}
	rc.codec = fileCodecs[r.IntN(4)]
	// partition of records into file blocks
	var blocks [][]any
	rest := rc.datums
	if big && len(rest) > 8 {
		// growing blocks: roughly 1/7, 2/7, 4/7 of the records
		a, b := len(rest)/7, 3*len(rest)/7
		blocks = append(blocks, rest[:a], rest[a:b], rest[b:])
		rest = nil
		c.Count("files-with-large-blocks", 1)
	}
	for len(rest) > 0 {
		k := 1 + r.IntN(len(rest))
		switch r.IntN(3) {
		case 0:
			k = 1
		case 1:
			k = len(rest)
		}
		blocks = append(blocks, rest[:k])
		rest = rest[k:]
	}
	if r.IntN(6) == 0 {
		// an empty block is a legal part of a partition
		at := r.IntN(len(blocks) + 1)
		blocks = append(blocks[:at:at], append([][]any{{}}, blocks[at:]...)...)
	}
	rc.nblocks = len(blocks)
	var sync [16]byte
	for k := range sync {
		sync[k] = byte(r.IntN(256))
	}
	var err error
	rc.file, err = refavro.WriteContainer([]byte(rc.ds.S.JSON()), rc.ds.S, blocks, rc.ch, refavro.WriteOpts{MetaSized: i%5 == 3, Codec: rc.codec, Sync: sync, MetaCodecFirst: r.IntN(2) == 0, MetaBlocks: 1 + r.IntN(3)*r.IntN(2)})
	if err != nil {
		panic("harness: reference writer failed: " + err.Error())
	}
	rc.desc = fmt.Sprintf("codec=%q blocks=%d collstyle=%d n=%d", rc.codec, rc.nblocks, rc.style, n)
	return rc
}

func (rc *readCase) replay(t *gen.T) map[string]any {
	m := map[string]any{"schema": rc.ds.S.JSON(), "config": rc.desc}
	if t != nil {
		m["target"] = t.String()
	}
	if len(rc.file) <= 6000 {
		m["file_hex"] = hex.EncodeToString(rc.file)
	}
	if len(rc.datums) > 0 {
		m["first_datum"] = trunc(refavro.Render(rc.datums[0]), 600)
	}
	return m
}

// readInto reads the file into target t and checks it against the model.
// Returns false when a violation was recorded.
func readInto(c *core.Ctx, rc *readCase, t *gen.T, r *rand.Rand, what string) bool {
	rt := t.RT()
	// expectations
	want := make([]reflect.Value, 0, len(rc.datums))
	firstMisfit := -1
	inexact := map[int]bool{}
	for k, d := range rc.datums {
		v := reflect.New(rt).Elem()
		err := model.FillFromDatum(rc.ds.S, d, t, v)
		switch err {
		case nil:
		case model.ErrNoFit:
			if firstMisfit < 0 {
				firstMisfit = k
			}
		case model.ErrInexact:
			inexact[k] = true
		default:
			c.Violate("harness", fmt.Sprintf("%v; schema %s target %s", err, rc.ds.S.JSON(), t), nil)
			return false
		}
		want = append(want, v)
	}
	c.Eval(1)
	got, err := lib.ReadAll(rc.file, rt, r.IntN(2) == 0)
	if firstMisfit >= 0 {
		c.Count("misfit-files", 1)
		if err == nil {
			c.Violate("truncation", fmt.Sprintf("[%s] record %d holds an integer that does not fit the target field, yet ReadFile reported no error\n schema %s\n target %s\n datum %s", what, firstMisfit,
				rc.ds.S.JSON(), t, trunc(refavro.Render(rc.datums[firstMisfit]), 500)), rc.replay(t))
			return false
		}
		if len(got) > firstMisfit {
			c.Violate("truncation", fmt.Sprintf("[%s] record %d does not fit the target but was delivered to the callback", what, firstMisfit), rc.replay(t))
			return false
		}
	} else if err != nil {
		c.Violate("read-error", fmt.Sprintf("[%s] ReadFile failed on a spec-legal file: %v\n schema %s\n target %s\n %s", what, err, rc.ds.S.JSON(), t, rc.desc), rc.replay(t))
		return false
	} else if len(got) != len(want) {
		c.Violate("count", fmt.Sprintf("[%s] file holds %d records, %d delivered\n schema %s\n target %s", what, len(want), len(got), rc.ds.S.JSON(), t), rc.replay(t))
		return false
	}
	for k := range got {
		if inexact[k] {
			continue
		}
		if d := model.EqualNorm(t, want[k], got[k], false, fmt.Sprintf("rec[%d]", k)); d != "" {
			c.Violate("value", fmt.Sprintf("[%s] %s\n schema %s\n target %s\n %s\n datum %s\n want %s\n got  %s", what, d, rc.ds.S.JSON(), t, rc.desc,
				trunc(refavro.Render(rc.datums[k]), 400), trunc(model.RenderValue(t, want[k]), 400), trunc(model.RenderValue(t, got[k]), 400)), rc.replay(t))
			return false
		}
	}
	return true
}

func schemaTypes(s *refavro.Schema, set map[string]bool) {
	if s == nil {
		return
	}
	set[s.Type] = true
	if s.Type == "union" {
		nullIdx := -1
		for i, b := range s.Branches {
			if b.Type == "null" {
				nullIdx = i
			}
		}
		switch {
		case len(s.Branches) == 1:
			set["union-single"] = true
		case len(s.Branches) > 2:
			set["union-multi"] = true
		case nullIdx == 1:
			set["union-null-second"] = true
		case nullIdx == 0:
			set["union-null-first"] = true
		}
	}
	for _, f := range s.Fields {
		schemaTypes(f.Type, set)
	}
	schemaTypes(s.Items, set)
	schemaTypes(s.Values, set)
	for _, b := range s.Branches {
		schemaTypes(b, set)
	}
}

func countReadCase(c *core.Ctx, rc *readCase) {
	set := map[string]bool{}
	schemaTypes(rc.ds.S, set)
	for k := range set {
		c.Count("schematype."+k, 1)
	}
	c.Count("filecodec."+rc.codec, 1)
	if rc.nblocks > 1 {
		c.Count("multiblock-files", 1)
	}
	c.Count("collections.multiblock", int64(rc.ch.MultiBlocks))
	c.Count("collections.sizeprefixed", int64(rc.ch.Prefixed))
}

func runC03(c *core.Ctx, i int) {
	if i%512 == 9 {
		c03floatWidth(c)
	}
	rc := genReadCase(c, i, 40)
	r := c.Rand(i, 1)
	c.Journal(c.CurCase(), "schema="+trunc(rc.ds.S.JSON(), 200))
	countReadCase(c, rc)
	// canonical target + variations
	targets := []*gen.T{rc.ds.Target(r, rc.ds.S, gen.TargetOpts{Canonical: true})}
	nv := 3 + r.IntN(3)
	for k := 0; k < nv; k++ {
		targets = append(targets, rc.ds.Target(r, rc.ds.S, gen.TargetOpts{NarrowInts: 8}))
	}
	for k, t := range targets {
		what := "canonical target"
		if k > 0 {
			what = "target variation"
		}
		if !readInto(c, rc, t, r, what) {
			return
		}
		c.Shape(rc.ds.S.Shape() + "|" + t.Shape())
	}
	if !rc.misfit && len(rc.datums) <= 40 && !c03codecHistory(c, rc, targets[i%len(targets)], r) {
		return
	}
	c.Sample(map[string]any{"schema": trunc(rc.ds.S.JSON(), 300), "target": trunc(targets[len(targets)-1].String(), 300), "config": rc.desc})
}

func runC04(c *core.Ctx, i int) {
	rc := genReadCase(c, i, 0)
	r := c.Rand(i, 1)
	c.Journal(c.CurCase(), "schema="+trunc(rc.ds.S.JSON(), 200))
	countReadCase(c, rc)
	full := rc.ds.Target(r, rc.ds.S, gen.TargetOpts{})
	if !readInto(c, rc, full, r, "full target") {
		return
	}
	for mode := 0; mode <= 6; mode++ {
		reps := 1
		if mode == 0 || mode == 3 {
			reps = 2
		}
		for k := 0; k < reps; k++ {
			p := gen.Project(r, full, mode)
			if !readInto(c, rc, p, r, fmt.Sprintf("projection mode %d of %s", mode, trunc(full.String(), 200))) {
				return
			}
			c.Count(fmt.Sprintf("projection.mode%d", mode), 1)
			c.Shape(rc.ds.S.Shape() + "|" + p.Shape())
		}
	}
	if len(rc.datums) <= 40 && !c04evolution(c, rc, full, r) {
		return
	}
	// codec level: Skip consumes exactly what Read consumes (sentinel suffix makes over-consumption visible)
	codecFull, err := buildLibCodec(rc.ds.S, full.RT())
	if err != nil {
		c.Violate("build", fmt.Sprintf("codec refused for compatible target: %v", err), rc.replay(full))
		return
	}
	empty := gen.StructOf()
	codecSkipAll, err := buildLibCodec(rc.ds.S, empty.RT())
	if err != nil {
		c.Violate("build", fmt.Sprintf("codec refused for a struct with no matching fields: %v", err), rc.replay(empty))
		return
	}
	sentinel := []byte{0xde, 0xad, 0xbe, 0xef, 0x01, 0x80, 0xff}
	rb := avro.NewReadBuf(nil)
	for k, d := range rc.datums {
		enc, err := refavro.Encode(nil, rc.ds.S, d, &gen.RandChooser{R: r, Style: rc.style})
		if err != nil {
			c.Violate("harness", err.Error(), nil)
			return
		}
		buf := append(append([]byte{}, enc...), sentinel...)
		// Read into the full target
		v := reflect.New(full.RT()).Elem()
		rb.Reset(buf)
		errR := codecFull.Read(rb, unsafe.Pointer(v.UnsafeAddr()))
		leftR := rb.Len()
		rb.ExtractResourceBank()
		rb.Reset(buf)
		errS := codecFull.Skip(rb)
		leftS := rb.Len()
		ev := reflect.New(empty.RT()).Elem()
		rb.Reset(buf)
		errE := codecSkipAll.Read(rb, unsafe.Pointer(ev.UnsafeAddr()))
		leftE := rb.Len()
		c.Eval(3)
		if len(enc) > 0 {
			c.Count("skip.calls-consuming", 2)
		}
		if errR != nil || errS != nil || errE != nil || leftR != len(sentinel) || leftS != len(sentinel) || leftE != len(sentinel) {
			c.Violate("skip-consumption", fmt.Sprintf("record %d (%d bytes + %d sentinel): Read left %d (err %v), Skip left %d (err %v), Read into empty struct left %d (err %v)\n schema %s\n datum %s\n bytes %x",
				k, len(enc), len(sentinel), leftR, errR, leftS, errS, leftE, errE, rc.ds.S.JSON(), trunc(refavro.Render(d), 400), enc), rc.replay(full))
			return
		}
	}
	c.Sample(map[string]any{"schema": trunc(rc.ds.S.JSON(), 300), "full_target": trunc(full.String(), 300), "config": rc.desc})
}

func readFloors(minShapes int) func(a *core.Agg) []string {
	return func(a *core.Agg) []string {
		var u []string
		if len(a.Shapes) < minShapes {
			u = append(u, fmt.Sprintf("distinct shapes %d < %d", len(a.Shapes), minShapes))
		}
		for _, t := range []string{"null", "boolean", "int", "long", "float", "double", "bytes", "string", "fixed", "record", "array", "map", "union", "union-null-first", "union-null-second", "union-single", "union-multi"} {
			if a.C("schematype."+t) < 20 {
				u = append(u, fmt.Sprintf("schema type %s in %d files < 20", t, a.C("schematype."+t)))
			}
		}
		for _, k := range []string{"collections.multiblock", "collections.sizeprefixed", "multiblock-files", "filecodec.", "filecodec.null", "filecodec.deflate", "filecodec.snappy"} {
			if a.C(k) < 100 {
				u = append(u, fmt.Sprintf("%s=%d < 100", k, a.C(k)))
			}
		}
		return u
	}
}

func init() {
	core.Register(&core.Prop{
		ID:        "C03",
		Level:     "exploration",
		Technique: "runtime monitoring: files written by an independent reference writer making random spec-legal encoding choices are read by ReadFile into generated compatible Go targets and compared with the model's expected values; out-of-width integers must produce errors",
		Rule: "schema over the supported subset (depth<=4; unions null-first, null-second, single-branch, type-compatible multi-branch; fixed; nested collections) x 1..30 datums x writer choices (array/map blocks: one, many, size-prefixed, mixed; file blocks: any partition; codec absent/null/deflate/snappy) x canonical target + 3..5 variations (pointer depth, int/int16/int32/int64, float32 for exact doubles, null.*/time.Time wrappers, value vs pointer passed to ReadFile); every ReadFile target already holds data and the callback overwrites the record it was given after copying it; " +
			"distinct_nontrivial = distinct (schema shape, target shape) pairs read and compared",
		Explanation: "refavro's writer knows nothing of the library; E3 FillFromDatum states what each datum must become in each target. Integers are occasionally drawn just outside the hinted width: the read must then fail and the record must not be delivered.",
		Assumptions: []string{"double->float32 is only demanded for doubles exactly representable as float32", "enum and named-type references are outside the stated subset"},
		Modes: func(tier string) []core.Mode {
			m := []core.Mode{{Name: "plain", Variant: "plain"}, {Name: "checkptr", Variant: "checkptr", CaseDiv: 3}}
			if tier == "thorough" {
				m = append(m, core.Mode{Name: "asan", Variant: "asan", CaseDiv: 8, NoRlimit: true}, core.Mode{Name: "go126", Variant: "go126", CaseDiv: 4})
			}
			return m
		},
		NumCases: func(c *core.Ctx) int { return c.Pick(16000, 400000) },
		Run:      runC03,
		Floors: func(a *core.Agg) []string {
			u := readFloors(300)(a)
			if a.C("misfit-files") < 200 {
				u = append(u, fmt.Sprintf("misfit-files=%d < 200", a.C("misfit-files")))
			}
			return u
		},
	})
	core.Register(&core.Prop{
		ID:        "C04",
		Level:     "exploration",
		Technique: "runtime monitoring: the same reference-written files are read into projected targets (fields deleted, permuted, added at any depth) and compared with the model; at codec level Read, Skip and read-into-empty-struct must consume exactly the record's bytes before a sentinel suffix",
		Rule: "C03's file generator; per file the full target plus 8 projections (delete one, delete all, keep one, random subset, permutation, additions; recursively in nested records); codec level on every record with a 7-byte sentinel suffix; targets handed to ReadFile already hold data and are overwritten by the callback after each record; schema field names include option keywords (omitempty, string) and the Go identifiers of sibling fields; " +
			"distinct_nontrivial = distinct (schema shape, projected target shape) pairs",
		Explanation: "Absolute oracle: surviving fields must equal the model's expectation for the datum, added fields must be zero, the file must be consumed without error. Byte accounting: the exact encoded length of each record is known from the reference encoder, so over- or under-consumption by any Skip path (including size-prefixed blocks) is visible as a wrong remainder.",
		Modes: func(tier string) []core.Mode {
			m := []core.Mode{{Name: "plain", Variant: "plain"}, {Name: "checkptr", Variant: "checkptr", CaseDiv: 3}}
			if tier == "thorough" {
				m = append(m, core.Mode{Name: "asan", Variant: "asan", CaseDiv: 8, NoRlimit: true}, core.Mode{Name: "go126", Variant: "go126", CaseDiv: 4})
			}
			return m
		},
		NumCases: func(c *core.Ctx) int { return c.Pick(10000, 240000) },
		Run:      runC04,
		Floors: func(a *core.Agg) []string {
			u := readFloors(300)(a)
			if a.C("skip.calls-consuming") < 1000 {
				u = append(u, fmt.Sprintf("skip calls %d < 1000", a.C("skip.calls-consuming")))
			}
			return u
		},
	})
}
