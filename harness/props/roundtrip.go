package props

import (
	"bytes"
	"encoding/hex"
	"fmt"
	"math/rand/v2"
	"reflect"
	"runtime"
	"sync"

	"github.com/philpearl/avro"

	"verifharness/core"
	"verifharness/gen"
	"verifharness/lib"
	"verifharness/model"
	"verifharness/refavro"
	"verifharness/statictypes"
)

// rtCase is one (type, values, configuration) round-trip scenario.
type rtCase struct {
	T      *gen.T
	Static *statictypes.Case
	Vals   []reflect.Value
	Cfg    lib.EncodeCfg
	CfgStr string
	// MayRefuse: the type is outside what the encoder is known to accept; a refusal is an accepted outcome
	MayRefuse bool
}

var compressions = []avro.Compression{avro.CompressionNull, avro.CompressionDeflate, avro.CompressionSnappy}

func genFlushPlan(r *rand.Rand, n int) (lib.FlushPlan, string) {
	p := lib.FlushPlan{After: map[int]int{}, AtEnd: 1}
	name := "end"
	switch r.IntN(7) {
	case 0:
	case 1:
		k := 1 + r.IntN(4)
		for i := k - 1; i < n; i += k {
			p.After[i] = 1
		}
		name = fmt.Sprintf("every%d", k)
	case 2:
		for i := 0; i < n; i++ {
			if r.IntN(3) == 0 {
				p.After[i] = 1
			}
		}
		name = "random"
	case 3:
		for i := 0; i < n; i++ {
			if r.IntN(3) == 0 {
				p.After[i] = 2
			}
		}
		p.AtEnd = 2
		name = "double"
	case 4:
		p.BeforeFirst = 1 + r.IntN(2)
		name = "before-first"
	case 5:
		for i := 0; i < n; i++ {
			p.After[i] = 1
		}
		name = "each"
	case 6:
		p.BeforeFirst = 1
		for i := 0; i < n; i++ {
			if r.IntN(4) == 0 {
				p.After[i] = 1 + r.IntN(2)
			}
		}
		p.AtEnd = 3
		name = "mixed"
	}
	return p, name
}

var sizeSweepType = gen.StructOf(gen.Fld("B", "b", false, gen.Leaf(gen.KBytes)), gen.Fld("N", "n", false, gen.Leaf(gen.KInt64)))

// sizeSweep: lengths within +-48 of every power of two from 64 to 64 KiB (and a few beyond)
var sizeSweep = func() []int {
	var out []int
	for p := 64; p <= 65536; p *= 2 {
		for d := -48; d <= 48; d++ {
			if p+d > 0 {
				out = append(out, p+d)
			}
		}
	}
	for _, x := range []int{100000, 131071, 131072, 131073, 200000} {
		out = append(out, x)
	}
	return out
}()

var giantType = gen.StructOf(gen.Fld("S", "s", false, gen.Leaf(gen.KString)), gen.Fld("M", "m", false, gen.MapOf(gen.Leaf(gen.KString))), gen.Fld("B", "b", false, gen.Leaf(gen.KBytes)), gen.Fld("N", "n", false, gen.Leaf(gen.KInt64)))

var blockSizes = []int{0, 1, 2, 16, 64, 100, 256, 1000, 4096, 1 << 20}

// genRTCase builds the scenario for case index i.
func genRTCase(c *core.Ctx, i int, vo gen.ValOpts) *rtCase {
	r := c.Rand(i, 0)
	rc := &rtCase{}
	nstatic := len(statictypes.Cases)
	reps := 3
	if i < nstatic*reps {
		rc.Static = statictypes.Cases[i%nstatic]
		rc.T = rc.Static.IR
	} else {
		o := gen.TypeOpts{MaxDepth: 2 + r.IntN(3), MaxFields: 2 + r.IntN(6), WeirdNames: r.IntN(4) == 0}
		rc.T = gen.GenStruct(r, o)
	}
	if j := i - nstatic*reps; j >= 0 && j < len(sizeSweep)*3 {
		// size sweep: one or two records of incompressible data whose encoded size walks across
		// buffer-size boundaries (compressed output may be larger than the input)
		L := sizeSweep[j/3]
		rc.T = sizeSweepType
		rc.Static = nil
		for k := 0; k < 1+j%2; k++ {
			v := reflect.New(rc.T.RT()).Elem()
			b := make([]byte, L)
			for x := range b {
				b[x] = byte(r.Uint32())
			}
			v.Field(0).SetBytes(b)
			v.Field(1).SetInt(int64(L))
			rc.Vals = append(rc.Vals, v)
		}
		rc.Cfg.Compression = compressions[j%3]
		rc.Cfg.BlockSize = []int{0, L, 1 << 20}[(j/3)%3]
		rc.Cfg.Plan = lib.FlushPlan{After: map[int]int{}, AtEnd: 1}
		rc.CfgStr = fmt.Sprintf("%s/bs=%d/size-sweep L=%d/n=%d", rc.Cfg.Compression, rc.Cfg.BlockSize, L, len(rc.Vals))
		return rc
	}
	if j := i - nstatic*reps - len(sizeSweep)*3; j >= 0 && j < 9 {
		// strings, map keys/values and byte slices of a megabyte and more (lengths that need a four-byte varint),
		// several in a row so that later rows are written into buffers grown by earlier ones
		rc.T = giantType
		rc.Static = nil
		lens := [][]int{{1<<20 - 1, 1 << 20, 1<<20 + 1}, {2<<20 + 7, 1<<20 + 3, 1 << 20}, {100, 1 << 20, 1 << 21}}[j%3]
		for k, L := range lens {
			v := reflect.New(rc.T.RT()).Elem()
			b := bytes.Repeat([]byte{byte('a' + k)}, L)
			for x := 0; x < L; x += 997 {
				b[x] = byte(r.Uint32()%26) + 'A'
			}
			v.Field(0).SetString(string(b))
			if k == 1 {
				m := reflect.MakeMap(v.Field(1).Type())
				m.SetMapIndex(reflect.ValueOf("big"), reflect.ValueOf(string(b[:L/2+L/3])))
				v.Field(1).Set(m)
				v.Field(2).SetBytes(b[:L-5])
			}
			v.Field(3).SetInt(int64(L))
			rc.Vals = append(rc.Vals, v)
		}
		rc.Cfg.Compression = compressions[j%3]
		rc.Cfg.BlockSize = []int{0, 8 << 20, 1 << 20}[(j/3)%3]
		rc.Cfg.Plan = lib.FlushPlan{After: map[int]int{}, AtEnd: 1}
		rc.CfgStr = fmt.Sprintf("%s/bs=%d/giant-strings %v", rc.Cfg.Compression, rc.Cfg.BlockSize, lens)
		return rc
	}
	if j := i - nstatic*reps - len(sizeSweep)*3 - 9; j >= 0 && j < 6 {
		// two distinct struct types with the same name and package inside one record
		ta, tb := statictypes.LocalTwins()
		root := reflect.StructOf([]reflect.StructField{
			{Name: "A", Type: ta, Tag: `json:"a"`}, {Name: "B", Type: tb, Tag: `json:"b"`},
			{Name: "LB", Type: reflect.SliceOf(tb), Tag: `json:"lb"`}, {Name: "MA", Type: reflect.MapOf(reflect.TypeOf(""), ta), Tag: `json:"ma"`},
			{Name: "PB", Type: reflect.PointerTo(tb), Tag: `json:"pb"`},
		})
		if j%2 == 1 {
			root = reflect.StructOf([]reflect.StructField{{Name: "B", Type: tb, Tag: `json:"b"`}, {Name: "A", Type: ta, Tag: `json:"a"`}, {Name: "LA", Type: reflect.SliceOf(ta), Tag: `json:"la"`}})
		}
		rc.T = gen.FromReflect(root)
		rc.Static = nil
		for k := 0; k < 4; k++ {
			rc.Vals = append(rc.Vals, gen.NewValue(r, rc.T, gen.ValOpts{Mode: gen.ModeFull, NoBigStrings: true, NoInnerNil: true}))
		}
		rc.Cfg.Compression = compressions[j%3]
		rc.Cfg.BlockSize = 64
		rc.Cfg.Plan = lib.FlushPlan{After: map[int]int{}, AtEnd: 1}
		rc.CfgStr = fmt.Sprintf("%s/bs=64/same-named-types %d", rc.Cfg.Compression, j)
		return rc
	}
	if j := i - nstatic*reps - len(sizeSweep)*3 - 15; j >= 0 && j < 6 {
		// int8 fields: schema generation maps them to long; whether the encoder accepts them is its choice, but an
		// encoder that accepts them writes their values
		rc.T = gen.StructOf(gen.Fld("A", "a", false, gen.Leaf(gen.KInt8)), gen.Fld("B", "b", false, gen.Leaf(gen.KInt8)), gen.Fld("C", "c", false, gen.Leaf(gen.KInt8)),
			gen.Fld("N", "n", false, gen.Leaf(gen.KInt64)), gen.Fld("O", "o", true, gen.Leaf(gen.KInt8)), gen.Fld("D", "d", false, gen.Leaf(gen.KInt8)))
		rc.Static = nil
		rc.MayRefuse = true
		for k := 0; k < 6; k++ {
			v := reflect.New(rc.T.RT()).Elem()
			for f := 0; f < v.NumField(); f++ {
				v.Field(f).SetInt(int64(int8(r.Uint32())))
			}
			if k == 0 {
				v.Field(0).SetInt(-3)
				v.Field(1).SetInt(5)
				v.Field(2).SetInt(7)
			}
			rc.Vals = append(rc.Vals, v)
		}
		rc.Cfg.Compression = compressions[j%3]
		rc.Cfg.BlockSize = 0
		rc.Cfg.Plan = lib.FlushPlan{After: map[int]int{}, AtEnd: 1}
		rc.CfgStr = fmt.Sprintf("%s/bs=0/int8-fields", rc.Cfg.Compression)
		return rc
	}
	n := 1 + r.IntN(6)
	switch r.IntN(12) {
	case 0, 1:
		n = 1
	case 2, 3:
		n = 10 + r.IntN(31)
	case 4:
		n = 64 + r.IntN(200) // blocks whose record count needs a two-byte varint
		vo.NoBigStrings = true
	}
	for k := 0; k < n; k++ {
		o := vo
		switch r.IntN(5) {
		case 0:
			o.Mode = gen.ModeFull
		case 1:
			o.Mode = gen.ModeEmpty
		}
		rc.Vals = append(rc.Vals, gen.NewValue(r, rc.T, o))
	}
	rc.Cfg.Compression = compressions[r.IntN(3)]
	rc.Cfg.BlockSize = blockSizes[r.IntN(len(blockSizes))]
	var pn string
	rc.Cfg.Plan, pn = genFlushPlan(r, n)
	rc.CfgStr = fmt.Sprintf("%s/bs=%d/flush=%s/n=%d", rc.Cfg.Compression, rc.Cfg.BlockSize, pn, n)
	return rc
}

// yieldingWriter gives other goroutines a chance to run on every Write.
type yieldingWriter struct{ buf bytes.Buffer }

func (w *yieldingWriter) Write(p []byte) (int, error) {
	runtime.Gosched()
	n, err := w.buf.Write(p)
	runtime.Gosched()
	return n, err
}

// encodeConcurrently runs the same encoding on several goroutines at once (independent encoders,
// private writers): every output must be as valid as a lone run's.
func (rc *rtCase) encodeConcurrently(n int) ([][]byte, []error) {
	outs := make([][]byte, n)
	errs := make([]error, n)
	var wg sync.WaitGroup
	for g := 0; g < n; g++ {
		wg.Add(1)
		go func(g int) {
			defer wg.Done()
			w := &yieldingWriter{}
			cfg := rc.Cfg
			cfg.NoScratch = true // the values are shared by the goroutines: nobody writes to them
			if rc.Static != nil {
				errs[g] = rc.Static.Encode(w, rc.Vals, cfg)
			} else {
				errs[g] = lib.EncodeTwin(w, rc.T.RT(), rc.Vals, cfg)
			}
			outs[g] = w.buf.Bytes()
		}(g)
	}
	wg.Wait()
	return outs, errs
}

func (rc *rtCase) encode() ([]byte, error) {
	var buf bytes.Buffer
	var err error
	if rc.Static != nil {
		err = rc.Static.Encode(&buf, rc.Vals, rc.Cfg)
	} else {
		err = lib.EncodeTwin(&buf, rc.T.RT(), rc.Vals, rc.Cfg)
	}
	return buf.Bytes(), err
}

// maxMapLen: largest map in the values (datum comparison across runs is only byte-order independent via Render, which sorts)
func (rc *rtCase) maxMapLen() int { return 0 }

func (rc *rtCase) replay(file []byte) map[string]any {
	m := map[string]any{"type": rc.T.String(), "config": rc.CfgStr}
	if rc.Static != nil {
		m["static"] = rc.Static.Name
	}
	var vs []string
	for k, v := range rc.Vals {
		if k >= 6 {
			break
		}
		vs = append(vs, model.RenderValue(rc.T, v))
	}
	m["values"] = vs
	if len(file) <= 4096 {
		m["file_hex"] = hex.EncodeToString(file)
	} else {
		m["file_hex_prefix"] = hex.EncodeToString(file[:4096])
	}
	return m
}

func countKinds(c *core.Ctx, t *gen.T) {
	ks := map[gen.Kind]int{}
	t.Kinds(ks)
	for k := range ks {
		c.Count("kind."+k.String(), 1)
	}
}

// nullAfterNonNull counts transitions non-null->null in the same nullable top-level field.
func nullTransitions(rc *rtCase) int64 {
	var n int64
	for fi, f := range rc.T.Fields {
		if f.Excluded() {
			continue
		}
		prevNonEmpty := false
		for k, v := range rc.Vals {
			fv := gen.Field(v, fi)
			empty := fv.IsZero()
			if k > 0 && prevNonEmpty && empty {
				n++
			}
			prevNonEmpty = !empty
		}
	}
	return n
}

func runRoundTrip(c *core.Ctx, i int, doC01, doC02 bool) {
	vo := gen.ValOpts{}
	if doC01 && c.Quarantined("c01.nested-null") {
		vo.NoInnerNil = true
	}
	rc := genRTCase(c, i, vo)
	c.Eval(1)
	if rc.Static != nil && rc.Static.Name == "Twin" {
		// look-alike row types: encoders for the other types that generate the very same schema have been created
		// (and used) in this process before this one is
		for _, tw := range statictypes.Twins() {
			if tw != rc.Static {
				var sink bytes.Buffer
				tw.Encode(&sink, []reflect.Value{gen.NewValue(c.Rand(i, 5), tw.IR, gen.ValOpts{Mode: gen.ModeFull, NoInnerNil: true})}, lib.EncodeCfg{Compression: avro.CompressionNull, BlockSize: 0, Plan: lib.FlushPlan{AtEnd: 1}})
			}
		}
		c.Count("look-alike-encoder-sequences", 1)
	}
	file, err := rc.encode()
	if err != nil && rc.MayRefuse {
		c.Count("optional-kinds-refused", 1)
		return
	}
	if err == nil && rc.MayRefuse {
		c.Count("optional-kinds-accepted", 1)
	}
	if err != nil {
		c.Violate("encode-error", fmt.Sprintf("encoder refused a supported type %s: %v", rc.T, err), rc.replay(nil))
		return
	}
	countKinds(c, rc.T)
	c.Count("records", int64(len(rc.Vals)))
	c.Count("codec."+string(rc.Cfg.Compression), 1)
	c.Count("null-after-nonnull", nullTransitions(rc))
	if rc.Static != nil {
		c.Count("static-encoder-cases", 1)
	}
	// independent parse (also feeds C01's block statistics)
	cont, perr := refavro.ReadContainer(file)
	if perr == nil {
		if len(cont.Blocks) > 1 {
			c.Count("multiblock-files", 1)
		}
		c.Count("blocks", int64(len(cont.Blocks)))
	}
	if doC02 {
		checkC02(c, rc, file, cont, perr)
		if i%8 == 5 && c.NumViolations() == 0 {
			// independent encoders running at the same time must each produce an equally valid file
			outs, errs := rc.encodeConcurrently(8)
			for g := range outs {
				if errs[g] != nil {
					c.Violate("encode-error", fmt.Sprintf("concurrent encoder %d failed: %v", g, errs[g]), rc.replay(nil))
					break
				}
				cg, perr := refavro.ReadContainer(outs[g])
				if perr == nil && len(cg.AllRecords()) != len(rc.Vals) {
					perr = fmt.Errorf("%d records, want %d", len(cg.AllRecords()), len(rc.Vals))
				}
				if perr == nil {
					for k, d := range cg.AllRecords() {
						if k < len(cont.AllRecords()) && refavro.Render(d) != refavro.Render(cont.AllRecords()[k]) && rc.maxMapLen() <= 1 {
							perr = fmt.Errorf("record %d differs from the lone run", k)
							break
						}
					}
				}
				if perr != nil {
					c.Violate("container", fmt.Sprintf("file written while 7 other independent encoders were running is not valid: %v; type %s [%s]", perr, rc.T, rc.CfgStr), rc.replay(outs[g]))
					break
				}
			}
			c.Count("concurrent-encoder-cases", 1)
		}
	}
	if doC01 {
		checkC01(c, rc, file)
	}
	nonExcl := 0
	for _, f := range rc.T.Fields {
		if !f.Excluded() {
			nonExcl++
		}
	}
	if nonExcl > 0 {
		c.Shape(rc.T.Shape())
	}
	c.Sample(map[string]any{"type": trunc(rc.T.String(), 400), "config": rc.CfgStr, "first_value": trunc(model.RenderValue(rc.T, rc.Vals[0]), 400), "file_bytes": len(file)})
}

func trunc(s string, n int) string {
	if len(s) > n {
		return s[:n] + "…"
	}
	return s
}

func checkC01(c *core.Ctx, rc *rtCase, file []byte) {
	ptrTarget := len(file)%2 == 0
	if (len(file)/2)%2 == 0 {
		// documented usage: look at each record inside the callback and close its bank at once
		// (banks are recycled between records, so later records decode into reused memory)
		var diff string
		n, err := lib.ReadEach(file, rc.T.RT(), ptrTarget, func(k int, v reflect.Value) error {
			if k < len(rc.Vals) && diff == "" {
				if d := model.EqualNorm(rc.T, rc.Vals[k], v, false, fmt.Sprintf("rec[%d]", k)); d != "" {
					diff = fmt.Sprintf("%s\n wrote %s\n read  %s", d, trunc(model.RenderValue(rc.T, rc.Vals[k]), 600), trunc(model.RenderValue(rc.T, v), 600))
				}
			}
			return nil
		})
		c.Count("read-with-bank-close", 1)
		if err != nil {
			c.Violate("read-error", fmt.Sprintf("ReadFile (banks closed per record) failed on the encoder's own output for %s [%s]: %v", rc.T, rc.CfgStr, err), rc.replay(file))
			return
		}
		if n != len(rc.Vals) {
			c.Violate("count", fmt.Sprintf("wrote %d records, read %d (banks closed per record); type %s [%s]", len(rc.Vals), n, rc.T, rc.CfgStr), rc.replay(file))
			return
		}
		if diff != "" {
			c.Violate("value", fmt.Sprintf("(banks closed per record) %s; type %s [%s]", diff, rc.T, rc.CfgStr), rc.replay(file))
			return
		}
	}
	got, err := lib.ReadAll(file, rc.T.RT(), ptrTarget)
	if err != nil {
		c.Violate("read-error", fmt.Sprintf("ReadFile failed on the encoder's own output for %s [%s]: %v", rc.T, rc.CfgStr, err), rc.replay(file))
		return
	}
	if len(got) != len(rc.Vals) {
		c.Violate("count", fmt.Sprintf("wrote %d records, read %d; type %s [%s]", len(rc.Vals), len(got), rc.T, rc.CfgStr), rc.replay(file))
		return
	}
	for k := range got {
		if d := model.EqualNorm(rc.T, rc.Vals[k], got[k], false, fmt.Sprintf("rec[%d]", k)); d != "" {
			c.Violate("value", fmt.Sprintf("%s; type %s [%s]\n wrote %s\n read  %s", d, rc.T, rc.CfgStr,
				trunc(model.RenderValue(rc.T, rc.Vals[k]), 600), trunc(model.RenderValue(rc.T, got[k]), 600)), rc.replay(file))
			return
		}
	}
	// differential: the reflective twin must produce a structurally identical file on static types
	if rc.Static != nil {
		var buf bytes.Buffer
		if err := lib.EncodeTwin(&buf, rc.T.RT(), rc.Vals, rc.Cfg); err != nil {
			c.Violate("twin", fmt.Sprintf("twin pipeline failed where Encoder[T] succeeded: %v", err), rc.replay(file))
			return
		}
		a, e1 := refavro.ReadContainer(file)
		b, e2 := refavro.ReadContainer(buf.Bytes())
		if e1 == nil && e2 == nil {
			// the twin exists for type reach only: schema and record data must agree; block
			// partition is C09's business and is deliberately not compared here
			ra, rb := a.AllRecords(), b.AllRecords()
			if string(a.SchemaJSON) != string(b.SchemaJSON) || len(ra) != len(rb) {
				c.Violate("twin", fmt.Sprintf("Encoder[T] and the twin pipeline differ in schema or record count (%d vs %d)", len(ra), len(rb)), rc.replay(file))
				return
			}
			for ri := range ra {
				if refavro.Render(ra[ri]) != refavro.Render(rb[ri]) {
					c.Violate("twin", "record datums differ between Encoder[T] and twin", rc.replay(file))
					return
				}
			}
			c.Count("twin-agreements", 1)
		}
	}
}

func checkC02(c *core.Ctx, rc *rtCase, file []byte, cont *refavro.Container, perr error) {
	if perr != nil {
		c.Violate("container", fmt.Sprintf("reference reader rejects the file: %v; type %s [%s]", perr, rc.T, rc.CfgStr), rc.replay(file))
		return
	}
	if cont.Codec != string(rc.Cfg.Compression) {
		c.Violate("container", fmt.Sprintf("avro.codec is %q, encoder was asked for %q", cont.Codec, rc.Cfg.Compression), rc.replay(file))
		return
	}
	want, err := model.ExpectedSchema(rc.T)
	if err != nil {
		c.Violate("harness", "type outside the model: "+rc.T.String(), nil)
		return
	}
	recs := cont.AllRecords()
	if len(recs) != len(rc.Vals) {
		c.Violate("count", fmt.Sprintf("wrote %d records, file holds %d", len(rc.Vals), len(recs)), rc.replay(file))
		return
	}
	for _, b := range cont.Blocks {
		if b.Count == 0 {
			c.Violate("container", "file contains a block with count 0", rc.replay(file))
			return
		}
	}
	schemaDiff := refavro.Diff(model.StripNames(cont.Schema), want, "schema")
	for k, d := range recs {
		var df string
		if schemaDiff == "" {
			df = model.MatchDatum(rc.T, rc.Vals[k], false, d, fmt.Sprintf("rec[%d]", k))
		} else {
			// The embedded schema is not the documented mapping (that is C15's business). C02 only asks that the
			// payload be the encoding of the values under the embedded schema alone: judge it under that schema.
			df = model.MatchUnder(cont.Schema, rc.T, rc.Vals[k], false, d, fmt.Sprintf("rec[%d]", k))
			if df != "" {
				df += " (embedded schema differs from the documented mapping: " + schemaDiff + ")"
			}
		}
		if df != "" {
			c.Violate("datum", fmt.Sprintf("%s; type %s [%s]\n value %s\n datum %s", df, rc.T, rc.CfgStr,
				trunc(model.RenderValue(rc.T, rc.Vals[k]), 600), trunc(refavro.Render(d), 600)), rc.replay(file))
			return
		}
	}
	if schemaDiff != "" {
		c.Count("embedded-schema-not-documented-mapping", 1)
	}
	c.Count("longform-varints", int64(cont.LongForms))
}

var supportedKinds = []gen.Kind{gen.KBool, gen.KInt, gen.KInt16, gen.KInt32, gen.KInt64, gen.KFloat32, gen.KFloat64, gen.KString, gen.KBytes,
	gen.KTime, gen.KNullInt, gen.KNullBool, gen.KNullFloat, gen.KNullString, gen.KNullTime, gen.KStruct, gen.KSlice, gen.KMap, gen.KPtr}

func rtFloors(a *core.Agg) []string {
	var u []string
	need := func(k string, n int64) {
		if a.C(k) < n {
			u = append(u, fmt.Sprintf("%s=%d < %d", k, a.C(k), n))
		}
	}
	if len(a.Shapes) < 300 {
		u = append(u, fmt.Sprintf("distinct type shapes %d < 300", len(a.Shapes)))
	}
	for _, k := range supportedKinds {
		need("kind."+k.String(), 20)
	}
	need("multiblock-files", a.Evaluations/5)
	need("codec.null", 50)
	need("codec.deflate", 50)
	need("codec.snappy", 50)
	need("null-after-nonnull", 1000)
	need("static-encoder-cases", 100)
	return u
}

func init() {
	core.Register(&core.Prop{
		ID:        "C01",
		Level:     "exploration",
		Technique: "runtime monitoring: seeded round-trip workload through the real Encoder[T]/ReadFile with a normalising comparator oracle, under checkptr (and ASan in the thorough tier)",
		Rule: "case i = (struct type, value sequence, compression, block size, flush pattern), a pure function of (VERIF_SEED, i): the committed static corpus through the real generic Encoder[T] and reflect.StructOf types through the same public building blocks; " +
			"distinct_nontrivial = distinct type shapes (kinds, nesting, omitempty/exclusion flags) with at least one schema field that were encoded and read back",
		Explanation: "Each file written by the library's encoder is read back with ReadFile into the same type; count, order and every value are compared with the documented normalisations only. checkptr/ASan builds watch the unsafe pointer arithmetic while the same workload runs.",
		Assumptions: []string{"the comparator's normalisations are exactly those in the statement plus: float32 NaN payloads (hardware conversion), nil *[]T/*map == pointer to empty", "open finding c01.nested-null is quarantined from the value generator (see known_findings.json)"},
		Modes: func(tier string) []core.Mode {
			m := []core.Mode{{Name: "plain", Variant: "plain"}, {Name: "checkptr", Variant: "checkptr", CaseDiv: 2}}
			if tier == "thorough" {
				m = append(m, core.Mode{Name: "asan", Variant: "asan", CaseDiv: 4, NoRlimit: true}, core.Mode{Name: "gogc1", Variant: "plain", Env: []string{"GOGC=1"}, CaseDiv: 4},
					core.Mode{Name: "go126", Variant: "go126", CaseDiv: 4})
			}
			return m
		},
		NumCases: func(c *core.Ctx) int { return c.Pick(20000, 400000) },
		Run:      func(c *core.Ctx, i int) { runRoundTrip(c, i, true, false) },
		Floors:   rtFloors,
		Findings: map[string]func(c *core.Ctx) string{"c01.nested-null": findingNestedNull},
	})
	core.Register(&core.Prop{
		ID:        "C02",
		Level:     "exploration",
		Technique: "runtime monitoring: every file the encoder emits is decoded by an independent reference Avro reader (strict byte accounting) and compared with the documented value->datum mapping",
		Rule: "same case generator as C01 (type, values, compression, block size, flush pattern from (VERIF_SEED, i)); the oracle sees only the output bytes; " +
			"distinct_nontrivial = distinct type shapes with at least one schema field whose file the reference reader decoded",
		Explanation: "refavro (written from the Avro 1.8 specification, no shared code) parses magic, metadata, sync, block counts/sizes (deflate via compress/flate, snappy + CRC32), demands zero leftover bytes, compares the embedded schema with the documented mapping and every datum with the expected null/non-null branch and value.",
		Assumptions: []string{"empty non-nil collections in omitempty fields, zero structs in omitempty fields and zero non-omitempty time.Time may be written either way (statement silent)", "record names are not checked against the Avro name grammar"},
		Modes: func(tier string) []core.Mode {
			return []core.Mode{{Name: "plain", Variant: "plain"}}
		},
		NumCases: func(c *core.Ctx) int { return c.Pick(20000, 400000) },
		Run:      func(c *core.Ctx, i int) { runRoundTrip(c, i, false, true) },
		Floors:   rtFloors,
	})
}

// findingNestedNull: pinned witness of open finding c01.nested-null.
func findingNestedNull(c *core.Ctx) string {
	type W struct {
		PP **int
	}
	var inner *int
	w := W{PP: &inner}
	t := gen.FromReflect(reflect.TypeOf(w))
	v := reflect.New(t.RT()).Elem()
	v.Set(reflect.ValueOf(w))
	var buf bytes.Buffer
	if err := lib.EncodeStatic[W](&buf, []reflect.Value{v}, lib.EncodeCfg{Compression: avro.CompressionNull, BlockSize: 10, Plan: lib.FlushPlan{AtEnd: 1}}); err != nil {
		return "encode error: " + err.Error()
	}
	got, err := lib.ReadAll(buf.Bytes(), t.RT(), false)
	if err != nil {
		return "read error: " + err.Error()
	}
	if len(got) != 1 {
		return "count"
	}
	return model.EqualNorm(t, v, got[0], false, "rec")
}
