package props

import (
	"bytes"
	"fmt"
	"math/rand/v2"
	"reflect"
	"strings"
	"unsafe"

	"github.com/philpearl/avro"

	"verifharness/core"
	"verifharness/refavro"
)

// C20, two more places a registered type can occupy: the root of a file or codec (the registered type is the
// record type itself), and a schema type the built-in codecs have no support for (enum), which only the
// registered builder can serve.

type CRoot struct {
	A int64
	B string
}

type CEnum string

type c20enumHolder struct {
	Main CEnum            `json:"main"`
	P    *CEnum           `json:"p"`
	S    []CEnum          `json:"s"`
	M    map[string]CEnum `json:"m"`
	N    int64            `json:"n"`
}

var c20enumSymbols = []string{"RED", "GREEN", "BLUE"}

type c20rootCodec struct{ builds *int }

func c20rev(s string) string {
	b := []byte(s)
	for i, j := 0, len(b)-1; i < j; i, j = i+1, j-1 {
		b[i], b[j] = b[j], b[i]
	}
	return string(b)
}

func (c20rootCodec) Read(r *avro.ReadBuf, p unsafe.Pointer) error {
	v := (*CRoot)(p)
	a, err := readLong(r)
	if err != nil {
		return err
	}
	s, err := readStr(r)
	v.A, v.B = a^0x55, c20rev(s)
	return err
}
func (c c20rootCodec) Skip(r *avro.ReadBuf) error {
	var x CRoot
	return c.Read(r, unsafe.Pointer(&x))
}
func (c20rootCodec) New(r *avro.ReadBuf) unsafe.Pointer { return r.Alloc(reflect.TypeOf(CRoot{})) }
func (c20rootCodec) Omit(p unsafe.Pointer) bool         { return false }
func (c20rootCodec) Write(w *avro.WriteBuf, p unsafe.Pointer) {
	v := (*CRoot)(p)
	w.Varint(v.A ^ 0x55)
	writeStr(w, c20rev(v.B))
}

type c20enumCodec struct{}

func (c20enumCodec) Read(r *avro.ReadBuf, p unsafe.Pointer) error {
	i, err := readLong(r)
	if err != nil {
		return err
	}
	if i < 0 || int(i) >= len(c20enumSymbols) {
		return fmt.Errorf("enum index %d out of range", i)
	}
	*(*CEnum)(p) = CEnum(c20enumSymbols[i])
	return nil
}
func (c20enumCodec) Skip(r *avro.ReadBuf) error         { _, err := readLong(r); return err }
func (c20enumCodec) New(r *avro.ReadBuf) unsafe.Pointer { return r.Alloc(reflect.TypeOf(CEnum(""))) }
func (c20enumCodec) Omit(p unsafe.Pointer) bool         { return false }
func (c20enumCodec) Write(w *avro.WriteBuf, p unsafe.Pointer) {
	for i, s := range c20enumSymbols {
		if string(*(*CEnum)(p)) == s {
			w.Varint(int64(i))
			return
		}
	}
	w.Varint(0)
}

// an unnamed type (a slice type has no name and no package path) with a registration of its own
type c20Label string

type c20tagsHolder struct {
	Tags []c20Label `json:"tags"`
	N    int64      `json:"n"`
	More []c20Label `json:"more"`
}

type c20tagsCodec struct{}

func (c20tagsCodec) Read(r *avro.ReadBuf, p unsafe.Pointer) error {
	s, err := readStr(r)
	if err != nil {
		return err
	}
	var out []c20Label
	if s != "" {
		for _, part := range strings.Split(s, ",") {
			out = append(out, c20Label(part))
		}
	}
	*(*[]c20Label)(p) = out
	return nil
}
func (c20tagsCodec) Skip(r *avro.ReadBuf) error { _, err := readStr(r); return err }
func (c20tagsCodec) New(r *avro.ReadBuf) unsafe.Pointer {
	return r.Alloc(reflect.TypeOf([]c20Label(nil)))
}
func (c20tagsCodec) Omit(p unsafe.Pointer) bool { return false }
func (c20tagsCodec) Write(w *avro.WriteBuf, p unsafe.Pointer) {
	var parts []string
	for _, l := range *(*[]c20Label)(p) {
		parts = append(parts, string(l))
	}
	writeStr(w, strings.Join(parts, ","))
}

var c20tagsBuilds int

func c20unnamedRegistered(c *core.Ctx, r *rand.Rand) {
	rt := reflect.TypeOf([]c20Label(nil))
	avro.Register(rt, func(s avro.Schema, typ reflect.Type, omit bool) (avro.Codec, error) {
		if s.Type != "string" {
			return nil, fmt.Errorf("[]c20Label expects its string schema, got %s", s.Type)
		}
		c20tagsBuilds++
		return c20tagsCodec{}, nil
	})
	avro.RegisterSchema(rt, avro.Schema{Type: "string"})
	b0 := c20tagsBuilds
	gs, err := avro.SchemaForType(c20tagsHolder{})
	if err != nil || gs.Object == nil || len(gs.Object.Fields) != 3 || gs.Object.Fields[0].Type.Type != "string" || gs.Object.Fields[2].Type.Type != "string" {
		c.Violate("unnamed-registered", fmt.Sprintf("a schema registered for the unnamed type []c20Label is not what schema generation emits: err=%v schema=%+v", err, gs), nil)
		return
	}
	var hs []c20tagsHolder
	for k := 0; k < 1+r.IntN(4); k++ {
		h := c20tagsHolder{N: int64(k)}
		for j := 0; j < r.IntN(4); j++ {
			h.Tags = append(h.Tags, c20Label(fmt.Sprintf("t%d", r.IntN(50))))
		}
		h.More = []c20Label{"x", c20Label(fmt.Sprintf("y%d", k))}
		hs = append(hs, h)
	}
	var buf bytes.Buffer
	enc, err := avro.NewEncoderFor[c20tagsHolder](&buf, compressions[r.IntN(3)], 0)
	if err != nil {
		c.Violate("unnamed-registered", "NewEncoderFor with a field of a registered unnamed type: "+err.Error(), nil)
		return
	}
	for k := range hs {
		if err := enc.Encode(&hs[k]); err != nil {
			c.Violate("unnamed-registered", "Encode: "+err.Error(), nil)
			return
		}
	}
	if err := enc.Flush(); err != nil {
		c.Violate("unnamed-registered", "Flush: "+err.Error(), nil)
		return
	}
	c.Eval(1)
	cont, err := refavro.ReadContainer(buf.Bytes())
	if err != nil {
		c.Violate("unnamed-registered", "not a valid container: "+err.Error(), nil)
		return
	}
	join := func(ls []c20Label) string {
		var parts []string
		for _, l := range ls {
			parts = append(parts, string(l))
		}
		return strings.Join(parts, ",")
	}
	for k, d := range cont.AllRecords() {
		rec, ok := d.(*refavro.Record)
		if !ok || len(rec.Fields) != 3 || rec.Fields[0] != join(hs[k].Tags) || rec.Fields[2] != join(hs[k].More) {
			c.Violate("unnamed-registered", fmt.Sprintf("record %d on the wire is %s, the registered codec writes %q and %q", k, refavro.Render(d), join(hs[k].Tags), join(hs[k].More)), nil)
			return
		}
	}
	var back []c20tagsHolder
	rerr := avro.ReadFile(bytes.NewReader(buf.Bytes()), c20tagsHolder{}, func(val unsafe.Pointer, rb *avro.ResourceBank) error {
		h := *(*c20tagsHolder)(val)
		back = append(back, c20tagsHolder{Tags: append([]c20Label(nil), h.Tags...), N: h.N, More: append([]c20Label(nil), h.More...)})
		rb.Close()
		return nil
	})
	if rerr != nil || len(back) != len(hs) {
		c.Violate("unnamed-registered", fmt.Sprintf("reading back: err=%v, %d of %d", rerr, len(back), len(hs)), nil)
		return
	}
	for k := range hs {
		if join(hs[k].Tags) != join(back[k].Tags) || join(hs[k].More) != join(back[k].More) || hs[k].N != back[k].N {
			c.Violate("unnamed-registered", fmt.Sprintf("record %d read back as %+v, written %+v", k, back[k], hs[k]), nil)
			return
		}
	}
	if c20tagsBuilds == b0 {
		c.Violate("unnamed-registered", "the builder registered for the unnamed type was never consulted", nil)
		return
	}
	c.Count("unnamed-registered-ok", 1)
}

var c20rootBuilds, c20enumBuilds int

func c20rootAndEnum(c *core.Ctx, r *rand.Rand) {
	rootSchema := avro.Schema{Type: "record", Object: &avro.SchemaObject{Name: "CRoot", Fields: []avro.SchemaRecordField{{Name: "a", Type: avro.Schema{Type: "long"}}, {Name: "b", Type: avro.Schema{Type: "string"}}}}}
	avro.Register(reflect.TypeOf(CRoot{}), func(s avro.Schema, typ reflect.Type, omit bool) (avro.Codec, error) {
		if s.Type != "record" {
			return nil, fmt.Errorf("CRoot expects its record schema, got %s", s.Type)
		}
		c20rootBuilds++
		return c20rootCodec{}, nil
	})
	avro.RegisterSchema(reflect.TypeOf(CRoot{}), rootSchema)
	avro.Register(reflect.TypeOf(CEnum("")), func(s avro.Schema, typ reflect.Type, omit bool) (avro.Codec, error) {
		if s.Type != "enum" {
			return nil, fmt.Errorf("CEnum expects its enum schema, got %s", s.Type)
		}
		c20enumBuilds++
		return c20enumCodec{}, nil
	})
	avro.RegisterSchema(reflect.TypeOf(CEnum("")), avro.Schema{Type: "enum", Object: &avro.SchemaObject{Name: "Colour", Symbols: append([]string(nil), c20enumSymbols...)}})

	// ---- root position ----
	b0 := c20rootBuilds
	gs, err := avro.SchemaForType(CRoot{})
	if err != nil || gs.Type != "record" || gs.Object == nil || len(gs.Object.Fields) != 2 || gs.Object.Fields[0].Name != "a" {
		c.Violate("root-position", fmt.Sprintf("SchemaForType of a type with a registered record schema: err=%v schema=%+v", err, gs), nil)
		return
	}
	n := 1 + r.IntN(5)
	var vals []CRoot
	for k := 0; k < n; k++ {
		vals = append(vals, CRoot{A: int64(r.IntN(1000)) - 500, B: fmt.Sprintf("v%d-%c", r.IntN(100), 'a'+rune(r.IntN(26)))})
	}
	var buf bytes.Buffer
	enc, err := avro.NewEncoderFor[CRoot](&buf, compressions[r.IntN(3)], 64)
	if err != nil {
		c.Violate("root-position", "NewEncoderFor for a registered root type: "+err.Error(), nil)
		return
	}
	for k := range vals {
		if err := enc.Encode(&vals[k]); err != nil {
			c.Violate("root-position", "Encode: "+err.Error(), nil)
			return
		}
	}
	if err := enc.Flush(); err != nil {
		c.Violate("root-position", "Flush: "+err.Error(), nil)
		return
	}
	c.Eval(1)
	cont, err := refavro.ReadContainer(buf.Bytes())
	if err != nil {
		c.Violate("root-position", "file written for a registered root type is not a valid container: "+err.Error(), nil)
		return
	}
	recs := cont.AllRecords()
	if len(recs) != n {
		c.Violate("root-position", fmt.Sprintf("%d records written, %d in the file", n, len(recs)), nil)
		return
	}
	for k, d := range recs {
		want := fmt.Sprintf("(l%d,%q)", vals[k].A^0x55, c20rev(vals[k].B))
		rec, ok := d.(*refavro.Record)
		if !ok || len(rec.Fields) != 2 || rec.Fields[0] != vals[k].A^0x55 || rec.Fields[1] != c20rev(vals[k].B) {
			c.Violate("root-position", fmt.Sprintf("registered type at the root of a file: record %d is %s on the wire, the registered codec writes %s (builder consulted %d times)", k, refavro.Render(d), want, c20rootBuilds-b0), nil)
			return
		}
	}
	var back []CRoot
	rerr := avro.ReadFile(bytes.NewReader(buf.Bytes()), CRoot{}, func(val unsafe.Pointer, rb *avro.ResourceBank) error {
		back = append(back, *(*CRoot)(val))
		back[len(back)-1].B = string(append([]byte(nil), back[len(back)-1].B...))
		rb.Close()
		return nil
	})
	if rerr != nil || !reflect.DeepEqual(back, vals) {
		c.Violate("root-position", fmt.Sprintf("registered type at the root: read back %v err=%v, written %v", back, rerr, vals), nil)
		return
	}
	for _, target := range []any{CRoot{}, &CRoot{}} {
		codec, err := rootSchema.Codec(target)
		if err != nil {
			c.Violate("root-position", "Schema.Codec for a registered root type: "+err.Error(), nil)
			return
		}
		wb := avro.NewWriteBuf(nil)
		codec.Write(wb, unsafe.Pointer(&vals[0]))
		want := refavro.AppendLong(nil, vals[0].A^0x55)
		want = append(refavro.AppendLong(want, int64(len(vals[0].B))), c20rev(vals[0].B)...)
		if !bytes.Equal(wb.Bytes(), want) {
			c.Violate("root-position", fmt.Sprintf("Schema.Codec(%T) for a registered root type wrote %x, the registered codec writes %x", target, wb.Bytes(), want), nil)
			return
		}
	}
	if c20rootBuilds == b0 {
		c.Violate("root-position", "the registered builder was never consulted for the root type", nil)
		return
	}
	c.Count("root-position-ok", 1)

	// ---- enum schema, served by the registered builder only ----
	e0 := c20enumBuilds
	pick := func() CEnum { return CEnum(c20enumSymbols[r.IntN(3)]) }
	var hs []c20enumHolder
	for k := 0; k < 1+r.IntN(4); k++ {
		h := c20enumHolder{Main: pick(), N: int64(k), M: map[string]CEnum{"k": pick()}}
		if r.IntN(2) == 0 {
			p := pick()
			h.P = &p
		}
		for j := 0; j < r.IntN(4); j++ {
			h.S = append(h.S, pick())
		}
		hs = append(hs, h)
	}
	buf.Reset()
	eenc, err := avro.NewEncoderFor[c20enumHolder](&buf, compressions[r.IntN(3)], 0)
	if err != nil {
		c.Violate("enum-registered", "a type registered with an enum schema and codec, as field/pointer/slice/map value: NewEncoderFor: "+err.Error(), nil)
		return
	}
	for k := range hs {
		if err := eenc.Encode(&hs[k]); err != nil {
			c.Violate("enum-registered", "Encode: "+err.Error(), nil)
			return
		}
	}
	if err := eenc.Flush(); err != nil {
		c.Violate("enum-registered", "Flush: "+err.Error(), nil)
		return
	}
	c.Eval(1)
	cont, err = refavro.ReadContainer(buf.Bytes())
	if err != nil {
		c.Violate("enum-registered", "file with registered enum fields is not a valid container: "+err.Error(), nil)
		return
	}
	idx := func(e CEnum) int32 {
		for i, s := range c20enumSymbols {
			if s == string(e) {
				return int32(i)
			}
		}
		return -1
	}
	for k, d := range cont.AllRecords() {
		rec, ok := d.(*refavro.Record)
		if !ok || len(rec.Fields) != 5 || rec.Fields[0] != idx(hs[k].Main) {
			c.Violate("enum-registered", fmt.Sprintf("record %d on the wire is %s, main is %s (index %d)", k, refavro.Render(d), hs[k].Main, idx(hs[k].Main)), nil)
			return
		}
	}
	var hb []c20enumHolder
	rerr = avro.ReadFile(bytes.NewReader(buf.Bytes()), c20enumHolder{}, func(val unsafe.Pointer, rb *avro.ResourceBank) error {
		h := *(*c20enumHolder)(val)
		cp := c20enumHolder{Main: h.Main, N: h.N}
		if h.P != nil {
			p := *h.P
			cp.P = &p
		}
		cp.S = append([]CEnum(nil), h.S...)
		cp.M = map[string]CEnum{}
		for k, v := range h.M {
			cp.M[k] = v
		}
		hb = append(hb, cp)
		rb.Close()
		return nil
	})
	if rerr != nil || len(hb) != len(hs) {
		c.Violate("enum-registered", fmt.Sprintf("reading back: err=%v, %d of %d records", rerr, len(hb), len(hs)), nil)
		return
	}
	for k := range hs {
		a, b := hs[k], hb[k]
		same := a.Main == b.Main && a.N == b.N && (a.P == nil) == (b.P == nil) && (a.P == nil || *a.P == *b.P) && len(a.S) == len(b.S) && reflect.DeepEqual(a.M, b.M)
		for j := range a.S {
			same = same && j < len(b.S) && a.S[j] == b.S[j]
		}
		if !same {
			c.Violate("enum-registered", fmt.Sprintf("record %d read back as %+v, written %+v", k, b, a), nil)
			return
		}
	}
	if c20enumBuilds == e0 {
		c.Violate("enum-registered", "the registered builder was never consulted for the enum-typed fields", nil)
		return
	}
	c.Count("enum-registered-ok", 1)
	c20unnamedRegistered(c, r)
}
