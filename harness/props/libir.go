package props

import (
	"github.com/philpearl/avro"

	"verifharness/refavro"
)

// libToIR converts the library's Schema value into the reference IR without
// going through JSON.
func libToIR(s avro.Schema) *refavro.Schema {
	out := &refavro.Schema{Type: s.Type}
	if s.Type == "union" || len(s.Union) > 0 {
		for _, b := range s.Union {
			out.Branches = append(out.Branches, libToIR(b))
		}
		return out
	}
	if s.Object == nil {
		return out
	}
	o := s.Object
	out.ObjectForm = true
	out.Name, out.Namespace, out.LogicalType, out.Size = o.Name, o.Namespace, o.LogicalType, o.Size
	out.Symbols = o.Symbols
	switch s.Type {
	case "record":
		out.Fields = []refavro.Field{}
		for _, f := range o.Fields {
			out.Fields = append(out.Fields, refavro.Field{Name: f.Name, Type: libToIR(f.Type)})
		}
	case "array":
		out.Items = libToIR(o.Items)
	case "map":
		out.Values = libToIR(o.Values)
	}
	return out
}
