package props

import (
	"encoding/hex"
	"fmt"
	"math/rand/v2"
	"reflect"
	"unsafe"

	"github.com/philpearl/avro"

	"verifharness/core"
	"verifharness/gen"
	"verifharness/lib"
	"verifharness/model"
	"verifharness/refavro"
)

// C13 — codecs built from caller-supplied schemas write valid data and invert.

func buildLibCodec(s *refavro.Schema, rt reflect.Type) (avro.Codec, error) {
	ls, err := avro.SchemaFromString(s.JSON())
	if err != nil {
		return nil, fmt.Errorf("schema parse: %w", err)
	}
	return lib.CodecFor(ls, rt)
}

// cellsOf records which (schema type, Go kind) pairings occur (for floors).
func cellsOf(c *core.Ctx, s *refavro.Schema, t *gen.T) {
	for t.K == gen.KPtr && s.Type != "union" {
		t = t.Elem
	}
	switch s.Type {
	case "union":
		nullIdx := -1
		for i, b := range s.Branches {
			if b.Type == "null" {
				nullIdx = i
			}
		}
		if len(s.Branches) == 2 && nullIdx >= 0 {
			c.Count(fmt.Sprintf("cell.union-null%d", nullIdx), 1)
			tt := t
			for tt.K == gen.KPtr {
				tt = tt.Elem
			}
			cellsOf(c, s.Branches[1-nullIdx], tt)
		}
	case "record":
		for _, f := range s.Fields {
			if _, tf := t.FieldByAvroName(f.Name); tf != nil {
				cellsOf(c, f.Type, tf.T)
			}
		}
	case "array":
		if t.K == gen.KSlice {
			cellsOf(c, s.Items, t.Elem)
		}
	case "map":
		if t.K == gen.KMap {
			cellsOf(c, s.Values, t.Elem)
		}
	default:
		k := s.Type
		if s.LogicalType != "" {
			k += "/" + s.LogicalType
		}
		c.Count("cell."+k+"x"+t.K.String(), 1)
	}
}

// c13hugeArrays: arrays of 2^20 items and their neighbours (a writer may split long arrays into blocks; every
// split must still be the Avro encoding of the array), followed by another field.
type c13Huge struct {
	A    []int64    `json:"a"`
	Z    []struct{} `json:"z"`
	Tail int64      `json:"tail"`
}

func c13hugeArrays(c *core.Ctx, r *rand.Rand) {
	text := `{"type":"record","name":"huge","fields":[{"name":"a","type":{"type":"array","items":"long"}},{"name":"z","type":{"type":"array","items":{"type":"record","name":"e","fields":[]}}},{"name":"tail","type":"long"}]}`
	rs, err1 := refavro.ParseSchema([]byte(text))
	ls, err2 := avro.SchemaFromString(text)
	if err1 != nil || err2 != nil {
		c.Violate("harness", fmt.Sprint(err1, err2), nil)
		return
	}
	codec, err := ls.Codec(c13Huge{})
	if err != nil {
		c.Violate("build", "huge arrays: "+err.Error(), nil)
		return
	}
	wb := avro.NewWriteBuf(nil)
	for _, n := range []int{1<<20 - 1, 1 << 20, 1<<20 + 1, 2 << 20, 3<<20 - 1} {
		v := c13Huge{A: make([]int64, n), Tail: 77}
		for k := range v.A {
			v.A[k] = int64(k & 0x3f)
		}
		if n%2 == 0 {
			// zero-width items: a modest number only (how many of those a reader is prepared to accept is its own
			// business: a count of items that occupy no bytes is not backed by any input)
			v.Z = make([]struct{}, 1000)
		}
		wb.Reset()
		codec.Write(wb, unsafe.Pointer(&v))
		c.Eval(1)
		ds, err := refavro.DecodeAll(rs, wb.Bytes(), 1)
		if err != nil {
			c.Violate("invalid-encoding", fmt.Sprintf("an array of %d longs (and %d empty records) followed by a long: the bytes written are not a valid encoding: %v", n, len(v.Z), err), nil)
			return
		}
		rec := ds[0].(*refavro.Record)
		if a, ok := rec.Fields[0].([]any); !ok || len(a) != n || rec.Fields[2] != int64(77) || len(rec.Fields[1].([]any)) != len(v.Z) || a[n-1] != int64((n-1)&0x3f) {
			c.Violate("wrong-datum", fmt.Sprintf("an array of %d longs followed by the long 77 reads back (reference reader) with %d items and tail %v", n, len(rec.Fields[0].([]any)), rec.Fields[2]), nil)
			return
		}
		var back c13Huge
		rb := avro.NewReadBuf(wb.Bytes())
		if err := codec.Read(rb, unsafe.Pointer(&back)); err != nil || len(back.A) != n || back.Tail != 77 || len(back.Z) != len(v.Z) || back.A[n-1] != v.A[n-1] {
			c.Violate("not-inverse", fmt.Sprintf("an array of %d longs: Read of the bytes written gives %d items, tail %d, err=%v", n, len(back.A), back.Tail, err), nil)
			return
		}
		rb.ExtractResourceBank().Close()
		c.Count("huge-arrays", 1)
	}
}

func c13pointerFree(r *rand.Rand) (*gen.DataSchema, *gen.T) {
	ds := &gen.DataSchema{Hints: map[*refavro.Schema]*gen.Hint{}}
	long := func() *refavro.Schema {
		s := &refavro.Schema{Type: "long"}
		ds.Hints[s] = &gen.Hint{Bits: 64}
		return s
	}
	null := func(s *refavro.Schema) *refavro.Schema {
		u := &refavro.Schema{Type: "union", Branches: []*refavro.Schema{{Type: "null"}, s}}
		if r.IntN(3) == 0 {
			u.Branches[0], u.Branches[1] = u.Branches[1], u.Branches[0]
		}
		return u
	}
	item := func(name string) *refavro.Schema {
		return &refavro.Schema{Type: "record", ObjectForm: true, Name: name, Fields: []refavro.Field{
			{Name: "count", Type: null(long())}, {Name: "level", Type: &refavro.Schema{Type: "double"}},
			{Name: "flag", Type: null(&refavro.Schema{Type: "boolean"})}, {Name: "ratio", Type: null(&refavro.Schema{Type: "double"})}, {Name: "n", Type: long()}}}
	}
	ds.S = &refavro.Schema{Type: "record", ObjectForm: true, Name: "pf", Fields: []refavro.Field{
		{Name: "m", Type: &refavro.Schema{Type: "map", ObjectForm: true, Values: item("pfm")}},
		{Name: "a", Type: &refavro.Schema{Type: "array", ObjectForm: true, Items: item("pfa")}},
		{Name: "tail", Type: long()}}}
	L := gen.Leaf
	it := func() *gen.T {
		// omitempty: the zero value of these plain fields is written as null
		return gen.StructOf(gen.Fld("Count", "count", true, L(gen.KInt64)), gen.Fld("Level", "level", false, L(gen.KFloat64)),
			gen.Fld("Flag", "flag", true, L(gen.KBool)), gen.Fld("Ratio", "ratio", r.IntN(2) == 0, L(gen.KFloat64)), gen.Fld("N", "n", false, L(gen.KInt64)))
	}
	t := gen.StructOf(gen.Fld("M", "m", false, gen.MapOf(it())), gen.Fld("A", "a", false, gen.SliceOf(it())), gen.Fld("Tail", "tail", false, L(gen.KInt64)))
	return ds, t
}

func runC13(c *core.Ctx, i int) {
	r := c.Rand(i, 0)
	if i%2000 == 11 {
		c13hugeArrays(c, r)
	}
	ds := gen.GenDataSchema(r, gen.DataOpts{CallerMode: true, MaxDepth: 1 + r.IntN(3)})
	if i%8 == 5 {
		ds = gen.GenFixedWidthSchema(r) // records of float/double/fixed only
		c.Count("fixed-width-only-schemas", 1)
	}
	t := ds.Target(r, ds.S, gen.TargetOpts{PlainNullPrimOnly: true, OmitTags: true})
	if i%16 == 9 {
		// maps and arrays of small records held by value whose fields are numbers and booleans only, some of them
		// nullable and covered by plain Go fields (a null leaves the zero value)
		ds, t = c13pointerFree(r)
		c.Count("pointer-free-record-collections", 1)
	}
	if i%3 == 2 {
		// the Go struct lists its fields in another order than the caller's schema does
		t = gen.Permute(r, t)
		c.Count("permuted-targets", 1)
	}
	rt := t.RT()
	c.Journal(c.CurCase(), "schema="+trunc(ds.S.JSON(), 300))
	codec, err := buildLibCodec(ds.S, rt)
	c.Eval(1)
	if err != nil {
		c.Count("build-refused", 1)
		c.Violate("build", fmt.Sprintf("codec refused for a covering, compatible Go type: %v\n schema %s\n type %s", err, ds.S.JSON(), t), map[string]any{"schema": ds.S.JSON(), "type": t.String()})
		return
	}
	c.Count("built", 1)
	cellsOf(c, ds.S, t)
	rb := avro.NewReadBuf(nil)
	wb := avro.NewWriteBuf(nil)
	nvals := 8
	ok := 0
	for k := 0; k < nvals; k++ {
		d0 := ds.GenDatum(r, ds.S, gen.DatumOpts{}, nil)
		v := reflect.New(rt).Elem()
		if err := model.FillFromDatum(ds.S, d0, t, v); err != nil {
			if err == model.ErrNoFit || err == model.ErrInexact {
				c.Count("value-outside-range", 1)
				continue
			}
			c.Violate("harness", err.Error()+" schema "+ds.S.JSON()+" type "+t.String(), nil)
			return
		}
		rep := map[string]any{"schema": ds.S.JSON(), "type": t.String(), "value": trunc(model.RenderValue(t, v), 1000)}
		wb.Reset()
		codec.Write(wb, unsafe.Pointer(v.UnsafeAddr()))
		enc := append([]byte{}, wb.Bytes()...)
		rep["written_hex"] = hex.EncodeToString(enc)
		c.Eval(1)
		got, derr := refavro.DecodeAll(ds.S, enc, 1)
		if derr != nil {
			c.Violate("invalid-encoding", fmt.Sprintf("bytes written are not a valid encoding under the schema: %v\n schema %s\n type %s\n value %s\n bytes %x", derr, ds.S.JSON(), t, trunc(model.RenderValue(t, v), 400), enc), rep)
			return
		}
		if df := model.MatchUnder(ds.S, t, v, false, got[0], "value"); df != "" {
			c.Violate("wrong-datum", fmt.Sprintf("%s\n schema %s\n type %s\n value %s", df, ds.S.JSON(), t, trunc(model.RenderValue(t, v), 400)), rep)
			return
		}
		back := reflect.New(rt).Elem()
		rb.Reset(enc)
		if err := codec.Read(rb, unsafe.Pointer(back.UnsafeAddr())); err != nil {
			c.Violate("read-back", fmt.Sprintf("decoding the codec's own output failed: %v\n schema %s\n type %s", err, ds.S.JSON(), t), rep)
			return
		}
		if rb.Len() != 0 {
			c.Violate("read-back", fmt.Sprintf("decoding the codec's own output left %d bytes\n schema %s\n type %s", rb.Len(), ds.S.JSON(), t), rep)
			return
		}
		if df := model.EqualNorm(t, v, back, false, "value"); df != "" {
			c.Violate("not-inverse", fmt.Sprintf("%s\n schema %s\n type %s\n wrote %s\n read  %s", df, ds.S.JSON(), t, trunc(model.RenderValue(t, v), 400), trunc(model.RenderValue(t, back), 400)), rep)
			return
		}
		ok++
	}
	if ok > 0 {
		c.Shape(ds.S.Shape() + "|" + t.Shape())
		c.Sample(map[string]any{"schema": trunc(ds.S.JSON(), 300), "type": trunc(t.String(), 300), "values": ok})
	}
}

func init() {
	core.Register(&core.Prop{
		ID:        "C13",
		Level:     "exploration",
		Technique: "runtime monitoring: codecs built from generated caller schemas are driven over in-range values; written bytes are decoded by the independent reference decoder (strict, exact consumption) and compared with the value's datum, then read back through the codec",
		Rule: "caller-mode schema (unions with null first and second, int/long/float/double, logical date/timestamp types, fixed, nested records/arrays/maps) + covering Go target (integer widths, float widths, pointers, time.Time and null.* wrappers) + 8 in-range values each, all from (VERIF_SEED, i); one case in three permutes the Go struct's fields against the schema order; one in eight uses records of float/double/fixed fields only; " +
			"distinct_nontrivial = distinct (schema shape, Go type shape) pairings for which a codec was built and at least one value written and read back",
		Explanation: "Values are produced by decoding a generated datum with the model (so they are inside the schema type's range by construction); the reference decoder must consume exactly the bytes written and yield the datum the model assigns to the value (null position honoured, logical types by the specification's meaning); Codec.Read of those bytes must give the value back.",
		Assumptions: []string{"a quarter of the struct fields carry omitempty (zero non-pointer values under a union are then expected as null); nil pointers occur only under a union; single-/multi-branch unions (explicitly unimplemented on the write side) are not generated"},
		Modes: func(tier string) []core.Mode {
			m := []core.Mode{{Name: "plain", Variant: "plain"}, {Name: "checkptr", Variant: "checkptr", CaseDiv: 4}}
			if tier == "thorough" {
				m = append(m, core.Mode{Name: "asan", Variant: "asan", CaseDiv: 8, NoRlimit: true})
			}
			return m
		},
		NumCases: func(c *core.Ctx) int { return c.Pick(24000, 600000) },
		Run:      runC13,
		Floors: func(a *core.Agg) []string {
			var u []string
			if len(a.Shapes) < 300 {
				u = append(u, fmt.Sprintf("distinct pairings %d < 300", len(a.Shapes)))
			}
			for _, cell := range []string{"union-null0", "union-null1", "intxint16", "intxint32", "intxint64", "intxint", "longxint16", "longxint32", "longxint64", "longxint",
				"floatxfloat32", "doublexfloat64", "doublexfloat32", "int/datextime.Time", "long/timestamp-millisxtime.Time", "long/timestamp-microsxtime.Time",
				"longxnull.Int", "intxnull.Int", "floatxnull.Float", "doublexnull.Float", "stringxtime.Time", "stringxnull.Time", "stringxnull.String", "booleanxnull.Bool"} {
				if a.C("cell."+cell) < 5 {
					u = append(u, fmt.Sprintf("cell %s seen %d < 5", cell, a.C("cell."+cell)))
				}
			}
			return u
		},
	})
}
