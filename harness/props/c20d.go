package props

import (
	"fmt"
	"math/rand/v2"
	"reflect"
	"sync"
	"sync/atomic"
	"unsafe"

	"github.com/philpearl/avro"

	"verifharness/core"
	"verifharness/refavro"
)

// C20, many registrations at once. Programs register their types from package init functions and, in tests and
// plug-in style code, from several goroutines. Every registration that has returned governs its type: eight
// goroutines leave a barrier and each register a codec builder and a schema for six brand-new types of their
// own; once all have returned every one of the 48 types must be governed by its own builder (values are
// transformed by an id-specific xor, so the reference encoding shows which codec ran), its registered schema
// must be what schema generation emits, and a type that was never registered stays an ordinary record.

type c20idCodec struct {
	id  int64
	typ reflect.Type
}

func (c c20idCodec) Read(r *avro.ReadBuf, p unsafe.Pointer) error {
	v, err := r.Varint()
	*(*int64)(p) = v ^ c.id
	return err
}
func (c c20idCodec) Skip(r *avro.ReadBuf) error               { _, err := r.Varint(); return err }
func (c c20idCodec) New(r *avro.ReadBuf) unsafe.Pointer       { return r.Alloc(c.typ) }
func (c c20idCodec) Omit(p unsafe.Pointer) bool               { return false }
func (c c20idCodec) Write(w *avro.WriteBuf, p unsafe.Pointer) { w.Varint(*(*int64)(p) ^ c.id) }

var c20freshSeq atomic.Int64

func c20concurrentRegistrations(c *core.Ctx, r *rand.Rand) {
	const G, K = 8, 6
	type reg struct {
		t  reflect.Type
		id int64
	}
	regs := make([][]reg, G)
	for g := range regs {
		for j := 0; j < K; j++ {
			seq := c20freshSeq.Add(1)
			t := reflect.StructOf([]reflect.StructField{{Name: fmt.Sprintf("V%d", seq), Type: reflect.TypeOf(int64(0)), Tag: reflect.StructTag(fmt.Sprintf(`json:"v%d"`, seq))}})
			regs[g] = append(regs[g], reg{t, 1000 + seq})
		}
	}
	seq := c20freshSeq.Add(1)
	plain := reflect.StructOf([]reflect.StructField{{Name: fmt.Sprintf("V%d", seq), Type: reflect.TypeOf(int64(0)), Tag: reflect.StructTag(fmt.Sprintf(`json:"v%d"`, seq))}})
	var ready atomic.Int32
	var wg sync.WaitGroup
	stagger := make([]int, G)
	for g := range stagger {
		stagger[g] = r.IntN(200)
	}
	for g := 0; g < G; g++ {
		wg.Add(1)
		go func(mine []reg, spin int) {
			defer wg.Done()
			ready.Add(1)
			for ready.Load() < G {
			}
			for k := 0; k < spin; k++ {
				_ = ready.Load()
			}
			for _, x := range mine {
				id, t := x.id, x.t
				avro.Register(t, func(s avro.Schema, typ reflect.Type, omit bool) (avro.Codec, error) {
					if s.Type != "long" {
						return nil, fmt.Errorf("id codec %d under %q", id, s.Type)
					}
					return c20idCodec{id: id, typ: t}, nil
				})
				avro.RegisterSchema(t, avro.Schema{Type: "long", Object: &avro.SchemaObject{LogicalType: fmt.Sprintf("id-%d", id)}})
			}
		}(regs[g], stagger[g])
	}
	wg.Wait()
	rb := avro.NewReadBuf(nil)
	wb := avro.NewWriteBuf(nil)
	check := func(t reflect.Type, id int64, registered bool) bool {
		holder := reflect.StructOf([]reflect.StructField{
			{Name: "H", Type: t, Tag: `json:"h"`},
			{Name: "S", Type: reflect.SliceOf(t), Tag: `json:"s"`},
			{Name: "P", Type: reflect.PointerTo(t), Tag: `json:"p"`},
		})
		c.Eval(1)
		gs, err := avro.SchemaForType(reflect.New(holder).Elem().Interface())
		if err != nil {
			c.Violate("schema", fmt.Sprintf("schema generation fails for a holder of a type registered concurrently with %d others: %v", G*K-1, err), nil)
			return false
		}
		f0 := gs.Object.Fields[0].Type
		if registered {
			if f0.Type != "long" || f0.Object == nil || f0.Object.LogicalType != fmt.Sprintf("id-%d", id) {
				js, _ := gs.Marshal()
				c.Violate("schema", fmt.Sprintf("the schema registered for a type (while %d other registrations were running) is not what schema generation emits: want long/id-%d, got %s", G*K-1, id, trunc(string(js), 300)), nil)
				return false
			}
		} else if f0.Type != "record" {
			c.Violate("unregistered-affected", fmt.Sprintf("a type that was never registered no longer maps to a record: %q", f0.Type), nil)
			return false
		}
		item := `"long"`
		if !registered {
			item = fmt.Sprintf(`{"type":"record","name":"pl","fields":[{"name":"%s","type":"long"}]}`, t.Field(0).Tag.Get("json"))
		}
		ls, err := avro.SchemaFromString(fmt.Sprintf(`{"type":"record","name":"r","fields":[{"name":"h","type":%[1]s},{"name":"s","type":{"type":"array","items":%[1]s}},{"name":"p","type":["null",%[1]s]}]}`, item))
		if err != nil {
			c.Violate("harness", err.Error(), nil)
			return false
		}
		codec, err := ls.Codec(reflect.New(holder).Elem().Interface())
		if err != nil {
			what := "the registered builder was not consulted"
			if !registered {
				what = "a type that was never registered is no longer an ordinary record"
			}
			c.Violate("not-governed", fmt.Sprintf("after %d concurrent registrations: %s: %v", G*K, what, err), nil)
			return false
		}
		a, b, d := int64(r.IntN(1<<20)), int64(r.IntN(1<<20)), int64(r.IntN(1<<20))
		in := refavro.AppendLong(nil, a)
		in = refavro.AppendLong(refavro.AppendLong(refavro.AppendLong(in, 1), b), 0)
		in = refavro.AppendLong(refavro.AppendLong(in, 1), d)
		v := reflect.New(holder)
		rb.Reset(in)
		if err := codec.Read(rb, v.UnsafePointer()); err != nil || rb.Len() != 0 {
			c.Violate("not-governed", fmt.Sprintf("after %d concurrent registrations: decoding a holder fails: %v", G*K, err), nil)
			return false
		}
		x := int64(0)
		if registered {
			x = id
		}
		e := v.Elem()
		if e.Field(1).Len() != 1 || e.Field(2).IsNil() || e.Field(0).Field(0).Int() != a^x || e.Field(1).Index(0).Field(0).Int() != b^x || e.Field(2).Elem().Field(0).Int() != d^x {
			c.Violate("not-governed", fmt.Sprintf("after %d concurrent registrations the type with builder %d (registered=%v) decodes wire values %d,%d,%d as %v: its own codec did not run in every position", G*K, id, registered, a, b, d, e.Interface()), nil)
			return false
		}
		wb.Reset()
		codec.Write(wb, v.UnsafePointer())
		v2 := reflect.New(holder)
		rb.Reset(append([]byte{}, wb.Bytes()...))
		if err := codec.Read(rb, v2.UnsafePointer()); err != nil || !reflect.DeepEqual(v.Elem().Interface(), v2.Elem().Interface()) {
			c.Violate("not-governed", fmt.Sprintf("after %d concurrent registrations a holder does not round-trip through its codec: %v", G*K, err), nil)
			return false
		}
		rb.ExtractResourceBank().Close()
		return true
	}
	for g := range regs {
		for _, x := range regs[g] {
			if !check(x.t, x.id, true) {
				return
			}
		}
	}
	if !check(plain, 0, false) {
		return
	}
	c.Count("concurrent-registrations", G*K)
}
