// Package props holds one file per property: workload, monitors, oracle.
package props
