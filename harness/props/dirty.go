package props

import (
	"math/rand/v2"
	"os"
	"reflect"
	"sync"

	"verifharness/core"
	"verifharness/gen"
	"verifharness/lib"
)

// Dirty values for lib.DirtyValue: one arbitrary, fully populated value per record type (cached; built from
// the reflect type, so it works for generated and static types alike).
var dirtyCache sync.Map // reflect.Type -> reflect.Value (invalid Value when the type cannot be populated)

func init() {
	core.OnCaseStart = append(core.OnCaseStart, gen.ResetState)
	if os.Getenv("VERIF_NODIRTY") != "" { // diagnostic switch (timing comparisons only)
		return
	}
	lib.DirtyValue = func(rt reflect.Type) (v reflect.Value, ok bool) {
		if c, hit := dirtyCache.Load(rt); hit {
			v = c.(reflect.Value)
			return v, v.IsValid()
		}
		func() {
			defer func() {
				if recover() != nil {
					v = reflect.Value{}
				}
			}()
			t := gen.FromReflect(rt)
			r := rand.New(rand.NewPCG(0xd1e7, 0x5eed))
			v = gen.NewValue(r, t, gen.ValOpts{Mode: gen.ModeFull, NoBigStrings: true, MaxMapEntries: 2, NoInnerNil: true})
			if v.Type() != rt {
				v = reflect.Value{}
			}
		}()
		dirtyCache.Store(rt, v)
		return v, v.IsValid()
	}
}
