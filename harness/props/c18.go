package props

import (
	"fmt"
	"math/rand/v2"
	"os"
	"strings"
	"time"
	_ "time/tzdata"
	"unsafe"

	"github.com/philpearl/avro"
	avrotime "github.com/philpearl/avro/time"
	"github.com/unravelin/null/v5"

	"verifharness/core"
	"verifharness/gen"
	"verifharness/lib"
	"verifharness/refavro"
)

// C18 — timestamp parsing agrees with the standard library on RFC 3339.

// libParse feeds text to the exported time.StringCodec (the parser itself is unexported).
func libParse(rb *avro.ReadBuf, s string) (t time.Time, err error, panicked any) {
	defer func() {
		if r := recover(); r != nil {
			panicked = r
		}
	}()
	data := refavro.AppendLong(make([]byte, 0, len(s)+3), int64(len(s)))
	data = append(data, s...)
	rb.Reset(data)
	err = avrotime.StringCodec{}.Read(rb, unsafe.Pointer(&t))
	return
}

// libParseShared is libParse with the message built in one buffer that is used again for every text, the way a
// caller decodes message after message out of one receive buffer: the previous text is overwritten in place by
// the next one (at the same address, and for texts of equal length at the same offsets), and after every third
// call the buffer no longer holds the text at all.
var c18msg = make([]byte, 0, 4096)
var c18msgTick int

func libParseShared(rb *avro.ReadBuf, s string) (t time.Time, err error, panicked any) {
	defer func() {
		if r := recover(); r != nil {
			panicked = r
		}
		if c18msgTick++; c18msgTick%3 == 0 {
			for i := range c18msg {
				c18msg[i] = '9'
			}
		}
	}()
	c18msg = append(refavro.AppendLong(c18msg[:0], int64(len(s))), s...)
	rb.Reset(c18msg)
	err = avrotime.StringCodec{}.Read(rb, unsafe.Pointer(&t))
	return
}

var c18rb *avro.ReadBuf
var c18first bool

func two(n int) string { return fmt.Sprintf("%02d", n) }

// genRFC3339 produces a string matching the RFC 3339 date-time grammar (two
// digit fields); field values may be out of range so that stdlib acceptance
// decides the domain.
func genRFC3339(r *rand.Rand) string {
	var b strings.Builder
	year := 0
	switch r.IntN(6) {
	case 0:
		year = []int{0, 1, 2, 1969, 1970, 1971, 1999, 2000, 2024, 2038, 9998, 9999}[r.IntN(12)]
	default:
		year = r.IntN(10000)
	}
	mon := 1 + r.IntN(12)
	day := 1 + r.IntN(28)
	hour, min, sec := r.IntN(24), r.IntN(60), r.IntN(60)
	if r.IntN(6) == 0 {
		// boundary values, possibly invalid
		mon = []int{0, 1, 2, 12, 13}[r.IntN(5)]
		day = []int{0, 1, 28, 29, 30, 31, 32}[r.IntN(7)]
		hour = []int{0, 23, 24}[r.IntN(3)]
		min = []int{0, 59, 60}[r.IntN(3)]
		sec = []int{0, 59, 60, 61}[r.IntN(4)]
	}
	fmt.Fprintf(&b, "%04d-%s-%sT%s:%s:%s", year, two(mon), two(day), two(hour), two(min), two(sec))
	if r.IntN(3) != 0 {
		if r.IntN(3) == 0 {
			b.WriteByte(',')
		} else {
			b.WriteByte('.')
		}
		n := 1 + r.IntN(12)
		switch r.IntN(10) {
		case 0, 1:
			n = 1 + r.IntN(30)
		case 2:
			n = 31 + r.IntN(120) // texts of 64 bytes and more: the length prefix needs two bytes
		}
		for k := 0; k < n; k++ {
			d := byte('0' + r.IntN(10))
			if r.IntN(6) == 0 {
				d = '0'
			} else if r.IntN(8) == 0 {
				d = '9'
			}
			b.WriteByte(d)
		}
	}
	switch r.IntN(5) {
	case 0, 1:
		b.WriteByte('Z')
	default:
		if r.IntN(2) == 0 {
			b.WriteByte('+')
		} else {
			b.WriteByte('-')
		}
		zh, zm := r.IntN(24), r.IntN(60)
		if r.IntN(8) == 0 {
			zh = []int{0, 23, 24}[r.IntN(3)]
			zm = []int{0, 59, 60}[r.IntN(3)]
		}
		b.WriteString(two(zh) + ":" + two(zm))
	}
	return b.String()
}

// genNearDST: timestamps within hours of a daylight-saving transition of the process's local zone (if it has
// any), carrying the offset of either side of the transition.
func genNearDST(r *rand.Rand) string {
	year := 2000 + r.IntN(40)
	// second Sunday of March / first Sunday of November (US rules), last Sunday of March / October (EU rules)
	var month time.Month
	var day int
	switch r.IntN(4) {
	case 0:
		month, day = time.March, 8+int((7-time.Date(year, time.March, 8, 0, 0, 0, 0, time.UTC).Weekday())%7)
	case 1:
		month, day = time.November, 1+int((7-time.Date(year, time.November, 1, 0, 0, 0, 0, time.UTC).Weekday())%7)
	case 2:
		month, day = time.March, 31-int(time.Date(year, time.March, 31, 0, 0, 0, 0, time.UTC).Weekday())
	default:
		month, day = time.October, 31-int(time.Date(year, time.October, 31, 0, 0, 0, 0, time.UTC).Weekday())
	}
	off := []string{"-04:00", "-05:00", "+01:00", "+02:00", "+00:00", "Z", "-08:00", "-07:00"}[r.IntN(8)]
	frac := ""
	if r.IntN(2) == 0 {
		frac = fmt.Sprintf(".%d", r.IntN(1000))
	}
	return fmt.Sprintf("%04d-%02d-%02dT%02d:%02d:%02d%s%s", year, month, day-1+r.IntN(3), r.IntN(24), r.IntN(60), r.IntN(60), frac, off)
}

func sameTime(a, b time.Time) bool {
	_, oa := a.Zone()
	_, ob := b.Zone()
	return a.Equal(b) && oa == ob
}

func fractionLen(s string) int {
	i := strings.IndexAny(s, ".,")
	if i < 0 {
		return 0
	}
	n := 0
	for j := i + 1; j < len(s) && s[j] >= '0' && s[j] <= '9'; j++ {
		n++
	}
	return n
}

func c18Grammar(c *core.Ctx, r *rand.Rand, n int) {
	for k := 0; k < n; k++ {
		s := genRFC3339(r)
		if k%8 == 7 {
			s = genNearDST(r)
		}
		c.Journal(c.CurCase(), "s="+s)
		want, err := time.Parse(time.RFC3339, s)
		if err != nil && strings.Contains(s, ",") {
			want, err = time.Parse(time.RFC3339, strings.Replace(s, ",", ".", 1))
		}
		got, lerr, p := libParseShared(c18rb, s)
		c.Eval(1)
		if p != nil {
			c.Violate("panic", fmt.Sprintf("parsing %q panicked: %v", s, p), map[string]any{"s": s})
			continue
		}
		if err != nil {
			c.Count("grammar.stdlib-rejects", 1)
			continue // outside the domain; only the no-panic clause applies
		}
		c.Count("grammar.stdlib-accepts", 1)
		c.Count(fmt.Sprintf("fraclen.%d", fractionLen(s)), 1)
		if len(s) >= 64 {
			c.Count("fraclen.long", 1)
		}
		c.Shape(fmt.Sprintf("frac%d-zone%c-sep%v", fractionLen(s), s[len(s)-6], strings.Contains(s, ",")))
		if lerr != nil {
			c.Violate("rejects-valid", fmt.Sprintf("%q is accepted by time.Parse(RFC3339) but the library fails: %v", s, lerr), map[string]any{"s": s})
			continue
		}
		if !sameTime(got, want) {
			c.Violate("instant", fmt.Sprintf("%q: library %s, standard library %s", s, got.Format(time.RFC3339Nano), want.Format(time.RFC3339Nano)), map[string]any{"s": s})
		}
	}
}

// c18Sequences: the parser must be a function of the string alone. Sequences are built to expose state
// remembered between calls: a base timestamp A; neighbours B that differ from A in exactly one component
// by +-2^k (what an aliasing cache key or a truncated field drops) and therefore have A's length; repeats
// (A, A); and the read buffer's bank closed between reads so that memory a cache may have kept is recycled.
func c18Sequences(c *core.Ctx, r *rand.Rand, n int) {
	type comp [10]int // year mon day hour min sec zoneSign zh zm fracSeed
	limits := [9][2]int{{0, 9999}, {1, 12}, {1, 28}, {0, 23}, {0, 59}, {0, 59}, {0, 1}, {0, 23}, {0, 59}}
	for k := 0; k < n; k++ {
		var base comp
		for f := range limits {
			base[f] = limits[f][0] + r.IntN(limits[f][1]-limits[f][0]+1)
		}
		nf := r.IntN(11)
		frac := ""
		for d := 0; d < nf; d++ {
			frac += string(rune('0' + r.IntN(10)))
		}
		form := r.IntN(8) // 0: date only; 1: Z; else numeric offset
		render := func(x comp) string {
			if form == 0 {
				return fmt.Sprintf("%04d-%02d-%02d", x[0], x[1], x[2])
			}
			s := fmt.Sprintf("%04d-%02d-%02dT%02d:%02d:%02d", x[0], x[1], x[2], x[3], x[4], x[5])
			if nf > 0 {
				s += "." + frac
			}
			if form == 1 {
				return s + "Z"
			}
			return s + fmt.Sprintf("%c%02d:%02d", "+-"[x[6]], x[7], x[8])
		}
		check := func(s, where string) bool {
			c.Journal(c.CurCase(), "seq s="+s)
			var want time.Time
			var err error
			if form == 0 {
				want, err = time.Parse("2006-01-02", s)
			} else {
				want, err = time.Parse(time.RFC3339, s)
			}
			got, lerr, p := libParseShared(c18rb, s)
			c.Eval(1)
			c.Count("sequence.parses", 1)
			if p != nil {
				c.Violate("panic", fmt.Sprintf("parsing %q panicked: %v", s, p), map[string]any{"s": s})
				return false
			}
			if err != nil {
				return true
			}
			if lerr != nil {
				c.Violate("rejects-valid", fmt.Sprintf("%q (%s) is accepted by the standard library but the library fails: %v", s, where, lerr), map[string]any{"s": s})
				return false
			}
			if !sameTime(got, want) {
				c.Violate("instant", fmt.Sprintf("%q (%s): library %s, standard library %s", s, where, got.Format(time.RFC3339Nano), want.Format(time.RFC3339Nano)), map[string]any{"s": s})
				return false
			}
			return true
		}
		closeBank := func() { c18rb.ExtractResourceBank().Close() }
		A := render(base)
		f := r.IntN(9)
		if form == 0 {
			f = r.IntN(3)
		}
		for j := 0; j < 14; j++ {
			for _, sign := range []int{1, -1} {
				m := base
				m[f] = base[f] + sign*(1<<j)
				if m[f] < limits[f][0] || m[f] > limits[f][1] {
					continue
				}
				B := render(m)
				c.Count("sequence.neighbour-pairs", 1)
				ok := check(A, "base") && check(A, "base again")
				if ok && r.IntN(2) == 0 {
					closeBank()
				}
				ok = ok && check(B, "after its neighbour "+A) && check(B, "again") && check(A, "after its neighbour "+B)
				if !ok {
					return
				}
				if r.IntN(2) == 0 {
					closeBank()
				}
			}
		}
	}
}

// c18UsedDestinations: the destination of a decode is just memory; that it already holds a time (in a named
// zone whose offset happens to equal the one in the text) has no bearing on what the text means.
func c18UsedDestinations(c *core.Ctx, r *rand.Rand, n int) {
	var zones []*time.Location
	for _, name := range []string{"America/New_York", "Europe/Berlin", "Australia/Lord_Howe", "Europe/Lisbon", "America/St_Johns", "Asia/Kolkata"} {
		if z, err := time.LoadLocation(name); err == nil {
			zones = append(zones, z)
		}
	}
	if len(zones) == 0 {
		c.Inconclusive("no time zone database: used-destination cases not run")
		return
	}
	rb := avro.NewReadBuf(nil)
	for k := 0; k < n; k++ {
		z := zones[r.IntN(len(zones))]
		t1 := time.Unix(int64(r.IntN(4e9))-1e9, int64(r.IntN(1e9))).In(z)
		_, off1 := t1.Zone()
		t2 := t1.Add(time.Duration(30+r.IntN(300)) * 24 * time.Hour).In(time.FixedZone("", off1))
		s := t2.Format(time.RFC3339Nano)
		c.Journal(c.CurCase(), "used-destination s="+s+" dest="+t1.String())
		want, err := time.Parse(time.RFC3339, s)
		if err != nil {
			continue
		}
		dest := t1
		data := append(refavro.AppendLong(make([]byte, 0, len(s)+3), int64(len(s))), s...)
		rb.Reset(data)
		var pan any
		var lerr error
		func() {
			defer func() { pan = recover() }()
			lerr = avrotime.StringCodec{}.Read(rb, unsafe.Pointer(&dest))
		}()
		c.Eval(1)
		c.Count("used-destination.parses", 1)
		if pan != nil || lerr != nil {
			c.Violate("rejects-valid", fmt.Sprintf("%q decoded into a destination that held %s: err=%v panic=%v", s, t1, lerr, pan), map[string]any{"s": s})
			return
		}
		if !sameTime(dest, want) {
			c.Violate("instant", fmt.Sprintf("%q decoded into a destination that held %s: library %s, standard library %s", s, t1, dest.Format(time.RFC3339Nano), want.Format(time.RFC3339Nano)), map[string]any{"s": s})
			return
		}
	}
}

func c18RoundTrip(c *core.Ctx, r *rand.Rand, n int) {
	wb := avro.NewWriteBuf(nil)
	for k := 0; k < n; k++ {
		t := gen.Time(r, gen.ValOpts{Mode: gen.ModeFull})
		s := t.Format(time.RFC3339Nano)
		c.Journal(c.CurCase(), "t="+s)
		c.Eval(1)
		got, lerr, p := libParseShared(c18rb, s)
		if p != nil || lerr != nil || !sameTime(got, t) {
			c.Violate("format-parse", fmt.Sprintf("time %s formatted as %q parses to %s err=%v panic=%v", t, s, got.Format(time.RFC3339Nano), lerr, p), map[string]any{"s": s})
			continue
		}
		// also through the codec's own Write
		wb.Reset()
		avrotime.StringCodec{}.Write(wb, unsafe.Pointer(&t))
		c18rb.Reset(wb.Bytes())
		var back time.Time
		if err := (avrotime.StringCodec{}).Read(c18rb, unsafe.Pointer(&back)); err != nil || !sameTime(back, t) || c18rb.Len() != 0 {
			c.Violate("codec-roundtrip", fmt.Sprintf("time %s through StringCodec Write/Read gave %s err=%v", s, back.Format(time.RFC3339Nano), err), map[string]any{"s": s})
		}
		c.Count("roundtrip", 1)
	}
}

const c18subst = "0123456789.,:+-TZ tz"

func c18NoPanic(c *core.Ctx, r *rand.Rand, n int) {
	try := func(s string) {
		c.Journal(c.CurCase(), fmt.Sprintf("m=%q", s))
		_, _, p := libParse(c18rb, s)
		c.Eval(1)
		c.Count("nopanic.inputs", 1)
		if p != nil {
			c.Violate("panic", fmt.Sprintf("parsing %q panicked: %v", s, p), map[string]any{"s": s})
		}
	}
	for k := 0; k < n; k++ {
		s := genRFC3339(r)
		if k%64 == 0 {
			// a run of one filler byte after the text, of every awkward length
			for _, m := range []int{1, 2, 8, 31, 32, 33, 47, 48, 49, 50, 64, 100, 256, 1000} {
				for _, fill := range []byte{0x80, 0xbf, 0xff, 0x00, ' ', 'x', '0', 'Z', 0xc3, '+'} {
					try(s + strings.Repeat(string([]byte{fill}), m))
				}
			}
		}
		switch r.IntN(6) {
		case 0: // every prefix
			for j := 0; j <= len(s); j++ {
				try(s[:j])
			}
		case 1: // single-character substitution
			b := []byte(s)
			b[r.IntN(len(b))] = c18subst[r.IntN(len(c18subst))]
			try(string(b))
		case 2: // trailing separators / garbage
			try(s[:19] + []string{".", ",", ".Z", ",", "..", ".+", ".-", "+", "-", ".5", ",5"}[r.IntN(11)])
			try(s + []string{".", ",", "Z", "x", " ", "+00:00"}[r.IntN(6)])
		case 3: // deletion
			j := r.IntN(len(s))
			try(s[:j] + s[j+1:])
		case 4: // random bytes
			b := make([]byte, r.IntN(40))
			for j := range b {
				b[j] = byte(r.IntN(256))
			}
			try(string(b))
		case 5: // insertion
			j := r.IntN(len(s) + 1)
			try(s[:j] + string(c18subst[r.IntN(len(c18subst))]) + s[j:])
		}
	}
}

func c18Dates(c *core.Ctx, y0, y1 int) {
	for y := y0; y < y1; y++ {
		for m := 1; m <= 12; m++ {
			for d := 1; d <= 31; d++ {
				s := fmt.Sprintf("%04d-%02d-%02d", y, m, d)
				want, err := time.Parse("2006-01-02", s)
				if err != nil {
					continue
				}
				got, lerr, p := libParseShared(c18rb, s)
				c.Eval(1)
				c.Count("dates", 1)
				if p != nil || lerr != nil || !sameTime(got, want) {
					c.Violate("date-only", fmt.Sprintf("date %q: library %s err=%v panic=%v, want midnight UTC %s", s, got.Format(time.RFC3339Nano), lerr, p, want.Format(time.RFC3339Nano)), map[string]any{"s": s})
				}
			}
		}
	}
}

type c18Rec struct {
	T time.Time `json:"t"`
	N null.Time `json:"n"`
}

// c18ViaReadFile drives the parser through time.Time / null.Time fields of a file.
func c18ViaReadFile(c *core.Ctx, r *rand.Rand, n int) {
	sch, _ := refavro.ParseSchema([]byte(`{"type":"record","name":"r","fields":[{"name":"t","type":"string"},{"name":"n","type":["null","string"]}]}`))
	var recs []any
	var want []time.Time
	for len(recs) < n {
		s := genRFC3339(r)
		w, err := time.Parse(time.RFC3339, strings.Replace(s, ",", ".", 1))
		if err != nil {
			continue
		}
		recs = append(recs, &refavro.Record{Fields: []any{s, &refavro.Union{Branch: 1, Val: s}}})
		want = append(want, w)
	}
	file, err := refavro.WriteContainer([]byte(sch.JSON()), sch, [][]any{recs}, nil, refavro.WriteOpts{Codec: "null"})
	if err != nil {
		c.Violate("harness", err.Error(), nil)
		return
	}
	var got []c18Rec
	err = avro.ReadFile(bytesReader(file), c18Rec{}, func(val unsafe.Pointer, rb *avro.ResourceBank) error {
		got = append(got, *(*c18Rec)(val))
		return nil
	})
	c.Eval(n)
	if err != nil || len(got) != n {
		c.Violate("readfile", fmt.Sprintf("ReadFile over %d valid timestamps: %d records, err=%v", n, len(got), err), nil)
		return
	}
	for k := range got {
		if !sameTime(got[k].T, want[k]) || !got[k].N.Valid || !sameTime(got[k].N.Time, want[k]) {
			c.Violate("readfile", fmt.Sprintf("timestamp %v through ReadFile: time.Time=%s null.Time=%+v want %s", recs[k].(*refavro.Record).Fields[0], got[k].T.Format(time.RFC3339Nano), got[k].N, want[k].Format(time.RFC3339Nano)), nil)
			return
		}
	}
	c.Count("via-readfile", int64(n))
}

// c18FieldSweep: every two-digit field of a timestamp takes every value 00..99 (one field at a time), and the
// pairs (zone hour, zone minute) with either sign, (hour, minute) and (month, day) take all 10^4 combinations.
// Where the standard library accepts the text the library must agree; everywhere else it must not panic.
func c18FieldSweep(c *core.Ctx, r *rand.Rand) {
	base := []int{1 + r.IntN(12), 1 + r.IntN(28), r.IntN(24), r.IntN(60), r.IntN(60), r.IntN(24), r.IntN(60)}
	year := []int{0, 1, 1970, 2000, 2024, 9999}[r.IntN(6)]
	frac := []string{"", ".5", ",25", ".123456789"}[r.IntN(4)]
	try := func(f []int, sign byte) bool {
		s := fmt.Sprintf("%04d-%02d-%02dT%02d:%02d:%02d%s%c%02d:%02d", year, f[0], f[1], f[2], f[3], f[4], frac, sign, f[5], f[6])
		c.Journal(c.CurCase(), "sweep s="+s)
		want, err := time.Parse(time.RFC3339, strings.Replace(s, ",", ".", 1))
		got, lerr, p := libParseShared(c18rb, s)
		c.Eval(1)
		c.Count("sweep.inputs", 1)
		if p != nil {
			c.Violate("panic", fmt.Sprintf("parsing %q panicked: %v", s, p), map[string]any{"s": s})
			return false
		}
		if err != nil {
			return true
		}
		c.Count("sweep.stdlib-accepts", 1)
		if lerr != nil {
			c.Violate("rejects-valid", fmt.Sprintf("%q is accepted by time.Parse(RFC3339) but the library fails: %v", s, lerr), map[string]any{"s": s})
			return false
		}
		if !sameTime(got, want) {
			c.Violate("instant", fmt.Sprintf("%q: library %s, standard library %s", s, got.Format(time.RFC3339Nano), want.Format(time.RFC3339Nano)), map[string]any{"s": s})
			return false
		}
		return true
	}
	for fi := range base {
		for v := 0; v < 100; v++ {
			f := append([]int{}, base...)
			f[fi] = v
			if !try(f, "+-"[v%2]) {
				return
			}
		}
	}
	for _, pair := range [][2]int{{5, 6}, {2, 3}, {0, 1}} {
		for a := 0; a < 100; a++ {
			for b := 0; b < 100; b++ {
				f := append([]int{}, base...)
				f[pair[0]], f[pair[1]] = a, b
				if !try(f, '+') || (pair[0] == 5 && !try(f, '-')) {
					return
				}
			}
		}
	}
}

func runC18(c *core.Ctx, i int) {
	if c18rb == nil {
		c18rb = avro.NewReadBuf(nil)
		_ = lib.SchemaFor // registers codecs
		if tz := os.Getenv("VERIF_TZ"); tz != "" {
			loc, err := time.LoadLocation(tz)
			if err != nil {
				c.Inconclusive("time zone database entry not available: " + tz)
			} else {
				time.Local = loc
				c.Count("local-zone."+tz, 1)
			}
		}
	}
	if !c18first {
		// the very first parses of this (fresh) process: numeric zero offsets, then the edges of the year range with
		// offsets of both signs (the local fields are in range; the UTC instant may not be)
		c18first = true
		var edge []string
		for _, off := range []string{"+00:00", "-00:00", "+00:01", "-00:01", "+00:30", "-00:30", "+01:00", "-01:00", "+05:00", "-05:00", "+14:00", "-14:00", "+23:59", "-23:59", "Z"} {
			for _, lt := range []string{"0000-01-01T00:00:00", "0000-01-01T00:29:59.5", "0000-01-01T23:59:59", "0000-12-31T23:59:59", "9999-12-31T23:59:59.999999999", "9999-12-31T23:30:00", "9999-12-31T00:00:00", "9999-01-01T00:00:00", "0001-01-01T00:00:00", "1970-01-01T00:00:00", "1969-12-31T23:59:59.999999999"} {
				edge = append(edge, lt+off)
			}
		}
		for _, s := range edge {
			c.Journal(c.CurCase(), "edge s="+s)
			want, err := time.Parse(time.RFC3339, s)
			got, lerr, p := libParseShared(c18rb, s)
			c.Eval(1)
			c.Count("edge-strings", 1)
			if p != nil {
				c.Violate("panic", fmt.Sprintf("parsing %q (among the first parses of the process) panicked: %v", s, p), map[string]any{"s": s})
				return
			}
			if err != nil {
				continue
			}
			if lerr != nil {
				c.Violate("rejects-valid", fmt.Sprintf("%q is accepted by time.Parse(RFC3339) but the library fails: %v", s, lerr), map[string]any{"s": s})
				return
			}
			if !sameTime(got, want) {
				c.Violate("instant", fmt.Sprintf("%q: library %s, standard library %s", s, got.Format(time.RFC3339Nano), want.Format(time.RFC3339Nano)), map[string]any{"s": s})
				return
			}
		}
	}
	nDate := 100
	if i < nDate {
		c18Dates(c, i*100, i*100+100)
		c.Shape(fmt.Sprintf("dates-%d", i))
		return
	}
	r := c.Rand(i, 0)
	scale := c.Pick(1, 12)
	if i%8 == 4 {
		c18FieldSweep(c, r)
	}
	c18Grammar(c, r, 6000*scale)
	c18RoundTrip(c, r, 3000*scale)
	c18NoPanic(c, r, 1500*scale)
	c18ViaReadFile(c, r, 200)
	c18Sequences(c, r, 150*scale)
	c18UsedDestinations(c, r, 1500*scale)
	if i%16 == 0 {
		c.Sample(map[string]any{"grammar_example": genRFC3339(r), "roundtrip_example": gen.Time(r, gen.ValOpts{Mode: gen.ModeFull}).Format(time.RFC3339Nano)})
	}
}

func init() {
	core.Register(&core.Prop{
		ID:        "C18",
		Level:     "exploration",
		Technique: "runtime monitoring: differential oracle (Go standard library time.Parse) over grammar-generated RFC 3339 strings, every calendar date, format/parse round trips and hostile mutations, driven through the exported time codec and ReadFile",
		Rule: "grammar-generated RFC 3339 strings (two-digit fields, fraction lengths 1..30 with '.' or ',', Z or numeric offset, boundary/out-of-range field values) filtered by standard-library acceptance; every date 0000-01-01..9999-12-31; random time.Time values formatted with RFC3339Nano; prefix/substitution/insertion/deletion mutations for the no-panic clause; every value 00..99 of every two-digit field and all 10^4 combinations of (zone hour, zone minute) with either sign, (hour, minute) and (month, day); history sequences (A, A, [bank closed], B, B, A with B differing from A in one component by +-2^k, k = 0..13); texts decoded into destinations that already hold a time in a named daylight-saving zone whose offset equals the text's; " +
			"distinct_nontrivial = distinct (fraction length, zone form, separator) classes among stdlib-accepted strings plus date chunks",
		Explanation: "The domain is defined by time.Parse(RFC3339) acceptance, so the oracle cannot ask for more than the property; results are compared by instant (Equal) and zone offset. Each string is journalled before the call so a panic inside the library is attributed.",
		Modes: func(tier string) []core.Mode {
			// the same workload with the process's local zone set to zones that observe daylight saving
			// (time.Parse substitutes the local zone when the offset matches; the library must still agree)
			return []core.Mode{{Name: "plain", Variant: "plain"}, {Name: "tz-newyork", Variant: "plain", Env: []string{"VERIF_TZ=America/New_York"}, CaseDiv: 2},
				{Name: "tz-berlin", Variant: "plain", Env: []string{"VERIF_TZ=Europe/Berlin"}, CaseDiv: 4}}
		},
		NumCases: func(c *core.Ctx) int { return 100 + 32 },
		Run:      runC18,
		Floors: func(a *core.Agg) []string {
			var u []string
			if a.C("grammar.stdlib-accepts") < 100000 {
				u = append(u, fmt.Sprintf("stdlib-accepted strings %d < 100000", a.C("grammar.stdlib-accepts")))
			}
			for l := 0; l <= 30; l++ {
				if a.C(fmt.Sprintf("fraclen.%d", l)) == 0 {
					u = append(u, fmt.Sprintf("fraction length %d never seen", l))
				}
			}
			if a.C("fraclen.long") < 100 {
				u = append(u, fmt.Sprintf("timestamps of 64 bytes and more: %d < 100", a.C("fraclen.long")))
			}
			if a.C("dates") < 3652425 {
				u = append(u, fmt.Sprintf("dates=%d < 3652425", a.C("dates")))
			}
			if a.C("sequence.neighbour-pairs") < 10000 {
				u = append(u, fmt.Sprintf("sequence neighbour pairs %d < 10000", a.C("sequence.neighbour-pairs")))
			}
			if a.C("sweep.inputs") < 40000 {
				u = append(u, "two-digit field sweep did not run")
			}
			if a.C("nopanic.inputs") < 50000 {
				u = append(u, "too few no-panic inputs")
			}
			return u
		},
	})
}
