package props

import (
	"fmt"
	"math/rand/v2"
	"reflect"
	"sync"
	"sync/atomic"

	"github.com/philpearl/avro"

	"verifharness/core"
	"verifharness/gen"
	"verifharness/lib"
	"verifharness/model"
	"verifharness/refavro"
	"verifharness/statictypes"
)

// C15 — schema generation is total, deterministic and follows the documented mapping.

type c15class int

const (
	c15Specified c15class = iota
	c15Unsupported
	c15Unspecified
)

// c15classify walks the non-excluded part of the type tree.
func c15classify(t *gen.T, seen map[*gen.T]bool) c15class {
	if seen[t] {
		return c15Specified
	}
	seen[t] = true
	if model.Registered(t.K) != nil {
		return c15Specified
	}
	cls := c15Specified
	merge := func(x c15class) {
		if x > cls {
			cls = x
		}
	}
	switch t.K {
	case gen.KUint, gen.KUint8, gen.KUint16, gen.KUint32, gen.KUint64:
		return c15Unsupported
	case gen.KMapIntKey:
		return c15Unsupported // Avro map keys are strings (D17)
	case gen.KUintptr, gen.KComplex64, gen.KComplex128, gen.KIface, gen.KChan, gen.KFunc, gen.KUnsafePtr, gen.KArray:
		return c15Unspecified
	case gen.KSlice, gen.KMap, gen.KPtr:
		if t.K == gen.KSlice && t.Elem.K == gen.KUint8 {
			return c15Specified // []uint8 is []byte
		}
		merge(c15classify(t.Elem, seen))
	case gen.KStruct:
		for _, f := range t.Fields {
			if !f.Excluded() {
				merge(c15classify(f.T, seen))
			}
		}
	}
	return cls
}

// reusedNamedStruct: one named struct type occurs at more than one position (open finding c15.named-struct-reused).
func reusedNamedStruct(t *gen.T) bool {
	count := map[reflect.Type]int{}
	var walk func(t *gen.T, on map[*gen.T]bool)
	walk = func(t *gen.T, on map[*gen.T]bool) {
		if on[t] {
			return
		}
		on[t] = true
		defer delete(on, t)
		if model.Registered(t.K) != nil {
			return
		}
		if t.K == gen.KStruct && t.Name != "" && t.RTStatic != nil {
			count[t.RTStatic]++
		}
		if t.Elem != nil {
			walk(t.Elem, on)
		}
		for _, f := range t.Fields {
			if !f.Excluded() {
				walk(f.T, on)
			}
		}
	}
	walk(t, map[*gen.T]bool{})
	for _, n := range count {
		if n > 1 {
			return true
		}
	}
	return false
}

type c15res struct {
	s   avro.Schema
	err error
	pan any
}

func c15call(rt reflect.Type) (r c15res) {
	defer func() { r.pan = recover() }()
	r.s, r.err = lib.SchemaFor(rt)
	return
}

func c15one(c *core.Ctx, t *gen.T, label string, recursive bool) {
	rt := t.RT()
	c.Journal(c.CurCase(), label)
	c.Eval(1)
	r1 := c15call(rt)
	if r1.pan != nil {
		c.Violate("panic", fmt.Sprintf("SchemaForType panicked on %s: %v", label, r1.pan), map[string]any{"type": label})
		return
	}
	// determinism: twice more sequentially, three times concurrently
	rs := []c15res{c15call(rt), c15call(rt)}
	var wg sync.WaitGroup
	conc := make([]c15res, 3)
	for k := range conc {
		wg.Add(1)
		go func(k int) { defer wg.Done(); conc[k] = c15call(rt) }(k)
	}
	wg.Wait()
	rs = append(rs, conc...)
	for _, r := range rs {
		if r.pan != nil || (r.err == nil) != (r1.err == nil) || (r.err == nil && !reflect.DeepEqual(r.s, r1.s)) {
			c.Violate("determinism", fmt.Sprintf("repeated/concurrent SchemaForType calls disagree for %s", label), map[string]any{"type": label})
			return
		}
	}
	if recursive {
		c.Count("recursive-presented", 1)
		if r1.err == nil {
			c.Violate("recursive", fmt.Sprintf("self-referential type %s produced a schema instead of an error", label), nil)
		}
		return
	}
	cls := c15classify(t, map[*gen.T]bool{})
	if t.HasDupNames() {
		// two fields of one name: a record cannot have that (field names are unique within an Avro record)
		cls = c15Unsupported
		c.Count("class.duplicate-field-names", 1)
	}
	switch cls {
	case c15Unsupported:
		c.Count("class.unsupported", 1)
		if r1.err == nil {
			c.Violate("mapping", fmt.Sprintf("type %s contains something a schema cannot express (an unsigned integer, a map whose keys are not strings, two fields of one name), yet a schema was returned: %s", label, trunc(libToIR(r1.s).JSON(), 300)), map[string]any{"type": label})
		}
		return
	case c15Unspecified:
		c.Count("class.unspecified", 1)
	default:
		c.Count("class.specified", 1)
		if r1.err != nil {
			c.Violate("mapping", fmt.Sprintf("SchemaForType refused %s, which the documented mapping covers: %v", label, r1.err), map[string]any{"type": label})
			return
		}
	}
	if r1.err != nil {
		return
	}
	ir := libToIR(r1.s)
	if cls == c15Specified {
		want, err := model.ExpectedSchema(t)
		if err != nil {
			c.Violate("harness", "model refuses a specified type: "+label, nil)
			return
		}
		if d := refavro.Diff(model.StripNames(ir), want, "schema"); d != "" {
			c.Violate("mapping", fmt.Sprintf("schema differs from the documented mapping: %s\n type %s\n schema %s", d, label, ir.JSON()), map[string]any{"type": label})
			return
		}
		// structural validity rules named in the statement
		if err := ir.Validate(); err != nil {
			c.Violate("validity", fmt.Sprintf("generated schema is not structurally valid: %v\n type %s\n schema %s", err, label, ir.JSON()), map[string]any{"type": label})
			return
		}
		if !(reusedNamedStruct(t) && c.Quarantined("c15.named-struct-reused")) {
			defs := map[string]int{}
			ir.NamedDefs(defs)
			for n, k := range defs {
				if k > 1 {
					c.Violate("named-once", fmt.Sprintf("named type %s is defined %d times in the schema of %s", n, k, label), map[string]any{"type": label})
					return
				}
			}
			c.Count("named-once-checked", 1)
		}
		countKinds(c, t)
		c.Shape(t.Shape())
	}
	// a codec is either built or refused with an error
	var cerr error
	var cpan any
	func() {
		defer func() { cpan = recover() }()
		_, cerr = lib.CodecFor(r1.s, rt)
	}()
	if cpan != nil {
		c.Violate("codec-panic", fmt.Sprintf("Schema.Codec panicked on the generated schema of %s: %v", label, cpan), map[string]any{"type": label})
		return
	}
	if cerr == nil {
		c.Count("codec.built", 1)
	} else {
		c.Count("codec.refused", 1)
	}
	c.Sample(map[string]any{"type": trunc(label, 300), "schema": trunc(ir.JSON(), 300)})
	// the returned Schema belongs to the caller. For types without registered schemas in them (whose nodes are
	// the registrant's own values) everything in it is overwritten; generation afterwards is as before.
	kinds := map[gen.Kind]int{}
	t.Kinds(kinds)
	for k := range kinds {
		if model.Registered(k) != nil {
			return
		}
	}
	scribbleSchema(&r1.s, map[*avro.SchemaObject]bool{})
	r2 := c15call(rt)
	if r2.err != nil || r2.pan != nil {
		c.Violate("determinism", fmt.Sprintf("after the caller modified the schema it had been given, SchemaForType fails for %s: %v %v", label, r2.err, r2.pan), map[string]any{"type": label})
		return
	}
	if d := refavro.Diff(libToIR(r2.s), ir, "schema"); d != "" {
		c.Violate("determinism", fmt.Sprintf("after the caller modified the schema it had been given, SchemaForType returns a different schema for %s: %s", label, d), map[string]any{"type": label})
		return
	}
	c.Count("regenerated-after-scribble", 1)
}

// registration scenario: registered types map to their registered schema, in every position, and the
// mapping is a function of the type and the registry as they are at the time of the call
type c15Reg struct{ V int64 }
type c15Outer struct {
	A  c15Reg            `json:"a"`
	P  *c15Reg           `json:"p"`
	S  []c15Reg          `json:"s"`
	M  map[string]c15Reg `json:"m"`
	O  c15Reg            `json:"o,omitempty"`
	U  [23]byte          `json:"u"`
	PU *[23]byte         `json:"pu"`
	SU [][23]byte        `json:"su"`
}

// a type whose registered schema is a union without a null branch: whatever schema generation puts around it
// (pointer, omitempty, slices of pointers), unions must not end up directly inside unions
type c15Either struct{ S string }
type c15EitherHolder struct {
	F  c15Either             `json:"f"`
	P  *c15Either            `json:"p"`
	O  c15Either             `json:"o,omitempty"`
	OP *c15Either            `json:"op,omitempty"`
	SP []*c15Either          `json:"sp"`
	M  map[string]*c15Either `json:"m"`
	PP **c15Either           `json:"pp"`
}

func c15registeredUnion(c *core.Ctx) {
	avro.RegisterSchema(reflect.TypeOf(c15Either{}), avro.Schema{Type: "union", Union: []avro.Schema{{Type: "string"}, {Type: "long"}}})
	s, err := avro.SchemaForType(c15EitherHolder{})
	c.Eval(1)
	if err != nil {
		c.Violate("registered", "SchemaForType refused a struct that uses a type registered with a union schema: "+err.Error(), nil)
		return
	}
	ir := libToIR(s)
	if err := ir.Validate(); err != nil {
		c.Violate("validity", fmt.Sprintf("a type registered with the union schema [string,long], used behind pointers and under omitempty: generated schema is not structurally valid: %v\n schema %s", err, ir.JSON()), nil)
		return
	}
	if f := ir.Fields[0].Type; f.Type != "union" || len(f.Branches) != 2 || f.Branches[0].Type != "string" {
		c.Violate("registered", "the plain field of the registered type does not carry its registered schema: "+f.JSON(), nil)
		return
	}
	c.Count("registered-union-scenarios-ok", 1)
}

// registered types of every Go kind: the registry is consulted before the kind is looked at
type c15RawK []byte
type c15StrK string
type c15IntK int64
type c15FloatK float32
type c15BoolK bool
type c15IDsK []int64
type c15AttrsK map[string]string
type c15ArrK [4]int32
type c15PtrHolderK struct{ P *int }
type c15U8K uint8
type c15U32K uint32
type c15NullK struct{}

func c15registeredKinds(c *core.Ctx) {
	for gen := 1; gen <= 2; gen++ {
		for _, x := range []any{c15RawK(nil), c15StrK(""), c15IntK(0), c15FloatK(0), c15BoolK(false), c15IDsK(nil), c15AttrsK(nil), c15ArrK{}, c15PtrHolderK{}, c15U8K(0), c15U32K(0)} {
			k := reflect.TypeOf(x)
			tag := fmt.Sprintf("c15-kind-%s-%d", k.Name(), gen)
			base := []string{"string", "long", "bytes", "double"}[(len(k.Name())+gen)%4]
			avro.RegisterSchema(k, avro.Schema{Type: base, Object: &avro.SchemaObject{LogicalType: tag}})
			holder := reflect.StructOf([]reflect.StructField{
				{Name: "A", Type: k, Tag: `json:"a"`}, {Name: "P", Type: reflect.PointerTo(k), Tag: `json:"p"`}, {Name: "S", Type: reflect.SliceOf(k), Tag: `json:"s"`},
				{Name: "M", Type: reflect.MapOf(reflect.TypeOf(""), k), Tag: `json:"m"`}, {Name: "O", Type: k, Tag: `json:"o,omitempty"`}, {Name: "PO", Type: reflect.PointerTo(k), Tag: `json:"po,omitempty"`},
				{Name: "SP", Type: reflect.SliceOf(reflect.PointerTo(k)), Tag: `json:"sp"`},
			})
			c.Eval(1)
			ls, err := avro.SchemaForType(reflect.New(holder).Elem().Interface())
			if err != nil {
				c.Violate("registered", fmt.Sprintf("SchemaForType refuses a struct whose fields use %s (kind %s), which has a registered schema: %v", k, k.Kind(), err), nil)
				return
			}
			ir := libToIR(ls)
			isReg := func(s *refavro.Schema) bool { return s != nil && s.Type == base && s.LogicalType == tag }
			nullable := func(s *refavro.Schema) bool {
				return s.Type == "union" && len(s.Branches) == 2 && s.Branches[0].Type == "null" && isReg(s.Branches[1])
			}
			f := map[string]*refavro.Schema{}
			for _, fl := range ir.Fields {
				f[fl.Name] = fl.Type
			}
			ok := len(ir.Fields) == 7 && isReg(f["a"]) && nullable(f["p"]) && f["s"].Type == "array" && isReg(f["s"].Items) && f["m"].Type == "map" && isReg(f["m"].Values) &&
				nullable(f["o"]) && nullable(f["po"]) && f["sp"].Type == "array" && nullable(f["sp"].Items)
			if !ok {
				c.Violate("registered", fmt.Sprintf("type %s (kind %s) has the registered schema %s/%s, but schema generation does not emit it in every position (field, pointer, slice item, map value, omitempty, pointer+omitempty, slice of pointers): %s", k, k.Kind(), base, tag, ir.JSON()), nil)
				return
			}
			c.Count("registered-kind-scenarios-ok", 1)
		}
	}
}

// a type whose registered schema is null: whatever schema generation puts around it stays structurally valid
func c15registeredNull(c *core.Ctx) {
	avro.RegisterSchema(reflect.TypeOf(c15NullK{}), avro.Schema{Type: "null"})
	type holder struct {
		A  c15NullK   `json:"a"`
		P  *c15NullK  `json:"p"`
		O  c15NullK   `json:"o,omitempty"`
		S  []c15NullK `json:"s"`
		SP []*c15NullK
		M  map[string]*c15NullK
	}
	c.Eval(1)
	s, err := avro.SchemaForType(holder{})
	if err != nil {
		c.Count("registered-null-refused", 1) // an error is a permitted answer
		return
	}
	ir := libToIR(s)
	if err := ir.Validate(); err != nil {
		c.Violate("validity", fmt.Sprintf("a type registered with the schema null, used behind pointers and under omitempty: the generated schema is not structurally valid: %v\n schema %s", err, ir.JSON()), nil)
		return
	}
	c.Count("registered-null-scenarios-ok", 1)
}

func c15registration(c *core.Ctx) {
	c15registeredUnion(c)
	c15registeredKinds(c)
	c15registeredNull(c)
	get := func() *refavro.Schema {
		s, err := avro.SchemaForType(c15Outer{})
		if err != nil {
			c.Violate("registered", "SchemaForType failed: "+err.Error(), nil)
			return nil
		}
		return libToIR(s)
	}
	field := func(ir *refavro.Schema, name string) *refavro.Schema {
		for _, f := range ir.Fields {
			if f.Name == name {
				return f.Type
			}
		}
		return &refavro.Schema{}
	}
	c.Eval(1)
	before := get()
	if before == nil {
		return
	}
	if field(before, "a").Type != "record" {
		c.Violate("registered", "unregistered struct is not a record: "+before.JSON(), nil)
		return
	}
	for gen := 1; gen <= 3; gen++ {
		tag := fmt.Sprintf("c15-gen-%d", gen)
		avro.RegisterSchema(reflect.TypeOf(c15Reg{}), avro.Schema{Type: "long", Object: &avro.SchemaObject{LogicalType: tag}})
		avro.RegisterSchema(reflect.TypeOf([23]byte{}), avro.Schema{Type: "fixed", Object: &avro.SchemaObject{Name: "f23_" + tag, Size: 23}})
		ir := get()
		if ir == nil {
			return
		}
		c.Eval(1)
		isReg := func(s *refavro.Schema) bool { return s.Type == "long" && s.LogicalType == tag }
		isFix := func(s *refavro.Schema) bool { return s.Type == "fixed" && s.Size == 23 && s.Name == "f23_"+tag }
		nullable := func(s *refavro.Schema, ok func(*refavro.Schema) bool) bool {
			return s.Type == "union" && len(s.Branches) == 2 && s.Branches[0].Type == "null" && ok(s.Branches[1])
		}
		a, p, sl, m, o := field(ir, "a"), field(ir, "p"), field(ir, "s"), field(ir, "m"), field(ir, "o")
		u, pu, su := field(ir, "u"), field(ir, "pu"), field(ir, "su")
		switch {
		case !isReg(a):
			c.Violate("registered", fmt.Sprintf("after registration %d the field of the registered type is %s", gen, a.JSON()), nil)
		case !nullable(p, isReg):
			c.Violate("registered", fmt.Sprintf("after registration %d the pointer to the registered type is %s", gen, p.JSON()), nil)
		case sl.Type != "array" || !isReg(sl.Items):
			c.Violate("registered", fmt.Sprintf("after registration %d the slice of the registered type is %s", gen, sl.JSON()), nil)
		case m.Type != "map" || !isReg(m.Values):
			c.Violate("registered", fmt.Sprintf("after registration %d the map of the registered type is %s", gen, m.JSON()), nil)
		case !nullable(o, isReg):
			c.Violate("registered", fmt.Sprintf("after registration %d the omitempty field of the registered type is %s", gen, o.JSON()), nil)
		case !isFix(u):
			c.Violate("registered", fmt.Sprintf("after registration %d the field of the registered unnamed type [23]byte is %s", gen, u.JSON()), nil)
		case !nullable(pu, isFix):
			c.Violate("registered", fmt.Sprintf("after registration %d the pointer to the registered unnamed type is %s", gen, pu.JSON()), nil)
		case su.Type != "array" || !isFix(su.Items):
			c.Violate("registered", fmt.Sprintf("after registration %d the slice of the registered unnamed type is %s", gen, su.JSON()), nil)
		default:
			c.Count("registration-scenarios-ok", 1)
			continue
		}
		return
	}
}

var c15badSeq atomic.Int64

// c15refusedThenRegistered: generation is a function of the type and the registry as they are at the time of
// the call. A type is refused while it contains an inexpressible type, accepted once a schema is registered
// for that type, and the refusals in between leave no trace on other types.
func c15refusedThenRegistered(c *core.Ctx, r *rand.Rand) {
	seq := c15badSeq.Add(1)
	// a brand-new inexpressible type (nothing is registered for it yet)
	var bad reflect.Type
	switch r.IntN(3) {
	case 0:
		bad = reflect.ChanOf(reflect.BothDir, reflect.ArrayOf(int(1000+seq), reflect.TypeOf(byte(0))))
	case 1:
		bad = reflect.FuncOf([]reflect.Type{reflect.ArrayOf(int(1000+seq), reflect.TypeOf(byte(0)))}, nil, false)
	default:
		bad = reflect.MapOf(reflect.ArrayOf(int(1000+seq), reflect.TypeOf(byte(0))), reflect.TypeOf(int64(0))) // not string-keyed
	}
	good := reflect.TypeOf(int64(0))
	nbad := 0
	var build func(leaf reflect.Type, rr *rand.Rand, depth int) reflect.Type
	build = func(leaf reflect.Type, rr *rand.Rand, depth int) reflect.Type {
		var fs []reflect.StructField
		n := 2 + rr.IntN(4)
		placed := false
		for k := 0; k < n; k++ {
			f := reflect.StructField{Name: fmt.Sprintf("F%d", k), Tag: reflect.StructTag(fmt.Sprintf(`json:"f%d"`, k))}
			switch x := rr.IntN(8); {
			case x == 0 && depth < 3:
				f.Type = build(leaf, rr, depth+1)
				placed = true
			case x <= 5 && (x <= 2 || !placed):
				placed = true
				if leaf == bad {
					nbad++
				}
				switch x {
				case 1:
					f.Type = reflect.SliceOf(leaf)
				case 2:
					f.Type = reflect.MapOf(reflect.TypeOf(""), leaf)
				case 3:
					f.Type = reflect.PointerTo(leaf)
				case 4:
					f.Type = leaf
					f.Tag = reflect.StructTag(fmt.Sprintf(`json:"f%d,omitempty"`, k))
				default:
					f.Type = leaf
				}
			case x == 6:
				f.Type = reflect.TypeOf("")
			default:
				f.Type = reflect.TypeOf([]float64(nil))
			}
			fs = append(fs, f)
		}
		if !placed {
			if leaf == bad {
				nbad++
			}
			fs = append(fs, reflect.StructField{Name: "Last", Type: leaf, Tag: `json:"last"`})
		}
		return reflect.StructOf(fs)
	}
	seed1, seed2 := r.Uint64(), r.Uint64()
	outer := build(bad, rand.New(rand.NewPCG(seed1, seed2)), 0)
	twin := build(good, rand.New(rand.NewPCG(seed1, seed2)), 0)
	label := fmt.Sprintf("refused-then-registered: %s", trunc(outer.String(), 300))
	c.Journal(c.CurCase(), label)
	tw0 := c15call(twin)
	if tw0.err != nil || tw0.pan != nil {
		c.Violate("mapping", fmt.Sprintf("expressible type refused: %v %v: %s", tw0.err, tw0.pan, twin), nil)
		return
	}
	for k := 0; k < 2; k++ {
		r0 := c15call(outer)
		c.Eval(1)
		if r0.pan != nil {
			c.Violate("panic", fmt.Sprintf("SchemaForType panicked on %s: %v", label, r0.pan), nil)
			return
		}
		if r0.err == nil {
			c.Violate("total", fmt.Sprintf("a type containing the inexpressible type %s was given a schema: %s", bad, label), nil)
			return
		}
		// an unrelated, expressible type of the same shape is unaffected by the refusal
		if tw := c15call(twin); tw.err != nil || !reflect.DeepEqual(libToIR(tw.s), libToIR(tw0.s)) {
			c.Violate("deterministic", fmt.Sprintf("after a refused generation an expressible type gives err=%v / a different schema: %s", tw.err, twin), nil)
			return
		}
	}
	tag := fmt.Sprintf("c15-bad-%d", seq)
	avro.RegisterSchema(bad, avro.Schema{Type: "long", Object: &avro.SchemaObject{LogicalType: tag}})
	r1 := c15call(outer)
	c.Eval(1)
	if r1.err != nil || r1.pan != nil {
		c.Violate("registered", fmt.Sprintf("after registering a schema for %s the type that was refused before is still refused: err=%v panic=%v: %s", bad, r1.err, r1.pan, label), nil)
		return
	}
	// the registered schema sits exactly where the twin has its long
	ir := libToIR(r1.s)
	tagged := 0
	var strip func(s *refavro.Schema)
	strip = func(s *refavro.Schema) {
		if s == nil {
			return
		}
		if s.Type == "long" && s.LogicalType == tag {
			tagged++
			*s = refavro.Schema{Type: "long"}
		}
		for k := range s.Fields {
			strip(s.Fields[k].Type)
		}
		strip(s.Items)
		strip(s.Values)
		for _, b := range s.Branches {
			strip(b)
		}
	}
	strip(ir)
	if d := refavro.Diff(ir, libToIR(tw0.s), "schema"); d != "" || tagged != nbad {
		c.Violate("registered", fmt.Sprintf("after registering a schema for the inexpressible type: %d positions carry it (type has %d), difference to the same type with int64 there: %s: %s", tagged, nbad, d, label), nil)
		return
	}
	c.Count("refused-then-registered-ok", 1)
}

func runC15(c *core.Ctx, i int) {
	ns := len(statictypes.Cases)
	nr := len(statictypes.RecursiveCases)
	if i == ns+nr {
		c15registration(c)
	}
	switch {
	case i < ns:
		sc := statictypes.Cases[i]
		c15one(c, sc.IR, "static:"+sc.Name+" "+sc.IR.String(), false)
		c.Count("static", 1)
	case i < ns+nr:
		sc := statictypes.RecursiveCases[i-ns]
		c15one(c, sc.IR, "static-recursive:"+sc.Name, true)
	default:
		r := c.Rand(i, 0)
		c15refusedThenRegistered(c, r)
		for k := 0; k < 16; k++ {
			o := gen.TypeOpts{MaxDepth: 1 + r.IntN(4), MaxFields: 1 + r.IntN(7), WeirdNames: r.IntN(3) == 0, AllKinds: r.IntN(2) == 0, DupNames: r.IntN(3) == 0}
			t := gen.GenStruct(r, o)
			c15one(c, t, t.String(), false)
		}
	}
}

func findingNamedReused(c *core.Ctx) string {
	for _, sc := range statictypes.Cases {
		if sc.Name == "HReused" {
			s, err := lib.SchemaFor(sc.RT)
			if err != nil {
				return ""
			}
			defs := map[string]int{}
			libToIR(s).NamedDefs(defs)
			for n, k := range defs {
				if k > 1 {
					return fmt.Sprintf("named type %s defined %d times", n, k)
				}
			}
		}
	}
	return ""
}

func init() {
	core.Register(&core.Prop{
		ID:        "C15",
		Level:     "exploration",
		Technique: "runtime monitoring: SchemaForType over thousands of generated and static struct types (every kind, tag combination, recursive types in child processes) compared with an independent transcription of the documented mapping; determinism by repeated and concurrent evaluation",
		Rule: "static corpus (named, anonymous, embedded, reused and self-referential structs) plus reflect.StructOf types over every Go kind and tag combination; each type evaluated 6 times (3 concurrently); for types without registered schemas the returned schema is overwritten at every depth and generation repeated; self-containing types whose cycle passes through anonymous structs only; " +
			"distinct_nontrivial = distinct type shapes covered by the documented mapping whose schema was compared field by field",
		Explanation: "E3 model.ExpectedSchema is a transcription of the property's sentence. Kinds the sentence does not mention (fixed-size arrays, non-string-keyed maps, interface, chan, func, complex, uintptr, unsafe.Pointer) are 'unspecified': only totality, determinism and codec-or-error are checked for them. Unsigned integers must be refused. Validity rules: no union directly in a union, no repeated branch, each named type defined once. Self-referential types must yield an error (a stack overflow kills the worker and is attributed by the journal).",
		Assumptions: []string{"record names/namespaces are not compared (the statement is silent)", "open finding c15.named-struct-reused: the 'defined once' rule is not evaluated on types that use one named struct at several positions"},
		Modes:       func(tier string) []core.Mode { return []core.Mode{{Name: "plain", Variant: "plain"}} },
		NumCases: func(c *core.Ctx) int {
			return len(statictypes.Cases) + len(statictypes.RecursiveCases) + c.Pick(4000, 60000)
		},
		Run:      runC15,
		Findings: map[string]func(c *core.Ctx) string{"c15.named-struct-reused": findingNamedReused},
		Floors: func(a *core.Agg) []string {
			var u []string
			if a.C("class.specified") < 2000 {
				u = append(u, fmt.Sprintf("specified types %d < 2000", a.C("class.specified")))
			}
			if a.C("class.unsupported") < 100 || a.C("class.unspecified") < 100 {
				u = append(u, "too few unsupported/unspecified types")
			}
			if a.C("refused-then-registered-ok") < 1000 {
				u = append(u, fmt.Sprintf("refused-then-registered-ok=%d < 1000", a.C("refused-then-registered-ok")))
			}
			if a.C("registration-scenarios-ok") < 3 {
				u = append(u, fmt.Sprintf("registration-scenarios-ok=%d < 3", a.C("registration-scenarios-ok")))
			}
			if a.C("recursive-presented") < 1 {
				u = append(u, "no recursive type presented")
			}
			for _, k := range supportedKinds {
				if a.C("kind."+k.String()) < 50 {
					u = append(u, fmt.Sprintf("kind %s seen %d < 50", k, a.C("kind."+k.String())))
				}
			}
			return u
		},
	})
}
