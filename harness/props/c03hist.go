package props

import (
	"encoding/binary"
	"fmt"
	"math"
	"math/rand/v2"
	"reflect"
	"unsafe"

	"github.com/philpearl/avro"

	"verifharness/core"
	"verifharness/gen"
	"verifharness/lib"
	"verifharness/model"
	"verifharness/refavro"
)

// Histories for C03 and C04: what a decode yields depends on the bytes and the target only, not on what the
// same codec, read buffer or bank pool were used for before.

// c03codecHistory: one codec and one ReadBuf for a run of messages (the way a stream consumer works). Before most
// messages a damaged copy of it - cut short somewhere inside - is presented; whatever that call returns, the
// complete message that follows must decode to its datum. Banks are closed after each message, so they recycle.
func c03codecHistory(c *core.Ctx, rc *readCase, t *gen.T, r *rand.Rand) bool {
	rt := t.RT()
	codec, err := buildLibCodec(rc.ds.S, rt)
	if err != nil {
		c.Violate("read-error", fmt.Sprintf("[codec history] codec refused for a compatible target: %v", err), rc.replay(t))
		return false
	}
	rb := avro.NewReadBuf(nil)
	for k, d := range rc.datums {
		if k >= 12 {
			break
		}
		want := reflect.New(rt).Elem()
		if model.FillFromDatum(rc.ds.S, d, t, want) != nil {
			continue
		}
		enc, err := refavro.Encode(nil, rc.ds.S, d, &gen.RandChooser{R: r, Style: rc.style})
		if err != nil {
			c.Violate("harness", err.Error(), nil)
			return false
		}
		damaged := false
		if len(enc) > 1 && r.IntN(4) != 0 {
			damaged = true
			bad := append([]byte{}, enc[:1+r.IntN(len(enc)-1)]...)
			func() {
				defer func() { recover() }() // what a damaged message does is C06's subject
				v := reflect.New(rt).Elem()
				rb.Reset(bad)
				codec.Read(rb, unsafe.Pointer(v.UnsafeAddr()))
				rb.ExtractResourceBank().Close()
			}()
			c.Count("history.damaged-message-before-good-one", 1)
		}
		v := reflect.New(rt).Elem()
		msg := append([]byte{}, enc...)
		rb.Reset(msg)
		err = codec.Read(rb, unsafe.Pointer(v.UnsafeAddr()))
		c.Eval(1)
		what := "a codec and read buffer that decoded earlier messages"
		if damaged {
			what = "a codec and read buffer whose previous message was cut short (that Read failed)"
		}
		if err != nil || rb.Len() != 0 {
			c.Violate("read-error", fmt.Sprintf("[codec history] %s: a spec-legal message fails to decode: %v (left %d)\n schema %s\n target %s", what, err, rb.Len(), rc.ds.S.JSON(), t), rc.replay(t))
			return false
		}
		if df := model.EqualNorm(t, want, v, false, fmt.Sprintf("msg[%d]", k)); df != "" {
			c.Violate("value", fmt.Sprintf("[codec history] %s: %s\n schema %s\n target %s\n datum %s\n want %s\n got  %s", what, df, rc.ds.S.JSON(), t,
				trunc(refavro.Render(d), 400), trunc(model.RenderValue(t, want), 400), trunc(model.RenderValue(t, v), 400)), rc.replay(t))
			return false
		}
		rb.ExtractResourceBank().Close()
	}
	return true
}

// c03floatWidth: "float width" is one of the ways a compatible target may differ. A double whose magnitude is beyond
// every float32 does not fit a float32 field: an error, not +-Inf. Doubles that are float32 values (including the
// largest ones, the infinities and NaN) decode exactly.
func c03floatWidth(c *core.Ctx) {
	type tgt struct {
		F float32 `json:"f"`
		G int64   `json:"g"`
		P *float32
		S []float32 `json:"s"`
	}
	ls, err := avro.SchemaFromString(`{"type":"record","name":"fw","fields":[{"name":"f","type":"double"},{"name":"g","type":"long"},{"name":"P","type":["null","double"]},{"name":"s","type":{"type":"array","items":"double"}}]}`)
	var codec avro.Codec
	if err == nil {
		codec, err = ls.Codec(tgt{})
	}
	if err != nil {
		c.Violate("read-error", "float width: "+err.Error(), nil)
		return
	}
	rb := avro.NewReadBuf(nil)
	for _, x := range []float64{1e300, -1e300, math.MaxFloat64, -math.MaxFloat64, 2 * math.MaxFloat32, -2 * math.MaxFloat32, 1e39, math.MaxFloat32, -math.MaxFloat32, math.Inf(1), math.Inf(-1), math.NaN(), 1.5, 0, float64(math.SmallestNonzeroFloat32)} {
		for pos := 0; pos < 3; pos++ {
			vals := [3]float64{0.5, 0.5, 0.5}
			vals[pos] = x
			var in []byte
			in = binary.LittleEndian.AppendUint64(in, math.Float64bits(vals[0]))
			in = refavro.AppendLong(in, 7)
			in = binary.LittleEndian.AppendUint64(refavro.AppendLong(in, 1), math.Float64bits(vals[1]))
			in = binary.LittleEndian.AppendUint64(refavro.AppendLong(in, 1), math.Float64bits(vals[2]))
			in = refavro.AppendLong(in, 0)
			var v tgt
			rb.Reset(in)
			err := codec.Read(rb, unsafe.Pointer(&v))
			c.Eval(1)
			fits := math.IsInf(x, 0) || x != x || math.Abs(x) <= math.MaxFloat32
			where := []string{"a float32 field", "a *float32 field", "a []float32 item"}[pos]
			if !fits {
				if err == nil {
					c.Violate("truncation", fmt.Sprintf("the double %g does not fit %s, yet the record decodes without an error (stored %v)", x, where, [3]any{v.F, v.P, v.S}[pos]), map[string]any{"hex": fmt.Sprintf("%x", in)})
					return
				}
				c.Count("float-width.misfits-refused", 1)
				continue
			}
			var got float32
			if err == nil && v.P != nil && len(v.S) == 1 {
				got = [3]float32{v.F, *v.P, v.S[0]}[pos]
			}
			if err != nil || v.G != 7 || v.P == nil || len(v.S) != 1 || !(got == float32(x) || (x != x && got != got)) {
				c.Violate("value", fmt.Sprintf("the double %g, which is a float32 value, read into %s: got %v err=%v", x, where, got, err), map[string]any{"hex": fmt.Sprintf("%x", in)})
				return
			}
			rb.ExtractResourceBank().Close()
		}
	}
	c.Count("float-width.scenarios", 1)
}

// projectSchema derives a writer schema that lacks some record fields of s (at any depth), and the datums to match.
func projectSchema(r *rand.Rand, s *refavro.Schema, ds []any, dropped *int) (*refavro.Schema, []any) {
	switch s.Type {
	case "record":
		out := *s
		out.Fields = nil
		cols := make([][]any, 0, len(s.Fields))
		for fi, f := range s.Fields {
			if r.IntN(3) == 0 {
				*dropped++
				continue
			}
			col := make([]any, len(ds))
			for k, d := range ds {
				col[k] = d.(*refavro.Record).Fields[fi]
			}
			ft, col := projectSchema(r, f.Type, col, dropped)
			out.Fields = append(out.Fields, refavro.Field{Name: f.Name, Type: ft})
			cols = append(cols, col)
		}
		nd := make([]any, len(ds))
		for k := range ds {
			rec := &refavro.Record{}
			for _, col := range cols {
				rec.Fields = append(rec.Fields, col[k])
			}
			nd[k] = rec
		}
		return &out, nd
	case "array":
		var flat []any
		for _, d := range ds {
			flat = append(flat, d.([]any)...)
		}
		it, flat := projectSchema(r, s.Items, flat, dropped)
		out := *s
		out.Items = it
		nd := make([]any, len(ds))
		pos := 0
		for k, d := range ds {
			n := len(d.([]any))
			nd[k] = append([]any{}, flat[pos:pos+n]...)
			pos += n
		}
		return &out, nd
	case "map":
		var flat []any
		for _, d := range ds {
			for _, e := range d.(*refavro.Map).Entries {
				flat = append(flat, e.Val)
			}
		}
		vt, flat := projectSchema(r, s.Values, flat, dropped)
		out := *s
		out.Values = vt
		nd := make([]any, len(ds))
		pos := 0
		for k, d := range ds {
			m := &refavro.Map{}
			for _, e := range d.(*refavro.Map).Entries {
				m.Entries = append(m.Entries, refavro.MapEntry{Key: e.Key, Val: flat[pos]})
				pos++
			}
			nd[k] = m
		}
		return &out, nd
	case "union":
		out := *s
		out.Branches = append([]*refavro.Schema{}, s.Branches...)
		nd := append([]any{}, ds...)
		for bi, b := range s.Branches {
			var idx []int
			var sub []any
			for k, d := range ds {
				if u := d.(*refavro.Union); u.Branch == bi {
					idx = append(idx, k)
					sub = append(sub, u.Val)
				}
			}
			bt, sub := projectSchema(r, b, sub, dropped)
			out.Branches[bi] = bt
			for j, k := range idx {
				nd[k] = &refavro.Union{Branch: bi, Val: sub[j]}
			}
		}
		return &out, nd
	}
	return s, ds
}

// c04evolution: two files for one target type. The second file's writer schema lacks fields of the first (at any
// depth), as an older or newer writer's would. The first file is read the documented way (each record's bank is
// closed in the callback, so the banks recycle), then the second into the same target type: what the second
// file does not contain is zero, whatever the recycled memory held, and the other fields are the second file's.
func c04evolution(c *core.Ctx, rc *readCase, full *gen.T, r *rand.Rand) bool {
	dropped := 0
	s2, d2 := projectSchema(r, rc.ds.S, rc.datums, &dropped)
	if dropped == 0 || refavro.ZeroWidth(s2) {
		return true
	}
	if err := s2.Validate(); err != nil {
		return true
	}
	rt := full.RT()
	want := make([]reflect.Value, len(d2))
	for k, d := range d2 {
		want[k] = reflect.New(rt).Elem()
		if err := model.FillFromDatum(s2, d, full, want[k]); err != nil {
			return true // (inexact / misfit datums: not this scenario's subject)
		}
	}
	file2, err := refavro.WriteContainer([]byte(s2.JSON()), s2, [][]any{d2}, &gen.RandChooser{R: r, Style: rc.style}, refavro.WriteOpts{Codec: rc.codec})
	if err != nil {
		c.Violate("harness", "evolution: "+err.Error(), nil)
		return false
	}
	for round := 0; round < 2; round++ {
		if _, err := lib.ReadEach(rc.file, rt, false, func(int, reflect.Value) error { return nil }); err != nil {
			return true // the main check reports this
		}
		got, err := lib.ReadAll(file2, rt, round == 1)
		c.Eval(1)
		rep := rc.replay(full)
		rep["second_schema"] = s2.JSON()
		if err != nil || len(got) != len(want) {
			c.Violate("read-error", fmt.Sprintf("[schema evolution] a file whose writer schema lacks %d of the fields (read after a file that has them, same target type) fails: %v, %d of %d records\n first schema %s\n second schema %s\n target %s",
				dropped, err, len(got), len(want), rc.ds.S.JSON(), s2.JSON(), full), rep)
			return false
		}
		for k := range got {
			if df := model.EqualNorm(full, want[k], got[k], false, fmt.Sprintf("rec[%d]", k)); df != "" {
				c.Violate("value", fmt.Sprintf("[schema evolution] read after a file that has all fields (its banks closed and recycled), a file whose writer schema lacks %d of them decodes differently: %s\n first schema %s\n second schema %s\n target %s\n want %s\n got  %s",
					dropped, df, rc.ds.S.JSON(), s2.JSON(), full, trunc(model.RenderValue(full, want[k]), 400), trunc(model.RenderValue(full, got[k]), 400)), rep)
				return false
			}
		}
	}
	c.Count("evolution.second-schema-files", 1)
	c.Count("evolution.fields-dropped", int64(dropped))
	return true
}
