package props

import (
	"bytes"
	"fmt"
	"math/rand/v2"
	"reflect"
	"sort"
	"strings"
	"time"
	"unsafe"

	"github.com/philpearl/avro"
	avronull "github.com/philpearl/avro/null"
	avrotime "github.com/philpearl/avro/time"
	"github.com/unravelin/null/v5"

	"verifharness/core"
	"verifharness/gen"
	"verifharness/lib"
	"verifharness/refavro"
)

// C20 — a registered custom codec governs its type everywhere and nothing else.

type CInt int64
type CStr string
type CSlice []int64
type CBytes []byte
type CStruct struct {
	A int64
	B string
}
type CNullable struct {
	V   int64
	Set bool
}
type CStructStr struct {
	A int64
	B string
}

// unregistered look-alikes
type UInt int64
type UStruct struct {
	A int64  `json:"a"`
	B string `json:"b"`
}

type c20inner[X any] struct {
	In X   `json:"in"`
	L  []X `json:"l"`
}

type holder[X any] struct {
	F      X             `json:"f"`
	P      *X            `json:"p"`
	PP     **X           `json:"pp"`
	S      []X           `json:"s"`
	SP     []*X          `json:"sp"`
	M      map[string]X  `json:"m"`
	MP     map[string]*X `json:"mp"`
	O      X             `json:"o,omitempty"`
	OP     *X            `json:"op,omitempty"`
	N      c20inner[X]   `json:"n"`
	Plain  int64         `json:"plain"`
	PlainS string        `json:"plain_s"`
	U      UInt          `json:"u"`
	US     []UInt        `json:"us"`
	UT     UStruct       `json:"ut"`
}

type c20log struct {
	builds map[int]int
	reads  map[int]int
	writes map[int]int
	skips  map[int]int
	news   map[int]int
	omits  map[int]int
}

func newC20log() *c20log {
	return &c20log{map[int]int{}, map[int]int{}, map[int]int{}, map[int]int{}, map[int]int{}, map[int]int{}}
}

type c20kind struct {
	name   string
	rt     reflect.Type
	schema string // registered schema JSON
	stype  string // schema type the builder expects (after union unwrapping)
	// value helpers
	gen     func(r *rand.Rand) reflect.Value
	isNull  func(v reflect.Value) bool
	isZero  func(v reflect.Value) bool
	toDatum func(v reflect.Value) any
	write   func(w *avro.WriteBuf, p unsafe.Pointer)
	read    func(r *avro.ReadBuf, p unsafe.Pointer) error
	skip    func(r *avro.ReadBuf) error
	session func(w *bytes.Buffer, comp avro.Compression, bs int) (lib.Session, error)
	holder  reflect.Type
	// mkCodec: the codec the registered builder returns (nil: the generic logging codec)
	mkCodec func(id int, k *c20kind, omit bool, log *c20log) avro.Codec
}

// CFloat is governed by a codec written the way users write them: a struct that embeds the library's own codec
// for the wire type and overrides what differs (here the value is negated on the wire).
type CFloat float64

type c20floatCodec struct {
	avro.DoubleCodec
	id   int
	k    *c20kind
	omit bool
	log  *c20log
}

func (c c20floatCodec) Read(r *avro.ReadBuf, p unsafe.Pointer) error {
	c.log.reads[c.id]++
	var w float64
	err := c.DoubleCodec.Read(r, unsafe.Pointer(&w))
	*(*CFloat)(p) = CFloat(-w)
	return err
}
func (c c20floatCodec) Skip(r *avro.ReadBuf) error { c.log.skips[c.id]++; return c.DoubleCodec.Skip(r) }
func (c c20floatCodec) New(r *avro.ReadBuf) unsafe.Pointer {
	c.log.news[c.id]++
	return r.Alloc(c.k.rt)
}
func (c c20floatCodec) Omit(p unsafe.Pointer) bool {
	c.log.omits[c.id]++
	return c.omit && *(*CFloat)(p) == 0
}
func (c c20floatCodec) Write(w *avro.WriteBuf, p unsafe.Pointer) {
	c.log.writes[c.id]++
	v := -float64(*(*CFloat)(p))
	c.DoubleCodec.Write(w, unsafe.Pointer(&v))
}

func readLong(r *avro.ReadBuf) (int64, error) {
	var v int64
	err := avro.Int64Codec{}.Read(r, unsafe.Pointer(&v))
	return v, err
}

func readStr(r *avro.ReadBuf) (string, error) {
	var s string
	err := avro.StringCodec{}.Read(r, unsafe.Pointer(&s))
	return strings.Clone(s), err
}

func writeStr(w *avro.WriteBuf, s string) { avro.StringCodec{}.Write(w, unsafe.Pointer(&s)) }

func c20sess[X any]() func(w *bytes.Buffer, comp avro.Compression, bs int) (lib.Session, error) {
	return func(w *bytes.Buffer, comp avro.Compression, bs int) (lib.Session, error) {
		return lib.NewStaticSession[holder[X]](w, comp, bs)
	}
}

func c20kinds() []*c20kind {
	rstr := func(r *rand.Rand) string {
		return []string{"", "a", "hello", "ünï", "x y"}[r.IntN(5)] + fmt.Sprint(r.IntN(100))
	}
	ks := []*c20kind{
		{name: "CInt", rt: reflect.TypeOf(CInt(0)), schema: `"long"`, stype: "long",
			gen:     func(r *rand.Rand) reflect.Value { return reflect.ValueOf(CInt(int64(r.IntN(7)) - 2)) },
			isZero:  func(v reflect.Value) bool { return v.Int() == 0 },
			toDatum: func(v reflect.Value) any { return v.Int() ^ 0x2A },
			write:   func(w *avro.WriteBuf, p unsafe.Pointer) { w.Varint(int64(*(*CInt)(p)) ^ 0x2A) },
			read: func(r *avro.ReadBuf, p unsafe.Pointer) error {
				v, err := readLong(r)
				*(*CInt)(p) = CInt(v ^ 0x2A)
				return err
			},
			skip: func(r *avro.ReadBuf) error { return avro.Int64Codec{}.Skip(r) }, session: c20sess[CInt](), holder: reflect.TypeOf(holder[CInt]{})},
		{name: "CFloat", rt: reflect.TypeOf(CFloat(0)), schema: `"double"`, stype: "double",
			gen: func(r *rand.Rand) reflect.Value {
				return reflect.ValueOf(CFloat(float64(r.IntN(9)-3) + 0.25*float64(r.IntN(4))))
			},
			isZero:  func(v reflect.Value) bool { return v.Float() == 0 },
			toDatum: func(v reflect.Value) any { return -v.Float() },
			write: func(w *avro.WriteBuf, p unsafe.Pointer) {
				v := -float64(*(*CFloat)(p))
				avro.DoubleCodec{}.Write(w, unsafe.Pointer(&v))
			},
			read: func(r *avro.ReadBuf, p unsafe.Pointer) error {
				var w float64
				err := avro.DoubleCodec{}.Read(r, unsafe.Pointer(&w))
				*(*CFloat)(p) = CFloat(-w)
				return err
			},
			skip: func(r *avro.ReadBuf) error { return avro.DoubleCodec{}.Skip(r) }, session: c20sess[CFloat](), holder: reflect.TypeOf(holder[CFloat]{}),
			mkCodec: func(id int, k *c20kind, omit bool, log *c20log) avro.Codec {
				return c20floatCodec{id: id, k: k, omit: omit, log: log}
			}},
		{name: "CStr", rt: reflect.TypeOf(CStr("")), schema: `"string"`, stype: "string",
			gen:     func(r *rand.Rand) reflect.Value { return reflect.ValueOf(CStr([]string{"", "a", "hello"}[r.IntN(3)])) },
			isZero:  func(v reflect.Value) bool { return v.String() == "" },
			toDatum: func(v reflect.Value) any { return "<" + v.String() + ">" },
			write:   func(w *avro.WriteBuf, p unsafe.Pointer) { writeStr(w, "<"+string(*(*CStr)(p))+">") },
			read: func(r *avro.ReadBuf, p unsafe.Pointer) error {
				s, err := readStr(r)
				if err == nil && len(s) >= 2 {
					*(*CStr)(p) = CStr(s[1 : len(s)-1])
				}
				return err
			},
			skip: func(r *avro.ReadBuf) error { return avro.StringCodec{}.Skip(r) }, session: c20sess[CStr](), holder: reflect.TypeOf(holder[CStr]{})},
		{name: "CSlice", rt: reflect.TypeOf(CSlice(nil)), schema: `{"type":"array","items":"long"}`, stype: "array",
			gen: func(r *rand.Rand) reflect.Value {
				n := r.IntN(4)
				var s CSlice
				for i := 0; i < n; i++ {
					s = append(s, int64(r.IntN(100)))
				}
				return reflect.ValueOf(s)
			},
			isZero: func(v reflect.Value) bool { return v.Len() == 0 },
			toDatum: func(v reflect.Value) any {
				out := []any{}
				for i := v.Len() - 1; i >= 0; i-- {
					out = append(out, v.Index(i).Int())
				}
				return out
			},
			write: func(w *avro.WriteBuf, p unsafe.Pointer) {
				s := *(*CSlice)(p)
				if len(s) > 0 {
					w.Varint(int64(len(s)))
					for i := len(s) - 1; i >= 0; i-- {
						w.Varint(s[i])
					}
				}
				w.Varint(0)
			},
			read: func(r *avro.ReadBuf, p unsafe.Pointer) error {
				var tmp []int64
				for {
					n, err := r.Varint()
					if err != nil {
						return err
					}
					if n == 0 {
						break
					}
					if n < 0 {
						n = -n
						if _, err := r.Varint(); err != nil {
							return err
						}
					}
					for ; n > 0; n-- {
						v, err := r.Varint()
						if err != nil {
							return err
						}
						tmp = append(tmp, v)
					}
				}
				var out CSlice
				for i := len(tmp) - 1; i >= 0; i-- {
					out = append(out, tmp[i])
				}
				*(*CSlice)(p) = out
				return nil
			},
			skip: func(r *avro.ReadBuf) error {
				for {
					n, err := r.Varint()
					if err != nil || n == 0 {
						return err
					}
					for ; n > 0; n-- {
						if _, err := r.Varint(); err != nil {
							return err
						}
					}
				}
			}, session: c20sess[CSlice](), holder: reflect.TypeOf(holder[CSlice]{})},
		{name: "CBytes", rt: reflect.TypeOf(CBytes(nil)), schema: `"bytes"`, stype: "bytes",
			gen: func(r *rand.Rand) reflect.Value {
				n := r.IntN(5)
				b := make(CBytes, n)
				for i := range b {
					b[i] = byte(r.IntN(256))
				}
				if n == 0 {
					b = nil
				}
				return reflect.ValueOf(b)
			},
			isZero: func(v reflect.Value) bool { return v.Len() == 0 },
			toDatum: func(v reflect.Value) any {
				b := append([]byte{}, v.Bytes()...)
				for i := range b {
					b[i] ^= 0xff
				}
				return b
			},
			write: func(w *avro.WriteBuf, p unsafe.Pointer) {
				b := append([]byte{}, (*(*CBytes)(p))...)
				for i := range b {
					b[i] ^= 0xff
				}
				avro.BytesCodec{}.Write(w, unsafe.Pointer(&b))
			},
			read: func(r *avro.ReadBuf, p unsafe.Pointer) error {
				var b []byte
				if err := (avro.BytesCodec{}).Read(r, unsafe.Pointer(&b)); err != nil {
					return err
				}
				for i := range b {
					b[i] ^= 0xff
				}
				*(*CBytes)(p) = b
				return nil
			},
			skip: func(r *avro.ReadBuf) error { return avro.BytesCodec{}.Skip(r) }, session: c20sess[CBytes](), holder: reflect.TypeOf(holder[CBytes]{})},
		{name: "CStruct", rt: reflect.TypeOf(CStruct{}), schema: `{"type":"record","name":"cstruct","fields":[{"name":"a","type":"long"},{"name":"b","type":"string"}]}`, stype: "record",
			gen:    func(r *rand.Rand) reflect.Value { return reflect.ValueOf(CStruct{A: int64(r.IntN(5)), B: rstr(r)}) },
			isZero: func(v reflect.Value) bool { return v.IsZero() },
			toDatum: func(v reflect.Value) any {
				c := v.Interface().(CStruct)
				return &refavro.Record{Fields: []any{c.A + 1000, "b:" + c.B}}
			},
			write: func(w *avro.WriteBuf, p unsafe.Pointer) {
				c := *(*CStruct)(p)
				w.Varint(c.A + 1000)
				writeStr(w, "b:"+c.B)
			},
			read: func(r *avro.ReadBuf, p unsafe.Pointer) error {
				a, err := readLong(r)
				if err != nil {
					return err
				}
				b, err := readStr(r)
				if err != nil {
					return err
				}
				*(*CStruct)(p) = CStruct{A: a - 1000, B: strings.TrimPrefix(b, "b:")}
				return nil
			},
			skip: func(r *avro.ReadBuf) error {
				if err := (avro.Int64Codec{}).Skip(r); err != nil {
					return err
				}
				return avro.StringCodec{}.Skip(r)
			}, session: c20sess[CStruct](), holder: reflect.TypeOf(holder[CStruct]{})},
		{name: "CNullable", rt: reflect.TypeOf(CNullable{}), schema: `["null","long"]`, stype: "long",
			gen: func(r *rand.Rand) reflect.Value {
				if r.IntN(3) == 0 {
					return reflect.ValueOf(CNullable{})
				}
				return reflect.ValueOf(CNullable{V: int64(r.IntN(5)), Set: true})
			},
			isNull:  func(v reflect.Value) bool { return !v.Interface().(CNullable).Set },
			isZero:  func(v reflect.Value) bool { return !v.Interface().(CNullable).Set },
			toDatum: func(v reflect.Value) any { return v.Interface().(CNullable).V ^ 0x2A },
			write:   func(w *avro.WriteBuf, p unsafe.Pointer) { w.Varint((*(*CNullable)(p)).V ^ 0x2A) },
			read: func(r *avro.ReadBuf, p unsafe.Pointer) error {
				v, err := readLong(r)
				*(*CNullable)(p) = CNullable{V: v ^ 0x2A, Set: true}
				return err
			},
			skip: func(r *avro.ReadBuf) error { return avro.Int64Codec{}.Skip(r) }, session: c20sess[CNullable](), holder: reflect.TypeOf(holder[CNullable]{})},
		{name: "CStructStr", rt: reflect.TypeOf(CStructStr{}), schema: `"string"`, stype: "string",
			gen:     func(r *rand.Rand) reflect.Value { return reflect.ValueOf(CStructStr{A: int64(r.IntN(5)), B: rstr(r)}) },
			isZero:  func(v reflect.Value) bool { return v.IsZero() },
			toDatum: func(v reflect.Value) any { c := v.Interface().(CStructStr); return fmt.Sprintf("%d|%s", c.A, c.B) },
			write: func(w *avro.WriteBuf, p unsafe.Pointer) {
				c := *(*CStructStr)(p)
				writeStr(w, fmt.Sprintf("%d|%s", c.A, c.B))
			},
			read: func(r *avro.ReadBuf, p unsafe.Pointer) error {
				s, err := readStr(r)
				if err != nil {
					return err
				}
				var c CStructStr
				if i := strings.IndexByte(s, '|'); i >= 0 {
					fmt.Sscanf(s[:i], "%d", &c.A)
					c.B = s[i+1:]
				}
				*(*CStructStr)(p) = c
				return nil
			},
			skip: func(r *avro.ReadBuf) error { return avro.StringCodec{}.Skip(r) }, session: c20sess[CStructStr](), holder: reflect.TypeOf(holder[CStructStr]{})},
	}
	for _, k := range ks {
		if k.isNull == nil {
			k.isNull = func(reflect.Value) bool { return false }
		}
	}
	return ks
}

// schemaWith returns the kind's registered schema carrying a per-registration tag (as logicalType),
// so that a stale schema from an earlier registration is distinguishable.
func (k *c20kind) schemaWith(tag string) string {
	switch k.name {
	case "CSlice":
		return `{"type":"array","logicalType":"` + tag + `","items":"long"}`
	case "CStruct":
		return `{"type":"record","logicalType":"` + tag + `","name":"cstruct","fields":[{"name":"a","type":"long"},{"name":"b","type":"string"}]}`
	case "CNullable":
		return `["null",{"type":"long","logicalType":"` + tag + `"}]`
	}
	return `{"type":` + k.schema + `,"logicalType":"` + tag + `"}`
}

type c20codec struct {
	id   int
	k    *c20kind
	omit bool
	log  *c20log
}

func (c *c20codec) Read(r *avro.ReadBuf, p unsafe.Pointer) error {
	c.log.reads[c.id]++
	return c.k.read(r, p)
}
func (c *c20codec) Skip(r *avro.ReadBuf) error { c.log.skips[c.id]++; return c.k.skip(r) }
func (c *c20codec) New(r *avro.ReadBuf) unsafe.Pointer {
	c.log.news[c.id]++
	return r.Alloc(c.k.rt)
}
func (c *c20codec) Omit(p unsafe.Pointer) bool {
	c.log.omits[c.id]++
	v := reflect.NewAt(c.k.rt, p).Elem()
	return c.k.isNull(v) || (c.omit && c.k.isZero(v))
}
func (c *c20codec) Write(w *avro.WriteBuf, p unsafe.Pointer) {
	c.log.writes[c.id]++
	c.k.write(w, p)
}

var c20curLog *c20log
var c20gen int

func c20register(k *c20kind, id int) {
	avro.Register(k.rt, func(schema avro.Schema, typ reflect.Type, omit bool) (avro.Codec, error) {
		if schema.Type != k.stype {
			return nil, fmt.Errorf("custom codec for %s expects schema %s, got %s", k.name, k.stype, schema.Type)
		}
		if typ != k.rt {
			return nil, fmt.Errorf("custom builder for %s invoked for type %s", k.name, typ)
		}
		c20curLog.builds[id]++
		if k.mkCodec != nil {
			return k.mkCodec(id, k, omit, c20curLog), nil
		}
		return &c20codec{id: id, k: k, omit: omit, log: c20curLog}, nil
	})
}

// ---- mini model for holder[X] ----

type c20model struct {
	k      *c20kind
	writes int // expected custom Write calls
	// zeroWrites: writes of the zero value for nil pointers (not matched by a Read of a non-nil value)
	zeroWrites int
	regSchema  string // the most recently registered schema JSON
}

// expectedSchema per the documented mapping with the registered schema R for X.
func (m *c20model) schemaFor(rt reflect.Type, omit bool) *refavro.Schema {
	var s *refavro.Schema
	switch {
	case rt == m.k.rt:
		s, _ = refavro.ParseSchema([]byte(m.regSchema))
	case rt.Kind() == reflect.Int64:
		s = &refavro.Schema{Type: "long"}
	case rt.Kind() == reflect.String:
		s = &refavro.Schema{Type: "string"}
	case rt.Kind() == reflect.Slice:
		s = &refavro.Schema{Type: "array", Items: m.schemaFor(rt.Elem(), false)}
	case rt.Kind() == reflect.Map:
		s = &refavro.Schema{Type: "map", Values: m.schemaFor(rt.Elem(), false)}
	case rt.Kind() == reflect.Pointer:
		u := m.schemaFor(rt.Elem(), false)
		if u.Type == "union" || u.Type == "array" || u.Type == "map" {
			s = u
		} else {
			s = &refavro.Schema{Type: "union", Branches: []*refavro.Schema{{Type: "null"}, u}}
		}
	case rt.Kind() == reflect.Struct:
		s = &refavro.Schema{Type: "record", Fields: []refavro.Field{}}
		for i := 0; i < rt.NumField(); i++ {
			f := rt.Field(i)
			name, opts, _ := strings.Cut(f.Tag.Get("json"), ",")
			s.Fields = append(s.Fields, refavro.Field{Name: name, Type: m.schemaFor(f.Type, strings.Contains(opts, "omitempty"))})
		}
	}
	if omit && s.Type != "union" {
		s = &refavro.Schema{Type: "union", Branches: []*refavro.Schema{{Type: "null"}, s}}
	}
	return s
}

func stripAll(s *refavro.Schema) *refavro.Schema {
	c := *s
	c.Name, c.Namespace, c.ObjectForm, c.Has = "", "", false, nil
	c.Fields = nil
	for _, f := range s.Fields {
		c.Fields = append(c.Fields, refavro.Field{Name: f.Name, Type: stripAll(f.Type)})
	}
	if s.Items != nil {
		c.Items = stripAll(s.Items)
	}
	if s.Values != nil {
		c.Values = stripAll(s.Values)
	}
	c.Branches = nil
	for _, b := range s.Branches {
		c.Branches = append(c.Branches, stripAll(b))
	}
	return &c
}

// match walks value and datum together; counts expected custom writes.
func (m *c20model) match(rt reflect.Type, v reflect.Value, omit bool, s *refavro.Schema, d any, path string) string {
	if s.Type == "union" {
		u, ok := d.(*refavro.Union)
		if !ok {
			return path + ": want union datum, got " + refavro.Render(d)
		}
		// null-ness of the Go value
		null := false
		tt, vv := rt, v
		for tt.Kind() == reflect.Pointer {
			if vv.IsNil() {
				null = true
				break
			}
			tt, vv = tt.Elem(), vv.Elem()
		}
		if !null && tt == m.k.rt {
			null = m.k.isNull(vv) || (omit && rt == m.k.rt && m.k.isZero(vv))
		} else if !null && omit && rt.Kind() != reflect.Pointer && rt.Kind() != reflect.Struct {
			null = vv.IsZero() || ((rt.Kind() == reflect.Slice || rt.Kind() == reflect.Map) && vv.Len() == 0)
		}
		if null {
			if u.Branch != 0 {
				return fmt.Sprintf("%s: null value written as branch %d (%s)", path, u.Branch, refavro.Render(u.Val))
			}
			return ""
		}
		if u.Branch != 1 {
			return fmt.Sprintf("%s: non-null value written as null", path)
		}
		return m.match(tt, vv, false, s.Branches[1], u.Val, path)
	}
	for rt.Kind() == reflect.Pointer {
		if v.IsNil() {
			// nil pointer without a union around it (pointer to a collection): the zero value is written
			base := rt
			for base.Kind() == reflect.Pointer {
				base = base.Elem()
			}
			if base == m.k.rt {
				m.writes++
				m.zeroWrites++
				if want := m.k.toDatum(reflect.Zero(base)); refavro.Render(want) != refavro.Render(d) {
					return fmt.Sprintf("%s: nil pointer to %s must appear as the zero value %s, file has %s", path, m.k.name, refavro.Render(want), refavro.Render(d))
				}
			}
			return ""
		}
		rt, v = rt.Elem(), v.Elem()
	}
	if rt == m.k.rt {
		m.writes++
		want := m.k.toDatum(v)
		if refavro.Render(want) != refavro.Render(d) {
			return fmt.Sprintf("%s: a %s value %v must appear as %s (the custom codec's encoding), file has %s", path, m.k.name, v.Interface(), refavro.Render(want), refavro.Render(d))
		}
		return ""
	}
	switch rt.Kind() {
	case reflect.Int64:
		if g, ok := d.(int64); !ok || g != v.Int() {
			return fmt.Sprintf("%s: unregistered integer %d written as %s", path, v.Int(), refavro.Render(d))
		}
	case reflect.String:
		if g, ok := d.(string); !ok || g != v.String() {
			return fmt.Sprintf("%s: unregistered string %q written as %s", path, v.String(), refavro.Render(d))
		}
	case reflect.Slice:
		g, ok := d.([]any)
		if !ok || len(g) != v.Len() {
			return fmt.Sprintf("%s: slice of %d written as %s", path, v.Len(), refavro.Render(d))
		}
		for i := range g {
			if df := m.match(rt.Elem(), v.Index(i), false, s.Items, g[i], fmt.Sprintf("%s[%d]", path, i)); df != "" {
				return df
			}
		}
	case reflect.Map:
		g, ok := d.(*refavro.Map)
		if !ok || len(g.Entries) != v.Len() {
			return fmt.Sprintf("%s: map of %d written as %s", path, v.Len(), refavro.Render(d))
		}
		for _, e := range g.Entries {
			mv := v.MapIndex(reflect.ValueOf(e.Key))
			if !mv.IsValid() {
				return path + ": unknown key " + e.Key
			}
			if df := m.match(rt.Elem(), mv, false, s.Values, e.Val, fmt.Sprintf("%s[%q]", path, e.Key)); df != "" {
				return df
			}
		}
	case reflect.Struct:
		g, ok := d.(*refavro.Record)
		if !ok || len(g.Fields) != rt.NumField() {
			return fmt.Sprintf("%s: struct written as %s", path, refavro.Render(d))
		}
		for i := 0; i < rt.NumField(); i++ {
			f := rt.Field(i)
			_, opts, _ := strings.Cut(f.Tag.Get("json"), ",")
			if df := m.match(f.Type, v.Field(i), strings.Contains(opts, "omitempty"), s.Fields[i].Type, g.Fields[i], path+"."+f.Name); df != "" {
				return df
			}
		}
	}
	return ""
}

// c20equal: round-trip equality with nil == empty.
func c20equal(a, b reflect.Value, path string) string {
	switch a.Kind() {
	case reflect.Pointer:
		// pointer(s) to a collection: nil and empty are identified (the schema there has no null)
		base := a.Type()
		for base.Kind() == reflect.Pointer {
			base = base.Elem()
		}
		if base.Kind() == reflect.Slice || base.Kind() == reflect.Map {
			collLen := func(v reflect.Value) int {
				for v.Kind() == reflect.Pointer {
					if v.IsNil() {
						return 0
					}
					v = v.Elem()
				}
				return v.Len()
			}
			if collLen(a) == 0 && collLen(b) == 0 {
				return ""
			}
		}
		if a.IsNil() != b.IsNil() {
			return fmt.Sprintf("%s: nil-ness %v vs %v", path, a.IsNil(), b.IsNil())
		}
		if a.IsNil() {
			return ""
		}
		return c20equal(a.Elem(), b.Elem(), path+"*")
	case reflect.Slice:
		if a.Len() != b.Len() {
			return fmt.Sprintf("%s: len %d vs %d", path, a.Len(), b.Len())
		}
		for i := 0; i < a.Len(); i++ {
			if d := c20equal(a.Index(i), b.Index(i), fmt.Sprintf("%s[%d]", path, i)); d != "" {
				return d
			}
		}
	case reflect.Map:
		if a.Len() != b.Len() {
			return fmt.Sprintf("%s: map len %d vs %d", path, a.Len(), b.Len())
		}
		for _, k := range a.MapKeys() {
			bv := b.MapIndex(k)
			if !bv.IsValid() {
				return fmt.Sprintf("%s: key %v missing", path, k)
			}
			if d := c20equal(a.MapIndex(k), bv, fmt.Sprintf("%s[%v]", path, k)); d != "" {
				return d
			}
		}
	case reflect.Struct:
		for i := 0; i < a.NumField(); i++ {
			if d := c20equal(a.Field(i), b.Field(i), path+"."+a.Type().Field(i).Name); d != "" {
				return d
			}
		}
	default:
		if !reflect.DeepEqual(a.Interface(), b.Interface()) {
			return fmt.Sprintf("%s: %v vs %v", path, a.Interface(), b.Interface())
		}
	}
	return ""
}

// c20fill fills a holder value.
func c20fill(r *rand.Rand, k *c20kind, rt reflect.Type, v reflect.Value, depth int) {
	if rt == k.rt {
		v.Set(k.gen(r))
		return
	}
	switch rt.Kind() {
	case reflect.Int64:
		v.SetInt(int64(r.IntN(9)) - 2)
	case reflect.String:
		v.SetString([]string{"", "s", "plain"}[r.IntN(3)])
	case reflect.Pointer:
		if r.IntN(3) == 0 {
			return
		}
		p := reflect.New(rt.Elem())
		c20fill(r, k, rt.Elem(), p.Elem(), depth+1)
		// quarantine of c01.nested-null: no non-nil pointer to a null-like pointee
		if rt.Elem().Kind() == reflect.Pointer && p.Elem().IsNil() {
			return
		}
		if rt.Elem() == k.rt && k.isNull(p.Elem()) {
			return
		}
		v.Set(p)
	case reflect.Slice:
		n := r.IntN(4)
		if n == 0 {
			return
		}
		s := reflect.MakeSlice(rt, n, n)
		for i := 0; i < n; i++ {
			c20fill(r, k, rt.Elem(), s.Index(i), depth+1)
		}
		v.Set(s)
	case reflect.Map:
		n := r.IntN(3)
		if n == 0 {
			return
		}
		m := reflect.MakeMap(rt)
		for i := 0; i < n; i++ {
			e := reflect.New(rt.Elem()).Elem()
			c20fill(r, k, rt.Elem(), e, depth+1)
			m.SetMapIndex(reflect.ValueOf(fmt.Sprintf("k%d", i)), e)
		}
		v.Set(m)
	case reflect.Struct:
		for i := 0; i < rt.NumField(); i++ {
			c20fill(r, k, rt.Field(i).Type, v.Field(i), depth+1)
		}
	}
}

var c20ks []*c20kind

type c20builtinHolder struct {
	N null.Int  `json:"n"`
	T time.Time `json:"t"`
}

// c20builtin: override a built-in registration (null.Int, time.Time) with a user builder, then let the
// library re-register its own: each time the most recent registration must govern.
func c20builtin(c *core.Ctx) {
	defer func() {
		avronull.RegisterCodecs()
		avrotime.RegisterCodecs()
	}()
	schema, err := avro.SchemaForType(c20builtinHolder{})
	if err != nil {
		c.Violate("builtin", err.Error(), nil)
		return
	}
	used := map[string]int{}
	build := func() bool {
		for k := range used {
			delete(used, k)
		}
		_, err := schema.Codec(c20builtinHolder{})
		if err != nil {
			c.Violate("builtin", "codec build failed: "+err.Error(), nil)
			return false
		}
		return true
	}
	c.Eval(1)
	for round := 0; round < 3; round++ {
		avro.Register(reflect.TypeOf(null.Int{}), func(s avro.Schema, t reflect.Type, omit bool) (avro.Codec, error) {
			used["user-null"]++
			return avro.Int64Codec{}, nil
		})
		avro.Register(reflect.TypeOf(time.Time{}), func(s avro.Schema, t reflect.Type, omit bool) (avro.Codec, error) {
			used["user-time"]++
			return avrotime.StringCodec{}, nil
		})
		if !build() {
			return
		}
		if used["user-null"] == 0 || used["user-time"] == 0 {
			c.Violate("stale-registration", fmt.Sprintf("round %d: a user registration for null.Int/time.Time made after the library's own is not consulted (%v)", round, used), nil)
			return
		}
		avronull.RegisterCodecs()
		avrotime.RegisterCodecs()
		if !build() {
			return
		}
		if used["user-null"] != 0 || used["user-time"] != 0 {
			c.Violate("stale-registration", fmt.Sprintf("round %d: after the library re-registered its own codecs the superseded user builder was still consulted (%v)", round, used), nil)
			return
		}
		c.Count("builtin-reregistration-rounds", 1)
	}
}

func c20poison(s avro.Schema, typ reflect.Type, omit bool) (avro.Codec, error) {
	return nil, fmt.Errorf("builder registered for a pointer type was consulted for %s", typ)
}

var c20poisoned bool

func runC20(c *core.Ctx, i int) {
	if !c20poisoned {
		c20poisoned = true
		// registrations for pointer types of types that have no registration of their own, and of library types
		for _, t := range []reflect.Type{reflect.TypeOf((*UInt)(nil)), reflect.TypeOf((*UStruct)(nil)), reflect.TypeOf((*int64)(nil)), reflect.TypeOf((*string)(nil))} {
			avro.Register(t, c20poison)
		}
	}
	if c20ks == nil {
		_ = lib.SchemaFor
		c20ks = c20kinds()
	}
	if i%500 == 7 {
		c20builtin(c)
	}
	if i%64 == 3 {
		// a registered type as the root type of a file / codec, and a registered type under an enum schema
		c20rootAndEnum(c, c.Rand(i, 99))
	}
	if i%32 == 9 {
		c20concurrentRegistrations(c, c.Rand(i, 55))
	}
	if i%16 == 6 {
		c20codecOnly(c, c.Rand(i, 66))
	}
	if i%4 == 1 {
		// the library's own registrations (null.*, time.Time) in every position under every schema they accept
		c20builtinPositions(c, c.Rand(i, 77), 3)
	}
	r := c.Rand(i, 0)
	k := c20ks[i%len(c20ks)]
	log := newC20log()
	c20curLog = log
	// registration order scenarios: re-register 1..3 times, schema before/after codec
	nreg := 1 + r.IntN(3)
	var latest int
	order := r.IntN(3)
	// the registered schema changes with every registration (tagged), the last one must be emitted
	curSchema := ""
	regSchema := func() {
		c20gen++
		curSchema = k.schemaWith(fmt.Sprintf("reg-%d", c20gen))
		rs, err := avro.SchemaFromString(curSchema)
		if err != nil {
			c.Violate("harness", "registered schema does not parse: "+err.Error(), nil)
		}
		avro.RegisterSchema(k.rt, rs)
		c.Count("schema-registrations", 1)
	}
	if order == 0 {
		regSchema()
	}
	for g := 0; g < nreg; g++ {
		c20gen++
		latest = c20gen
		c20register(k, latest)
		// a registration for the pointer type is a registration for another type: it governs nothing here (the
		// library strips pointers before it consults the registry) and must not disturb T's own
		avro.Register(reflect.PointerTo(k.rt), c20poison)
		if order == 1 {
			regSchema()
		}
	}
	if order == 2 || curSchema == "" {
		regSchema()
	}
	if r.IntN(2) == 0 {
		// generate the holder's schema, then register a newer schema for the type: the next generation must see it
		lib.SchemaFor(k.holder)
		regSchema()
	}
	c.Journal(c.CurCase(), fmt.Sprintf("%s registrations=%d order=%d", k.name, nreg, order))
	// values
	n := 1 + r.IntN(5)
	var vals []reflect.Value
	for j := 0; j < n; j++ {
		v := reflect.New(k.holder).Elem()
		c20fill(r, k, k.holder, v, 0)
		vals = append(vals, v)
	}
	comp := compressions[r.IntN(3)]
	var buf bytes.Buffer
	sess, err := k.session(&buf, comp, []int{0, 64, 1 << 20}[r.IntN(3)])
	c.Eval(1)
	rep := map[string]any{"type": k.name, "registered_schema": curSchema}
	if err != nil {
		c.Violate("encoder", fmt.Sprintf("NewEncoderFor[holder[%s]] failed: %v", k.name, err), rep)
		return
	}
	for _, v := range vals {
		if err := sess.Encode(v); err != nil {
			c.Violate("encoder", err.Error(), rep)
			return
		}
	}
	if err := sess.Flush(); err != nil {
		c.Violate("encoder", err.Error(), rep)
		return
	}
	// latest registration wins
	var ids []int
	for id := range log.builds {
		ids = append(ids, id)
	}
	sort.Ints(ids)
	for _, id := range ids {
		if id != latest {
			c.Violate("stale-registration", fmt.Sprintf("%s: builder of registration %d was used although registration %d is the most recent", k.name, id, latest), rep)
			return
		}
	}
	if log.builds[latest] == 0 {
		c.Violate("not-governed", fmt.Sprintf("%s: the registered builder was never consulted while building the codec for holder[%s]", k.name, k.name), rep)
		return
	}
	// schema emitted at every position
	cont, perr := refavro.ReadContainer(buf.Bytes())
	if perr != nil {
		c.Violate("invalid-file", fmt.Sprintf("%s: reference reader rejects the file: %v", k.name, perr), rep)
		return
	}
	m := &c20model{k: k, regSchema: curSchema}
	want := stripAll(m.schemaFor(k.holder, false))
	if d := refavro.Diff(stripAll(cont.Schema), want, "schema"); d != "" {
		c.Violate("schema-position", fmt.Sprintf("%s: schema emitted differs from (documented mapping + registered schema): %s\n got %s", k.name, d, cont.SchemaJSON), rep)
		return
	}
	recs := cont.AllRecords()
	if len(recs) != n {
		c.Violate("count", fmt.Sprintf("%d records written, %d in file", n, len(recs)), rep)
		return
	}
	for j, d := range recs {
		if df := m.match(k.holder, vals[j], false, cont.Schema, d, fmt.Sprintf("rec[%d]", j)); df != "" {
			c.Violate("encoding-position", fmt.Sprintf("%s: %s", k.name, df), rep)
			return
		}
	}
	// at least once per occurrence (an implementation may legitimately encode in two passes); a bypass is
	// additionally visible to the reference decoder because the custom encodings transform the value
	if log.writes[latest] < m.writes {
		c.Violate("write-invocations", fmt.Sprintf("%s: custom Write invoked %d times, the values contain %d non-null occurrences of the type", k.name, log.writes[latest], m.writes), rep)
		return
	}
	c.Count("custom-writes", int64(m.writes))
	// decode: same type, custom Read once per non-null occurrence
	got, rerr := lib.ReadAll(buf.Bytes(), k.holder, false)
	if rerr != nil || len(got) != n {
		c.Violate("read", fmt.Sprintf("%s: ReadFile err=%v, %d of %d records", k.name, rerr, len(got), n), rep)
		return
	}
	for j := range got {
		if d := c20equal(vals[j], got[j], fmt.Sprintf("rec[%d]", j)); d != "" {
			c.Violate("roundtrip", fmt.Sprintf("%s: %s", k.name, d), rep)
			return
		}
	}
	// the same records framed the way other writers frame them (arrays and maps in several blocks, with byte sizes):
	// the custom codecs still govern their type
	if ff, err := refavro.WriteContainer([]byte(cont.SchemaJSON), cont.Schema, [][]any{recs}, &gen.RandChooser{R: r, Style: 1 + r.IntN(3)}, refavro.WriteOpts{Codec: []string{"null", "deflate", "snappy"}[r.IntN(3)]}); err == nil {
		got2, rerr := lib.ReadAll(ff, k.holder, false)
		if rerr != nil || len(got2) != n {
			c.Violate("read", fmt.Sprintf("%s: the same records re-framed by another writer: ReadFile err=%v, %d of %d records", k.name, rerr, len(got2), n), rep)
			return
		}
		for j := range got2 {
			if d := c20equal(vals[j], got2[j], fmt.Sprintf("rec[%d]", j)); d != "" {
				c.Violate("roundtrip", fmt.Sprintf("%s: the same records re-framed by another writer (sized / split array and map blocks): %s", k.name, d), rep)
				return
			}
		}
		c.Count("reframed-files-read", 1)
	} else {
		c.Violate("harness", "re-framing: "+err.Error(), nil)
		return
	}
	if log.reads[latest] < m.writes {
		c.Violate("read-invocations", fmt.Sprintf("%s: custom Read invoked %d times for %d non-null occurrences", k.name, log.reads[latest], m.writes), rep)
		return
	}
	c.Count("custom-reads", int64(log.reads[latest]))
	c.Count("registrations", int64(nreg))
	c.Count("kind."+k.name, 1)
	// projection: a target without the custom fields must skip them with the custom Skip
	type onlyPlain struct {
		Plain int64 `json:"plain"`
	}
	before := log.skips[latest]
	n2 := 0
	err = avro.ReadFile(bytes.NewReader(buf.Bytes()), onlyPlain{}, func(val unsafe.Pointer, rb *avro.ResourceBank) error {
		if (*onlyPlain)(val).Plain != vals[n2].FieldByName("Plain").Int() {
			return fmt.Errorf("plain field differs")
		}
		n2++
		rb.Close()
		return nil
	})
	if err != nil || n2 != n {
		c.Violate("skip", fmt.Sprintf("%s: reading with a target that lacks the custom fields failed: err=%v (%d of %d)", k.name, err, n2, n), rep)
		return
	}
	_ = before
	// epilogue: encoders, codecs and schemas for the holder now exist in this process. One more registration -
	// of the schema only, or of the builder only - and a new encoder must follow it: the most recent registration
	// wins whatever was built before it.
	if i%2 == 0 {
		regSchema()
	} else {
		c20gen++
		latest = c20gen
		c20register(k, latest)
	}
	rep["registered_schema"] = curSchema
	var buf2 bytes.Buffer
	sess2, err := k.session(&buf2, comp, 0)
	if err == nil {
		for _, v := range vals {
			if err == nil {
				err = sess2.Encode(v)
			}
		}
		if err == nil {
			err = sess2.Flush()
		}
	}
	if err != nil {
		c.Violate("encoder", fmt.Sprintf("%s: a new encoder after one more registration fails: %v", k.name, err), rep)
		return
	}
	cont2, perr := refavro.ReadContainer(buf2.Bytes())
	if perr != nil {
		c.Violate("invalid-file", fmt.Sprintf("%s: after one more registration the reference reader rejects the file: %v", k.name, perr), rep)
		return
	}
	m2 := &c20model{k: k, regSchema: curSchema}
	if d := refavro.Diff(stripAll(cont2.Schema), stripAll(m2.schemaFor(k.holder, false)), "schema"); d != "" {
		c.Violate("stale-registration", fmt.Sprintf("%s: an encoder created after a schema-only re-registration (with encoders for the same row type created before it) does not emit the most recent registered schema: %s\n got %s", k.name, d, cont2.SchemaJSON), rep)
		return
	}
	if i%2 == 1 && log.builds[latest] == 0 {
		c.Violate("stale-registration", fmt.Sprintf("%s: an encoder created after a builder-only re-registration did not consult the most recent builder (builds by id: %v)", k.name, log.builds), rep)
		return
	}
	recs2 := cont2.AllRecords()
	if len(recs2) != n {
		c.Violate("count", fmt.Sprintf("%d records written after re-registration, %d in file", n, len(recs2)), rep)
		return
	}
	for j, d := range recs2 {
		if df := m2.match(k.holder, vals[j], false, cont2.Schema, d, fmt.Sprintf("rec[%d]", j)); df != "" {
			c.Violate("encoding-position", fmt.Sprintf("%s (after one more registration): %s", k.name, df), rep)
			return
		}
	}
	c.Count("re-registration-epilogues", 1)
	c.Shape(fmt.Sprintf("%s|reg%d|order%d|%s", k.name, nreg, order, comp))
	c.Sample(map[string]any{"type": k.name, "registered_schema": k.schema, "registrations": nreg, "records": n, "custom_writes": m.writes})
}

func init() {
	core.Register(&core.Prop{
		ID:        "C20",
		Level:     "exploration",
		Technique: "runtime monitoring: instrumented custom codecs (unique id per registration, every Read/Write/Skip/New/Omit logged, value-transforming encodings) registered for 7 custom types placed in 15 positions of a generic holder struct; invocation log, emitted schema, reference-decoded bytes and round trip are checked per case",
		Rule: "custom types of struct, named int64, named string, named []int64, named []byte kinds with registered schemas primitive / array / record / [null,long]; positions: field, *T, **T, []T, []*T, map[string]T, map[string]*T, omitempty T, omitempty *T, nested struct field and slice; 1-3 registrations per case with RegisterSchema before/between/after; unregistered look-alike types alongside; the library's own registered types (null.Int/Float/Bool/String/Time, time.Time) in 10 positions (three pointer fields, map value, pointer map value, array of pointers, array, pointer to pointer, plain field) under every schema each accepts (long/int, double/float, string, timestamp-micros/millis, date, plain long; bare or [null,T]), decoded from reference-encoded records and written back; a struct type with a registered record schema and codec as the root type of NewEncoderFor/ReadFile/Schema.Codec; a named string type registered with an enum schema and an index codec as field, pointer, slice item and map value; " +
			"distinct_nontrivial = distinct (type, registrations, order, codec) combinations",
		Explanation: "Each custom codec writes a transformed encoding (e.g. v xor 0x2A), so a position that bypasses it is visible to the reference decoder, not only in the log. Oracle: only the most recent registration's builder is consulted; the schema at every position is the registered one under the documented mapping; Write and Read are each invoked at least once per non-null occurrence; unregistered look-alike types (same underlying kind) are encoded plainly; values round-trip.",
		Assumptions: []string{"custom codecs honour the omit argument (Omit = omit && zero); open finding c01.nested-null is kept out of the values", "concurrent registration is covered by C12 (porcupine register model)"},
		Modes: func(tier string) []core.Mode {
			m := []core.Mode{{Name: "plain", Variant: "plain"}, {Name: "checkptr", Variant: "checkptr", CaseDiv: 3}}
			return m
		},
		NumCases: func(c *core.Ctx) int { return c.Pick(7000, 140000) },
		Run:      runC20,
		Floors: func(a *core.Agg) []string {
			var u []string
			for _, k := range []string{"CInt", "CFloat", "CStr", "CSlice", "CBytes", "CStruct", "CNullable", "CStructStr"} {
				if a.C("kind."+k) < 50 {
					u = append(u, fmt.Sprintf("kind.%s=%d < 50", k, a.C("kind."+k)))
				}
			}
			for _, k := range []string{"null.Int", "null.Float", "null.Bool", "null.String", "null.Time", "time.Time"} {
				if a.C("builtin-positions."+k) < 1000 {
					u = append(u, fmt.Sprintf("builtin-positions.%s=%d < 1000", k, a.C("builtin-positions."+k)))
				}
			}
			if a.C("root-position-ok") < 20 || a.C("enum-registered-ok") < 20 {
				u = append(u, fmt.Sprintf("root-position-ok=%d enum-registered-ok=%d (< 20)", a.C("root-position-ok"), a.C("enum-registered-ok")))
			}
			if a.C("custom-writes") < 5000 || a.C("custom-reads") < 5000 {
				u = append(u, "too few custom invocations")
			}
			return u
		},
	})
}
