package props

import (
	"fmt"
	"math"
	"math/rand/v2"
	"os"
	"sync"
	"sync/atomic"
	"time"
	"unsafe"

	"github.com/philpearl/avro"
	avrotime "github.com/philpearl/avro/time"

	"verifharness/core"
	"verifharness/lib"
	"verifharness/refavro"
)

// C19 — logical date / timestamp types decode to the instant the spec defines.

type c19Rec struct {
	T time.Time `json:"t"`
}

// one record holding every interpretation at once (each field must keep its own logical type)
type c19All struct {
	D  time.Time `json:"d"`
	MS time.Time `json:"ms"`
	US time.Time `json:"us"`
	NS time.Time `json:"ns"`
	M2 time.Time `json:"m2"`
}

var c19all avro.Codec

func c19checkAll(c *core.Ctx, r interface{ Uint64() uint64 }) {
	if c19all == nil {
		s, err := avro.SchemaFromString(`{"type":"record","name":"all","fields":[{"name":"d","type":{"type":"int","logicalType":"date"}},{"name":"ms","type":{"type":"long","logicalType":"timestamp-millis"}},{"name":"us","type":{"type":"long","logicalType":"timestamp-micros"}},{"name":"ns","type":"long"},{"name":"m2","type":{"type":"long","logicalType":"timestamp-millis"}}]}`)
		if err == nil {
			c19all, err = s.Codec(c19All{})
		}
		if err != nil {
			c.Violate("build", "combined record: "+err.Error(), nil)
			return
		}
	}
	d := int64(int32(r.Uint64()>>40)) / 64
	ms, us, ns, m2 := int64(r.Uint64()>>22)-(1<<40), int64(r.Uint64()>>12)-(1<<50), int64(r.Uint64()>>3)-(1<<59), int64(r.Uint64()>>22)-(1<<40)
	var enc []byte
	for _, v := range []int64{d, ms, us, ns, m2} {
		enc = refavro.AppendLong(enc, v)
	}
	var rec c19All
	c19rb.Reset(enc)
	err := c19all.Read(c19rb, unsafe.Pointer(&rec))
	c.Eval(1)
	want := c19All{time.Unix(d*86400, 0), time.Unix(0, ms*1e6), time.Unix(0, us*1e3), time.Unix(0, ns), time.Unix(0, m2*1e6)}
	if err != nil || !rec.D.Equal(want.D) || !rec.MS.Equal(want.MS) || !rec.US.Equal(want.US) || !rec.NS.Equal(want.NS) || !rec.M2.Equal(want.M2) {
		c.Violate("long-decode", fmt.Sprintf("record with date/millis/micros/plain/millis fields (%d,%d,%d,%d,%d) decodes to %v (err %v), specification: %v", d, ms, us, ns, m2, rec, err, want), nil)
		return
	}
	c19wb.Reset()
	c19all.Write(c19wb, unsafe.Pointer(&want))
	if string(c19wb.Bytes()) != string(enc) {
		c.Violate("long-encode", fmt.Sprintf("record with date/millis/micros/plain/millis fields: wrote %x, the integers that decode back are %x", c19wb.Bytes(), enc), nil)
		return
	}
	c.Count("combined-records", 1)
}

// every position a time value can occupy under each interpretation: two nullable pointers (two allocations of
// the same kind in one record), map values, arrays of pointers, arrays of values, a plain field last
type c19Pos struct {
	P1 *time.Time           `json:"p1"`
	P2 *time.Time           `json:"p2"`
	M  map[string]time.Time `json:"m"`
	A  []*time.Time         `json:"a"`
	S  []time.Time          `json:"s"`
	T  time.Time            `json:"t"`
}

var c19pos [4]avro.Codec
var c19posRef [4]*refavro.Schema

func c19posJSON(ty string) string {
	return `{"type":"record","name":"pos","fields":[{"name":"p1","type":["null",` + ty + `]},{"name":"p2","type":["null",` + ty + `]},{"name":"m","type":{"type":"map","values":` + ty + `}},{"name":"a","type":{"type":"array","items":["null",` + ty + `]}},{"name":"s","type":{"type":"array","items":` + ty + `}},{"name":"t","type":` + ty + `}]}`
}

func c19checkPositions(c *core.Ctx, r *rand.Rand) {
	types := []string{`{"type":"int","logicalType":"date"}`, `{"type":"long","logicalType":"timestamp-millis"}`, `{"type":"long","logicalType":"timestamp-micros"}`, `"long"`}
	names := []string{"date", "timestamp-millis", "timestamp-micros", "plain-long"}
	mults := []int64{0, 1e6, 1e3, 1}
	for k, ty := range types {
		if c19pos[k] == nil {
			s, err := avro.SchemaFromString(c19posJSON(ty))
			if err == nil {
				c19pos[k], err = s.Codec(c19Pos{})
			}
			if err == nil {
				c19posRef[k], err = refavro.ParseSchema([]byte(c19posJSON(ty)))
			}
			if err != nil {
				c.Violate("build", fmt.Sprintf("%s in pointer/map/array positions: %v", names[k], err), nil)
				return
			}
		}
		val := func() int64 {
			if mults[k] == 0 {
				return int64(int32(r.Uint32())) >> uint(r.IntN(24))
			}
			lim := math.MaxInt64 / mults[k]
			v := int64(r.Uint64()) >> uint(r.IntN(40))
			if v > lim || v < -lim {
				v %= lim
			}
			return v
		}
		inst := func(v int64) time.Time {
			if mults[k] == 0 {
				return time.Unix(v*86400, 0)
			}
			return time.Unix(0, v*mults[k])
		}
		L := func(b []byte, v int64) []byte { return refavro.AppendLong(b, v) }
		na, ns := 1+r.IntN(4), 1+r.IntN(4)
		var vals []int64
		var enc []byte
		next := func() int64 { v := val(); vals = append(vals, v); return v }
		enc = L(L(enc, 1), next())   // p1
		enc = L(L(enc, 1), next())   // p2
		enc = L(enc, 1)              // m: one entry
		enc = append(L(enc, 1), 'k') //
		enc = L(L(enc, next()), 0)   //
		enc = L(enc, int64(na))      // a
		for j := 0; j < na; j++ {
			enc = L(L(enc, 1), next())
		}
		enc = L(L(enc, 0), int64(ns)) // s
		for j := 0; j < ns; j++ {
			enc = L(enc, next())
		}
		enc = L(L(enc, 0), next()) // t
		var rec c19Pos
		c19rb.Reset(enc)
		err := c19pos[k].Read(c19rb, unsafe.Pointer(&rec))
		c.Eval(1)
		if err != nil || rec.P1 == nil || rec.P2 == nil || len(rec.M) != 1 || len(rec.A) != na || len(rec.S) != ns {
			c.Violate("long-decode", fmt.Sprintf("%s in pointer/map/array positions: input %x decodes with err=%v to %+v", names[k], enc, err, rec), nil)
			return
		}
		got := []time.Time{*rec.P1, *rec.P2, rec.M["k"]}
		for _, p := range rec.A {
			if p == nil {
				c.Violate("long-decode", fmt.Sprintf("%s: non-null array item decoded as nil", names[k]), nil)
				return
			}
			got = append(got, *p)
		}
		got = append(append(got, rec.S...), rec.T)
		posName := func(j int) string {
			switch {
			case j == 0:
				return "first pointer field"
			case j == 1:
				return "second pointer field"
			case j == 2:
				return "map value"
			case j < 3+na:
				return "array-of-pointers item"
			case j < 3+na+ns:
				return "array item"
			}
			return "plain field"
		}
		for j, v := range vals {
			if !got[j].Equal(inst(v)) {
				c.Violate("long-decode", fmt.Sprintf("%s as %s: stored integer %d decodes to %s, specification: %s (all stored integers of the record: %v)", names[k], posName(j), v, got[j].UTC().Format(time.RFC3339Nano), inst(v).UTC().Format(time.RFC3339Nano), vals), nil)
				return
			}
		}
		c19wb.Reset()
		c19pos[k].Write(c19wb, unsafe.Pointer(&rec))
		c19rb.ExtractResourceBank().Close() // only now: rec points into the bank
		// judged as data (array/map block framing is the writer's choice): a reference reader must see the same datum
		wantD, e1 := refavro.DecodeAll(c19posRef[k], enc, 1)
		gotD, e2 := refavro.DecodeAll(c19posRef[k], c19wb.Bytes(), 1)
		if e1 != nil {
			c.Violate("harness", "reference decode of the input: "+e1.Error(), nil)
			return
		}
		if e2 != nil || refavro.Render(gotD[0]) != refavro.Render(wantD[0]) {
			c.Violate("long-encode", fmt.Sprintf("%s in pointer/map/array positions: wrote %x (reference reader: err=%v), the integers that decode back are %s", names[k], c19wb.Bytes(), e2, refavro.Render(wantD[0])), nil)
			return
		}
		c.Count("position-records."+names[k], 1)
	}
}

type c19codec struct {
	name  string
	codec avro.Codec
	// nanos per unit (0 for date)
	mult int64
}

var c19codecs []c19codec
var c19rb *avro.ReadBuf
var c19wb *avro.WriteBuf

func c19setup(c *core.Ctx) {
	_ = lib.SchemaFor
	for _, d := range []struct {
		name, typ string
		mult      int64
	}{
		{"date", `{"type":"int","logicalType":"date"}`, 0},
		{"timestamp-millis", `{"type":"long","logicalType":"timestamp-millis"}`, 1e6},
		{"timestamp-micros", `{"type":"long","logicalType":"timestamp-micros"}`, 1e3},
		{"plain-long", `"long"`, 1},
		// a logical type the implementation does not know is ignored (Avro specification): the field is a plain long
		{"plain-long/unknown-logical-type", `{"type":"long","logicalType":"x-vendor-instant"}`, 1},
		{"plain-long/object-form", `{"type":"long"}`, 1},
		// a logical type that does not apply to the base type is ignored as well: "date" belongs to int
		{"plain-long/date-annotation", `{"type":"long","logicalType":"date"}`, 1},
		{"plain-long/decimal-annotation", `{"type":"long","logicalType":"decimal"}`, 1},
	} {
		s, err := avro.SchemaFromString(`{"type":"record","name":"r","fields":[{"name":"t","type":` + d.typ + `}]}`)
		if err != nil {
			c.Violate("build", fmt.Sprintf("schema for %s does not parse: %v", d.name, err), nil)
			continue
		}
		cd, err := s.Codec(c19Rec{})
		if err != nil {
			c.Violate("build", fmt.Sprintf("codec for %s with a time.Time field refused: %v", d.name, err), nil)
			continue
		}
		c19codecs = append(c19codecs, c19codec{d.name, cd, d.mult})
	}
	// the exported codec types as a caller can construct them (their zero values), used directly: LongCodec is
	// documented as nanoseconds since the epoch
	c19codecs = append(c19codecs, c19codec{"plain-long/avrotime.LongCodec{} used directly", avrotime.LongCodec{}, 1})
	c19rb = avro.NewReadBuf(nil)
	c19wb = avro.NewWriteBuf(nil)
	if tz := os.Getenv("VERIF_TZ"); tz != "" {
		loc, err := time.LoadLocation(tz)
		if err != nil {
			c.Inconclusive("time zone database entry not available: " + tz)
		} else {
			time.Local = loc
			c.Count("local-zone."+tz, 1)
			c19dateCounter = "date.values.local-zone"
		}
	}
}

var c19dateCounter = "date.values"

func c19decode(cd avro.Codec, v int64) (time.Time, error) {
	var buf [12]byte
	c19rb.Reset(refavro.AppendLong(buf[:0], v))
	var rec c19Rec
	err := cd.Read(c19rb, unsafe.Pointer(&rec))
	return rec.T, err
}

func c19encode(cd avro.Codec, t time.Time) (int64, error) {
	c19wb.Reset()
	rec := c19Rec{T: t}
	cd.Write(c19wb, unsafe.Pointer(&rec))
	v, n, _, err := refavro.ReadLong(c19wb.Bytes())
	if err != nil || n != len(c19wb.Bytes()) {
		return 0, fmt.Errorf("wrote %x: not exactly one varint (%v)", c19wb.Bytes(), err)
	}
	return v, nil
}

func c19checkDate(c *core.Ctx, cd avro.Codec, d int64) {
	got, err := c19decode(cd, d)
	want := time.Unix(d*86400, 0).UTC()
	c.Eval(1)
	if err != nil || !got.Equal(want) {
		c.Violate("date-decode", fmt.Sprintf("date %d decodes to %s err=%v, specification: %s", d, got.Format(time.RFC3339), err, want.Format(time.RFC3339)), map[string]any{"days": d})
		return
	}
	if _, off := got.Zone(); off != 0 {
		c.Violate("date-decode", fmt.Sprintf("date %d decodes with UTC offset %d", d, off), nil)
	}
	if d < 0 {
		c.Count("date.pre1970", 1)
	}
	// write direction: midnight and a time within the day must both store d
	// the stored day is a function of the instant, whatever Location the time.Time carries
	for _, t := range []time.Time{want, want.Add(13*time.Hour + 7*time.Second), want.In(time.FixedZone("", 14*3600)), want.Add(20 * time.Hour).In(time.FixedZone("", 10*3600)),
		want.Add(3 * time.Hour).In(time.FixedZone("", -11*3600)), want.Add(23*time.Hour + 59*time.Minute).In(time.FixedZone("", 5*3600+1800))} {
		v, err := c19encode(cd, t)
		if err != nil || v != d {
			c.Violate("date-encode", fmt.Sprintf("time %s under logical date stores %d err=%v, want %d", t.Format(time.RFC3339), v, err, d), map[string]any{"days": d})
			return
		}
	}
}

// c19dateEdges: instants within nanoseconds of UTC midnight, on days across the whole range, written as dates.
func c19dateEdges(c *core.Ctx, cd avro.Codec, r *rand.Rand, n int) {
	for k := 0; k < n; k++ {
		day := int64(r.IntN(2*106000)) - 106000 // days whose instants fit int64 nanoseconds
		for _, dn := range []int64{-1, -2, -50, -100, -119, -120, -200, -500, -999, -1000, -1001, 0, 1, 999} {
			t := time.Unix(day*86400, 0).Add(time.Duration(dn)).UTC()
			want := day
			if dn < 0 {
				want = day - 1
			}
			got, err := c19encode(cd, t)
			c.Eval(1)
			c.Count("date.midnight-edges", 1)
			if err != nil || got != want {
				c.Violate("date-encode", fmt.Sprintf("time %s written as a date stores day %d (err=%v), the day that contains it is %d", t.Format(time.RFC3339Nano), got, err, want), nil)
				return
			}
		}
	}
}

func c19checkLong(c *core.Ctx, cc c19codec, v int64) {
	// only instants representable in int64 nanoseconds
	if v > math.MaxInt64/cc.mult || v < math.MinInt64/cc.mult {
		return
	}
	got, err := c19decode(cc.codec, v)
	want := time.Unix(0, v*cc.mult)
	c.Eval(1)
	if err != nil || !got.Equal(want) {
		c.Violate("long-decode", fmt.Sprintf("%s value %d decodes to %s err=%v, specification: %s", cc.name, v, got.Format(time.RFC3339Nano), err, want.UTC().Format(time.RFC3339Nano)), map[string]any{"type": cc.name, "value": v})
		return
	}
	if v < 0 {
		c.Count(cc.name+".pre1970", 1)
	}
	// exact on multiples of the unit
	back, err := c19encode(cc.codec, want)
	if err != nil || back != v {
		c.Violate("long-encode", fmt.Sprintf("%s: time %s stores %d err=%v, want %d", cc.name, want.UTC().Format(time.RFC3339Nano), back, err, v), map[string]any{"type": cc.name, "value": v})
	}
}

// c19checkWrite: |decode(write(t)) - t| < 1 unit, never later than t... (floor or nearest both < 1 unit)
func c19checkWrite(c *core.Ctx, cc c19codec, t time.Time) {
	v, err := c19encode(cc.codec, t)
	c.Eval(1)
	if err != nil {
		c.Violate("long-encode", fmt.Sprintf("%s: time %s: %v", cc.name, t.Format(time.RFC3339Nano), err), nil)
		return
	}
	if v > math.MaxInt64/cc.mult || v < math.MinInt64/cc.mult {
		c.Violate("long-encode", fmt.Sprintf("%s: time %s stores %d which is outside the representable range", cc.name, t.Format(time.RFC3339Nano), v), nil)
		return
	}
	dec := time.Unix(0, v*cc.mult)
	diff := t.Sub(dec)
	if diff < 0 {
		diff = -diff
	}
	if diff >= time.Duration(cc.mult) {
		c.Violate("long-encode", fmt.Sprintf("%s: time %s stores %d which decodes to %s (off by %v, resolution %v)", cc.name, t.UTC().Format(time.RFC3339Nano), v, dec.UTC().Format(time.RFC3339Nano), diff, time.Duration(cc.mult)),
			map[string]any{"type": cc.name, "time": t.Format(time.RFC3339Nano)})
	}
	if t.Before(time.Unix(0, 0)) {
		c.Count(cc.name+".write-pre1970", 1)
	}
}

// c19shared: the codecs are shared values; eight goroutines decode their own day counts and stored integers through
// them at the same time (private read buffers and destinations) and every result is the instant the
// specification assigns to *that* integer, as in the sequential sweeps.
func c19shared(c *core.Ctx, r *rand.Rand) {
	const G, N = 8, 16000
	type bad struct {
		name string
		v    int64
		got  time.Time
		want time.Time
		err  error
	}
	var mu sync.Mutex
	var first *bad
	var wg sync.WaitGroup
	var ready atomic.Int32
	seeds := make([]uint64, G)
	for g := range seeds {
		seeds[g] = r.Uint64()
	}
	for g := 0; g < G; g++ {
		wg.Add(1)
		go func(g int) {
			defer wg.Done()
			gr := rand.New(rand.NewPCG(seeds[g], uint64(g)))
			rb := avro.NewReadBuf(nil)
			ready.Add(1)
			for ready.Load() < G {
			}
			for k := 0; k < N; k++ {
				cc := c19codecs[(g+k)%4]
				if k < N/2 {
					cc = c19codecs[(g+k/512)%4] // runs through one codec
				}
				var v int64
				var want time.Time
				if cc.mult == 0 {
					v = int64(g)*100000 + int64(gr.IntN(90000)) - 400000
					if k < N/2 {
						v = int64(g)*100000 - 400000 + int64(k/64)%3 // rows clustered by date: runs of one day
					}
					want = time.Unix(v*86400, 0).UTC()
				} else {
					v = (int64(gr.Uint64()>>24) - 1<<38) + int64(g)
					want = time.Unix(0, v*cc.mult).UTC()
				}
				var buf [12]byte
				rb.Reset(refavro.AppendLong(buf[:0], v))
				var rec c19Rec
				err := cc.codec.Read(rb, unsafe.Pointer(&rec))
				if err != nil || !rec.T.Equal(want) {
					mu.Lock()
					if first == nil {
						first = &bad{cc.name, v, rec.T, want, err}
					}
					mu.Unlock()
					return
				}
			}
		}(g)
	}
	wg.Wait()
	c.Eval(G * N)
	c.Count("shared-codec-decodes", G*N)
	if first != nil {
		c.Violate("long-decode", fmt.Sprintf("with %d goroutines decoding through the shared %s codec at the same time, %d decodes to %s err=%v, specification: %s", G, first.name, first.v,
			first.got.UTC().Format(time.RFC3339Nano), first.err, first.want.Format(time.RFC3339Nano)), map[string]any{"value": first.v})
	}
}

func runC19(c *core.Ctx, i int) {
	if c19rb == nil {
		c19setup(c)
	}
	if len(c19codecs) != 9 {
		return
	}
	r := c.Rand(i, 0)
	dateC := c19codecs[0].codec
	thorough := !c.Quick()
	nDateChunks := 16
	if thorough {
		nDateChunks = 4096
	}
	switch {
	case i < nDateChunks:
		if thorough {
			base := int64(int32(uint32(i) << 20))
			for k := int64(0); k < 1<<20; k++ {
				c19checkDate(c, dateC, base+k)
			}
			c.Count(c19dateCounter, 1<<20)
		} else {
			// |d| <= 2^17 split over the chunks, boundaries, random
			span := int64(1<<18+1) / int64(nDateChunks)
			lo := -int64(1<<17) + int64(i)*span
			hi := lo + span
			if i == nDateChunks-1 {
				hi = 1<<17 + 1
			}
			n := int64(0)
			for d := lo; d < hi; d++ {
				c19checkDate(c, dateC, d)
				n++
			}
			if i == 0 {
				for _, d := range []int64{math.MinInt32, math.MinInt32 + 1, math.MaxInt32, math.MaxInt32 - 1, -719162, -719163, 2932896, 2932897, -141427, 106751, -106752} {
					c19checkDate(c, dateC, d)
					n++
				}
			}
			for k := 0; k < 60000; k++ {
				c19checkDate(c, dateC, int64(int32(r.Uint32())))
				n++
			}
			c.Count(c19dateCounter, n)
		}
		c.Shape(fmt.Sprintf("date-%d", i))
	default:
		for k := 0; k < 5000; k++ {
			c19checkAll(c, r)
		}
		for k := 0; k < 3000; k++ {
			c19checkPositions(c, r)
		}
		c19dateEdges(c, dateC, r, 2000)
		c19shared(c, r)
		for _, cc := range c19codecs[1:] {
			if i == nDateChunks {
				for _, b := range varintBoundaries() {
					c19checkLong(c, cc, b)
				}
				lim := math.MaxInt64 / cc.mult
				for _, b := range []int64{lim, lim - 1, -lim, -lim + 1, 0, -1, 1} {
					c19checkLong(c, cc, b)
				}
				// the integers the zero time.Time turns into under each unit (and their neighbours) are ordinary values
				var zt time.Time
				for _, z := range []int64{zt.UnixNano(), zt.UnixMicro(), zt.UnixMilli(), zt.Unix(), zt.Unix() / 86400} {
					for d := int64(-1); d <= 1; d++ {
						if v := z + d; v <= lim && v >= -lim {
							c19checkLong(c, cc, v)
							c.Count("zero-time-derived-values", 1)
						}
					}
				}
			}
			lim := math.MaxInt64 / cc.mult
			for k := 0; k < 30000; k++ {
				v := int64(r.Uint64()) >> uint(r.IntN(40))
				if v > lim || v < -lim {
					v %= lim
				}
				c19checkLong(c, cc, v)
			}
			for k := 0; k < 30000; k++ {
				// times with sub-unit remainders, before and after 1970, non-UTC locations
				ns := int64(r.Uint64()) >> uint(1+r.IntN(30))
				t := time.Unix(0, ns)
				switch r.IntN(3) {
				case 0:
					t = t.UTC()
				case 1:
					t = t.In(time.FixedZone("", (r.IntN(2*1439+1)-1439)*60))
				}
				c19checkWrite(c, cc, t)
			}
			c.Shape(fmt.Sprintf("%s-%d", cc.name, i))
		}
	}
	if i%8 == 0 {
		c.Sample(map[string]any{"chunk": i, "codecs": []string{"date", "timestamp-millis", "timestamp-micros", "plain-long"}})
	}
	_ = avrotime.DateCodec{}
}

func init() {
	core.Register(&core.Prop{
		ID:        "C19",
		Level:     "exploration",
		Technique: "runtime monitoring: codecs built by Schema.Codec for date/timestamp-millis/timestamp-micros/plain-long schemas, checked value by value against integer arithmetic on Unix time (exhaustive over all int32 day counts in the thorough tier)",
		Rule: "date: every day count with |d|<=2^17 plus boundaries plus 10^6 random int32 (quick), all 2^32 day counts (thorough); longs: ±2 around every power of two, representability limits, random values across magnitudes, random times with sub-unit remainders before/after 1970 in non-UTC locations; records with each interpretation in two pointer fields, a map value, arrays of pointers and of values and a plain field; the workload repeated (in full at the quick tier, 1/16 of the cases at the thorough tier) with the process's local zone set to New York and Lisbon; " +
			"distinct_nontrivial = distinct (interpretation, chunk) pairs completed",
		Explanation: "Decode oracle: time.Unix(d*86400,0) resp. time.Unix(0, v*unit), independent of time.Date normalisation. Encode oracle: the stored integer must decode (by the specification's meaning) to within one unit of the time and exactly on multiples of the unit; dates must store the floor day.",
		Modes: func(tier string) []core.Mode {
			// the instants are absolute: the process's local zone (here: zones with daylight saving, one of them
			// with a standard offset that changed since 1970) must make no difference
			div := 1
			if tier == "thorough" {
				div = 16
			}
			return []core.Mode{{Name: "plain", Variant: "plain"},
				{Name: "tz-newyork", Variant: "plain", Env: []string{"VERIF_TZ=America/New_York"}, CaseDiv: div},
				{Name: "tz-lisbon", Variant: "plain", Env: []string{"VERIF_TZ=Europe/Lisbon"}, CaseDiv: div}}
		},
		NumCases: func(c *core.Ctx) int {
			if c.Quick() {
				return 16 + 16
			}
			return 4096 + 64
		},
		Run: runC19,
		Floors: func(a *core.Agg) []string {
			var u []string
			if a.Tier == "thorough" && a.C("date.values") != 1<<32 {
				u = append(u, fmt.Sprintf("date.values=%d != 2^32", a.C("date.values")))
			}
			for _, k := range []string{"position-records.date", "position-records.timestamp-millis", "position-records.timestamp-micros", "position-records.plain-long", "date.values.local-zone"} {
				if a.C(k) < 10000 {
					u = append(u, fmt.Sprintf("%s=%d < 10000", k, a.C(k)))
				}
			}
			for _, k := range []string{"date.pre1970", "timestamp-millis.pre1970", "timestamp-micros.pre1970", "plain-long.pre1970", "timestamp-millis.write-pre1970"} {
				if a.C(k) < 10000 {
					u = append(u, fmt.Sprintf("%s=%d < 10000", k, a.C(k)))
				}
			}
			return u
		},
		Exhaustive: func(a *core.Agg) bool { return a.Tier == "thorough" && a.C("date.values") == 1<<32 },
	})
}
