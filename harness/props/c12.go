package props

import (
	"bytes"
	"fmt"
	"math/rand/v2"
	"os"
	"reflect"
	"runtime"
	"sort"
	"sync"
	"sync/atomic"
	"syscall"
	"time"
	"unsafe"

	"github.com/anishathalye/porcupine"
	"github.com/philpearl/avro"
	avronull "github.com/philpearl/avro/null"
	avrotime "github.com/philpearl/avro/time"

	"verifharness/core"
	"verifharness/gen"
	"verifharness/lib"
	"verifharness/model"
	"verifharness/refavro"
	"verifharness/statictypes"
)

// C12 — concurrent independent use is race-free and result-equivalent.

// pool of named types used as registry keys (few keys, many goroutines)
type ck0 struct{ V int64 }
type ck1 struct{ V int64 }
type ck2 struct{ V int64 }
type ck3 struct{ V int64 }

var ckTypes = []reflect.Type{reflect.TypeOf(ck0{}), reflect.TypeOf(ck1{}), reflect.TypeOf(ck2{}), reflect.TypeOf(ck3{})}

// holder struct types with one field of each key type
type ckh0 struct {
	K ck0 `json:"k"`
}
type ckh1 struct {
	K ck1 `json:"k"`
}
type ckh2 struct {
	K ck2 `json:"k"`
}
type ckh3 struct {
	K ck3 `json:"k"`
}

var ckHolders = []any{ckh0{}, ckh1{}, ckh2{}, ckh3{}}

// regOp is one recorded registry operation (client boundary).
type regOp struct {
	Key   int
	Write bool
	Val   int // id written / id observed
	Kind  string
}

var c12clock atomic.Int64

// builder observations: token -> builder id
var c12seen sync.Map

type ckCodec struct{ avro.Int64Codec }

func (ckCodec) New(r *avro.ReadBuf) unsafe.Pointer { return r.Alloc(reflect.TypeOf(int64(0))) }

func c12builder(id int) avro.CodecBuildFunc {
	return func(schema avro.Schema, typ reflect.Type, omit bool) (avro.Codec, error) {
		if schema.Object != nil {
			c12seen.Store(schema.Object.LogicalType, id)
		}
		return ckCodec{}, nil
	}
}

type c12VT struct {
	A int64  `json:"a"`
	B int64  `json:"b"`
	G int64  `json:"g"`
	S string `json:"s"`
}

type c12Big struct {
	X []*int64 `json:"x"`
}

type c12variant struct {
	text   string
	schema avro.Schema
	enc    []byte
}

// a registered map type whose builder delegates to the library's own map codec builder (re-entering the registry)
type c12RV struct {
	V int64 `json:"v"`
}
type c12RM map[string]c12RV
type c12RMHolder struct {
	M c12RM `json:"m"`
	N int64 `json:"n"`
}

var c12reentBuilds atomic.Int64

func c12reentBuilder(s avro.Schema, typ reflect.Type, omit bool) (avro.Codec, error) {
	c12reentBuilds.Add(1)
	runtime.Gosched() // user code: takes its time
	return avro.BuildMapCodec(s, typ, omit)
}

type c12shared struct {
	// decode/encode with a shared codec
	ds         *gen.DataSchema
	t          *gen.T
	codec      avro.Codec
	encs       [][]byte
	want       []reflect.Value
	file       []byte
	stat       *statictypes.Case
	statV      []reflect.Value
	statDat    []string
	types      []*gen.T
	schemas    []avro.Schema
	schemaJSON []string
	// parsed schema documents with every node kind (fixed, enum, unions, logical types), shared for Marshal
	docSchemas []avro.Schema
	docJSON    []string
	// one Go type under several schemas (field orders x top-level forms), each with the encoding of one value
	variants []c12variant
	// two payloads of one type with thousands of pointees each (bank arrays far beyond their first sizes)
	bigCodec avro.Codec
	bigEnc   [2][]byte
	// holder of a registered map type whose builder re-enters the library
	reentCodecSchema avro.Schema
	reentEnc         []byte
	// a codec that is shared but has never been used before the goroutines start (lazily initialised
	// state would be initialised concurrently); values include nil pointers to collections
	coldT     *gen.T
	coldCodec avro.Codec
	coldVals  []reflect.Value
	coldEnc   [][]byte
}

func c12prepare(c *core.Ctx, r *rand.Rand) *c12shared {
	sh := &c12shared{}
	for {
		sh.ds = gen.GenDataSchema(r, gen.DataOpts{MaxDepth: 2 + r.IntN(2), NoZeroWidth: true, CallerMode: true})
		sh.t = sh.ds.Target(r, sh.ds.S, gen.TargetOpts{PlainNullPrimOnly: true})
		codec, err := buildLibCodec(sh.ds.S, sh.t.RT())
		if err == nil {
			sh.codec = codec
			break
		}
	}
	var recs []any
	for k := 0; k < 6; k++ {
		d := sh.ds.GenDatum(r, sh.ds.S, gen.DatumOpts{MaxElems: 3}, nil)
		v := reflect.New(sh.t.RT()).Elem()
		if err := model.FillFromDatum(sh.ds.S, d, sh.t, v); err != nil {
			continue
		}
		enc, _ := refavro.Encode(nil, sh.ds.S, d, nil)
		sh.encs = append(sh.encs, enc)
		sh.want = append(sh.want, v)
		recs = append(recs, d)
	}
	sh.file, _ = refavro.WriteContainer([]byte(sh.ds.S.JSON()), sh.ds.S, [][]any{recs}, nil, refavro.WriteOpts{Codec: []string{"null", "deflate", "snappy"}[r.IntN(3)]})
	// static type for Encoder[T]
	sh.stat = statictypes.Cases[r.IntN(len(statictypes.Cases))]
	for k := 0; k < 4; k++ {
		sh.statV = append(sh.statV, gen.NewValue(r, sh.stat.IR, gen.ValOpts{MaxMapEntries: 1, NoBigStrings: true}))
	}
	var buf bytes.Buffer
	if err := sh.stat.Encode(&buf, sh.statV, lib.EncodeCfg{Compression: avro.CompressionSnappy, BlockSize: 64, Plan: lib.FlushPlan{AtEnd: 1}}); err == nil {
		if cont, err := refavro.ReadContainer(buf.Bytes()); err == nil {
			for _, d := range cont.AllRecords() {
				sh.statDat = append(sh.statDat, refavro.Render(d))
			}
		}
	}
	// cold shared codec: expectations come from a separately built codec instance
	sh.coldT = gen.StructOf(
		gen.Fld("PS", "ps", false, gen.PtrTo(gen.SliceOf(gen.Leaf(gen.KInt64)))),
		gen.Fld("PM", "pm", false, gen.PtrTo(gen.MapOf(gen.Leaf(gen.KString)))),
		gen.Fld("PP", "pp", false, gen.PtrTo(gen.PtrTo(gen.SliceOf(gen.Leaf(gen.KString))))),
		gen.Fld("T", "t", false, gen.Leaf(gen.KTime)),
		gen.Fld("NS", "ns", true, gen.Leaf(gen.KNullString)),
		gen.Fld("S", "s", true, gen.Leaf(gen.KString)),
	)
	if cs, err := lib.SchemaFor(sh.coldT.RT()); err == nil {
		warm, err1 := lib.CodecFor(cs, sh.coldT.RT())
		cold, err2 := lib.CodecFor(cs, sh.coldT.RT())
		if err1 == nil && err2 == nil {
			sh.coldCodec = cold
			wb := avro.NewWriteBuf(nil)
			for k := 0; k < 6; k++ {
				o := gen.ValOpts{MaxMapEntries: 1, NoBigStrings: true}
				if k%2 == 0 {
					o.Mode = gen.ModeEmpty // nil pointers to collections
				}
				v := gen.NewValue(r, sh.coldT, o)
				wb.Reset()
				warm.Write(wb, unsafe.Pointer(v.UnsafeAddr()))
				sh.coldVals = append(sh.coldVals, v)
				sh.coldEnc = append(sh.coldEnc, append([]byte{}, wb.Bytes()...))
			}
		}
	}
	// shared types for SchemaForType
	for k := 0; k < 4; k++ {
		t := gen.GenStruct(r, gen.TypeOpts{MaxDepth: 3, NoExcluded: true})
		s, err := lib.SchemaFor(t.RT())
		if err == nil {
			sh.types = append(sh.types, t)
			sh.schemas = append(sh.schemas, s)
			js, _ := s.Marshal()
			sh.schemaJSON = append(sh.schemaJSON, string(js))
		}
	}
	// variants: every order of (a,b,g) with s last, as a bare record, ["null",rec] and [rec,"null"]
	want := c12VT{A: 10, B: 20, G: 30, S: "x"}
	perms := [][]string{{"a", "b", "g"}, {"a", "g", "b"}, {"b", "a", "g"}, {"b", "g", "a"}, {"g", "a", "b"}, {"g", "b", "a"}}
	for _, pm := range perms {
		rec := `{"type":"record","name":"r","fields":[`
		var d refavro.Record
		for _, nm := range append(append([]string{}, pm...), "s") {
			if nm == "s" {
				rec += `{"name":"s","type":"string"}`
				d.Fields = append(d.Fields, want.S)
			} else {
				rec += `{"name":"` + nm + `","type":"long"},`
				d.Fields = append(d.Fields, map[string]int64{"a": want.A, "b": want.B, "g": want.G}[nm])
			}
		}
		rec += "]}"
		for form := 0; form < 3; form++ {
			text := []string{rec, `["null",` + rec + `]`, `[` + rec + `,"null"]`}[form]
			var datum any = &d
			if form > 0 {
				datum = &refavro.Union{Branch: 2 - form, Val: &d}
			}
			rs, err1 := refavro.ParseSchema([]byte(text))
			ls, err2 := avro.SchemaFromString(text)
			if err1 != nil || err2 != nil {
				continue
			}
			enc, err := refavro.Encode(nil, rs, datum, nil)
			if err != nil {
				continue
			}
			if _, err := ls.Codec(c12VT{}); err != nil {
				continue // a form the library does not support for a struct target is left out
			}
			sh.variants = append(sh.variants, c12variant{text, ls, enc})
		}
	}
	// big payloads
	if ls, err := avro.SchemaFromString(`{"type":"record","name":"big","fields":[{"name":"x","type":{"type":"array","items":["null","long"]}}]}`); err == nil {
		if codec, err := ls.Codec(c12Big{}); err == nil {
			sh.bigCodec = codec
			for k := 0; k < 2; k++ {
				n := 2500 + 700*k
				b := refavro.AppendLong(nil, int64(n))
				for j := 0; j < n; j++ {
					b = refavro.AppendLong(refavro.AppendLong(b, 1), int64(j*2+k))
				}
				sh.bigEnc[k] = refavro.AppendLong(b, 0)
			}
		}
	}
	// re-entrant builder
	if ls, err := avro.SchemaFromString(`{"type":"record","name":"h","fields":[{"name":"m","type":{"type":"map","values":{"type":"record","name":"rv","fields":[{"name":"v","type":"long"}]}}},{"name":"n","type":"long"}]}`); err == nil {
		sh.reentCodecSchema = ls
		sh.reentEnc = append(refavro.AppendLong(nil, 1), append(append(refavro.AppendLong(nil, 1), 'k'), append(refavro.AppendLong(nil, 7), append(refavro.AppendLong(nil, 0), refavro.AppendLong(nil, 9)...)...)...)...)
	}
	// shared parsed documents: one that is dense in fixed/enum nodes, the rest random
	dense := &refavro.Schema{Type: "record", ObjectForm: true, Name: "dense", Fields: []refavro.Field{
		{Name: "f", Type: &refavro.Schema{Type: "fixed", ObjectForm: true, Name: "f16", Size: 16}},
		{Name: "e", Type: &refavro.Schema{Type: "enum", ObjectForm: true, Name: "e1", Symbols: []string{"A", "B"}}},
		{Name: "af", Type: &refavro.Schema{Type: "array", ObjectForm: true, Items: &refavro.Schema{Type: "fixed", ObjectForm: true, Name: "f4", Size: 4, LogicalType: "decimal"}}},
		{Name: "mf", Type: &refavro.Schema{Type: "map", ObjectForm: true, Values: &refavro.Schema{Type: "fixed", ObjectForm: true, Name: "f1", Namespace: "a.b", Size: 1}}},
		{Name: "uf", Type: &refavro.Schema{Type: "union", Branches: []*refavro.Schema{{Type: "null"}, {Type: "fixed", ObjectForm: true, Name: "f12", Size: 12}}}},
		{Name: "ts", Type: &refavro.Schema{Type: "long", ObjectForm: true, LogicalType: "timestamp-micros"}},
	}}
	docs := []*refavro.Schema{dense, {Type: "fixed", ObjectForm: true, Name: "top", Size: 7}}
	for k := 0; k < 4; k++ {
		docs = append(docs, gen.GenSchemaDoc(r, 3))
	}
	for _, d := range docs {
		ps, err := avro.SchemaFromString(gen.RenderSchemaDoc(r, d))
		if err != nil {
			continue
		}
		js, err := ps.Marshal()
		if err != nil {
			continue
		}
		sh.docSchemas = append(sh.docSchemas, ps)
		sh.docJSON = append(sh.docJSON, string(js))
	}
	return sh
}

// c12deepBurst: eight goroutines leave a barrier and each build a codec for a self-containing type under a
// schema nested 150 levels deep (each build is several hundred calls deep on its own goroutine); every build
// gives what it gives alone.
type c12Deep struct {
	V    int64    `json:"v"`
	Next *c12Deep `json:"next"`
}

var c12deepSchema struct {
	once sync.Once
	s    avro.Schema
	err  error
}

func c12deepBurst(fail func(kind, msg string)) {
	c12deepSchema.once.Do(func() {
		text := `{"type":"record","name":"d150","fields":[{"name":"v","type":"long"}]}`
		for k := 149; k >= 1; k-- {
			text = fmt.Sprintf(`{"type":"record","name":"d%d","fields":[{"name":"v","type":"long"},{"name":"next","type":["null",%s]}]}`, k, text)
		}
		c12deepSchema.s, c12deepSchema.err = avro.SchemaFromString(text)
	})
	if c12deepSchema.err != nil {
		fail("build-deep", "schema: "+c12deepSchema.err.Error())
		return
	}
	const n = 8
	var ready atomic.Int32
	var wg sync.WaitGroup
	enc := []byte{2, 2, 4, 2, 6, 0} // v=1 -> v=2 -> v=3 -> null
	for g := 0; g < n; g++ {
		wg.Add(1)
		go func() {
			defer wg.Done()
			ready.Add(1)
			for ready.Load() < n {
			}
			codec, err := c12deepSchema.s.Codec(c12Deep{})
			if err != nil {
				fail("build-deep", "a codec that builds alone was refused while other builds were running: "+err.Error())
				return
			}
			var v c12Deep
			rb := avro.NewReadBuf(enc)
			if err := codec.Read(rb, unsafe.Pointer(&v)); err != nil || v.V != 1 || v.Next == nil || v.Next.V != 2 || v.Next.Next == nil || v.Next.Next.V != 3 || v.Next.Next.Next != nil {
				fail("build-deep", fmt.Sprintf("deep codec decodes a three-element chain as %+v err=%v", v, err))
			}
			rb.ExtractResourceBank().Close()
		}()
	}
	wg.Wait()
}

// c12zoneHammer: n goroutines leave a spin barrier and each parse, in a tight loop, pre-formatted timestamps
// that alternate between a few numeric offsets private to that goroutine. Every result must carry its own
// offset and instant. The texts are formatted beforehand so that the loop is nothing but zone-cache traffic:
// a lock-free cache whose reader can see one half of another goroutine's update shows up here as a wrong offset.
func c12zoneHammer(r *rand.Rand, n, iters int, fail func(kind, msg string)) int {
	type item struct {
		s string
		t time.Time
	}
	sets := make([][]item, n)
	for g := range sets {
		k := 2 + r.IntN(3)
		for j := 0; j < k; j++ {
			off := r.IntN(2*1439+1) - 1439
			if j > 0 && r.IntN(3) == 0 { // same quarter-hour slot / same absolute value as the previous one
				_, prev := sets[g][j-1].t.Zone()
				off = []int{-prev / 60, prev/60 + 1, prev/60 - 1}[r.IntN(3)]
				if off > 1439 || off < -1439 {
					off = 0
				}
			}
			t := time.Date(1990+r.IntN(60), time.Month(1+r.IntN(12)), 1+r.IntN(28), r.IntN(24), r.IntN(60), r.IntN(60), r.IntN(1e9), time.FixedZone("", off*60))
			sets[g] = append(sets[g], item{t.Format(time.RFC3339Nano), t})
		}
	}
	var ready atomic.Int32
	var stop atomic.Bool
	var wg sync.WaitGroup
	for g := 0; g < n; g++ {
		wg.Add(1)
		go func(my []item) {
			defer wg.Done()
			rb := avro.NewReadBuf(nil)
			ready.Add(1)
			for ready.Load() < int32(n) {
			}
			for it := 0; it < iters && !stop.Load(); it++ {
				x := my[it%len(my)]
				got, err, pan := libParse(rb, x.s)
				if err != nil || pan != nil || !sameTime(got, x.t) {
					stop.Store(true)
					fail("parse-time", fmt.Sprintf("zone hammer: %s parsed as %v err=%v panic=%v", x.s, got.Format(time.RFC3339Nano), err, pan))
					return
				}
			}
		}(sets[g])
	}
	wg.Wait()
	return n * iters
}

var c12freshSeq atomic.Int64

// c12freshBurst creates a key type that has never been looked up, releases builders and a registrar
// from a spin barrier (with seeded stagger), and finishes with a build once everything has returned.
// An unregistered key makes the holder's build fail (a struct under "long"): that is observation 0.
func c12freshBurst(c *core.Ctx, i, fk, key int, nextID *atomic.Int64, fail func(kind, msg string)) []porcupine.Operation {
	seq := c12freshSeq.Add(1)
	kt := reflect.StructOf([]reflect.StructField{{Name: "V", Type: reflect.TypeOf(int64(0)), Tag: reflect.StructTag(fmt.Sprintf(`json:"fresh%d_%d"`, os.Getpid(), seq))}})
	holder := reflect.New(reflect.StructOf([]reflect.StructField{{Name: "K", Type: kt, Tag: `json:"k"`}})).Interface()
	gr := c.Rand(i, uint64(5000+fk))
	builders := 2 + gr.IntN(5)
	registrars := 1 + gr.IntN(2)
	total := builders + registrars
	var ready atomic.Int32
	var mu sync.Mutex
	var ops []porcupine.Operation
	var wg sync.WaitGroup
	build := func(client int, tok string) {
		call := c12clock.Add(1)
		s := avro.Schema{Type: "record", Object: &avro.SchemaObject{Fields: []avro.SchemaRecordField{{Name: "k", Type: avro.Schema{Type: "long", Object: &avro.SchemaObject{LogicalType: tok}}}}}}
		_, err := s.Codec(holder)
		ret := c12clock.Add(1)
		seen, ok := c12seen.Load(tok)
		obs := 0
		switch {
		case err == nil && ok:
			obs = seen.(int)
			c12seen.Delete(tok)
		case err != nil && !ok:
		default:
			fail("build-fresh", fmt.Sprintf("err=%v builder-consulted=%v", err, ok))
			return
		}
		mu.Lock()
		ops = append(ops, porcupine.Operation{ClientId: client, Input: regOp{Key: key}, Call: call, Output: obs, Return: ret})
		mu.Unlock()
	}
	for g := 0; g < total; g++ {
		wg.Add(1)
		stagger := gr.IntN(400)
		go func(g, stagger int) {
			defer wg.Done()
			ready.Add(1)
			for ready.Load() < int32(total) {
			}
			for x := 0; x < stagger; x++ {
				_ = ready.Load()
			}
			if g < registrars {
				id := int(nextID.Add(1))
				call := c12clock.Add(1)
				avro.Register(kt, c12builder(id))
				ret := c12clock.Add(1)
				mu.Lock()
				ops = append(ops, porcupine.Operation{ClientId: g, Input: regOp{Key: key, Write: true, Val: id}, Call: call, Output: id, Return: ret})
				mu.Unlock()
				return
			}
			build(g, fmt.Sprintf("fresh-%d-%d-%d", i, fk, g))
		}(g, stagger)
	}
	wg.Wait()
	before := 0
	for _, op := range ops {
		if !op.Input.(regOp).Write && op.Output.(int) == 0 {
			before++
		}
	}
	c.Count("fresh.builds-that-saw-no-registration", int64(before))
	c.Count("fresh.builds-that-saw-a-registration", int64(builders-before))
	build(total, fmt.Sprintf("fresh-%d-%d-q", i, fk)) // at quiescence: the registration must be in effect
	c.Count("fresh.bursts", 1)
	return ops
}

type c12interval struct {
	kind      string
	call, ret int64
	g         int
}

var c12sig struct {
	buf [8192]uint8
	idx atomic.Int64
	on  atomic.Bool
	rng atomic.Uint64
}

func c12hook(id int) {
	if !c12sig.on.Load() {
		return
	}
	if i := c12sig.idx.Add(1); i < int64(len(c12sig.buf)) {
		c12sig.buf[i] = uint8(id)
	}
	x := c12sig.rng.Add(0x9e3779b97f4a7c15)
	x ^= x >> 29
	switch {
	case x%64 == 0:
		time.Sleep(5 * time.Microsecond)
	case x%4 == 0:
		runtime.Gosched()
	}
}

var c12hookInstalled bool

func runC12(c *core.Ctx, i int) {
	if !c12hookInstalled {
		c12hookInstalled = true
		_ = lib.SchemaFor
		avro.SetVerifHook(c12hook)
		avro.Register(reflect.TypeOf(c12RM{}), c12reentBuilder)
		for k, t := range ckTypes {
			_ = k
			avro.Register(t, c12builder(0))
			avro.RegisterSchema(t, avro.Schema{Type: "long", Object: &avro.SchemaObject{Name: "v0"}})
		}
	}
	r := c.Rand(i, 0)
	sh := c12prepare(c, r)
	N := []int{2, 4, 8, 16, 32}[i%5]
	opsPer := c.Pick(24, 60)
	// re-initialise the registries for this round
	for _, t := range ckTypes {
		avro.Register(t, c12builder(0))
		avro.RegisterSchema(t, avro.Schema{Type: "long", Object: &avro.SchemaObject{Name: "v0"}})
	}
	var mu sync.Mutex
	var codecHist, schemaHist []porcupine.Operation
	var intervals []c12interval
	var nextID atomic.Int64
	bankCh := make(chan *avro.ResourceBank, 64)
	var wg, closers sync.WaitGroup
	start := make(chan struct{})
	var fails []string
	fail := func(kind, msg string) {
		mu.Lock()
		if len(fails) < 5 {
			fails = append(fails, kind+": "+msg)
		}
		mu.Unlock()
	}
	closers.Add(1)
	go func() {
		defer closers.Done()
		for b := range bankCh {
			b.Close()
		}
	}()
	c12sig.idx.Store(0)
	c12sig.rng.Store(uint64(c.Seed)*1315423911 + uint64(i))
	c12sig.on.Store(true)
	for g := 0; g < N; g++ {
		wg.Add(1)
		go func(g int) {
			defer wg.Done()
			gr := c.Rand(i, uint64(100+g))
			rb := avro.NewReadBuf(nil)
			wb := avro.NewWriteBuf(nil)
			var myIv []c12interval
			var myCodecOps, mySchemaOps []porcupine.Operation
			<-start
			for k := 0; k < opsPer; k++ {
				kind := ""
				call := c12clock.Add(1)
				switch op := gr.IntN(112); {
				case op >= 108 && sh.bigCodec != nil: // independent decodes of thousands of pointees, results held across a yield
					kind = "decode-big"
					k := gr.IntN(2)
					var v c12Big
					rb.Reset(sh.bigEnc[k])
					if err := sh.bigCodec.Read(rb, unsafe.Pointer(&v)); err != nil {
						fail(kind, err.Error())
						break
					}
					runtime.Gosched()
					for j, p := range v.X {
						if p == nil || *p != int64(j*2+k) {
							fail(kind, fmt.Sprintf("item %d of payload %d is not %d after other goroutines decoded", j, k, j*2+k))
							break
						}
					}
					rb.ExtractResourceBank().Close()
				case op >= 104 && sh.reentEnc != nil: // a registered builder that re-enters the library while others Register
					kind = "build-reentrant"
					codec, err := sh.reentCodecSchema.Codec(c12RMHolder{})
					if err != nil {
						fail(kind, err.Error())
						break
					}
					var h c12RMHolder
					rb.Reset(sh.reentEnc)
					if err := codec.Read(rb, unsafe.Pointer(&h)); err != nil || h.N != 9 || len(h.M) != 1 || h.M["k"].V != 7 {
						fail(kind, fmt.Sprintf("decoded %+v err=%v", h, err))
					}
					rb.ExtractResourceBank().Close()
				case op >= 100 && len(sh.variants) > 0: // one Go type under several schemas, built concurrently
					kind = "build-variant"
					v := sh.variants[gr.IntN(len(sh.variants))]
					codec, err := v.schema.Codec(c12VT{})
					if err != nil {
						fail(kind, err.Error())
						break
					}
					var got c12VT
					rb.Reset(v.enc)
					if err := codec.Read(rb, unsafe.Pointer(&got)); err != nil || got.A != 10 || got.B != 20 || got.G != 30 || got.S != "x" {
						fail(kind, fmt.Sprintf("codec built for %s decodes its own encoding as %+v err=%v", v.text, got, err))
					}
					rb.ExtractResourceBank().Close()
				case op < 14: // decode with the shared codec into a private target
					kind = "decode-shared"
					j := gr.IntN(len(sh.encs))
					v := reflect.New(sh.t.RT()).Elem()
					rb.Reset(sh.encs[j])
					if err := sh.codec.Read(rb, unsafe.Pointer(v.UnsafeAddr())); err != nil {
						fail(kind, err.Error())
					} else if d := model.EqualNorm(sh.t, sh.want[j], v, false, "v"); d != "" {
						fail(kind, d)
					}
					rb.ExtractResourceBank().Close()
				case op < 18 && sh.coldCodec != nil: // encode with the never-before-used shared codec
					kind = "encode-cold-shared"
					j := gr.IntN(len(sh.coldVals))
					wb.Reset()
					sh.coldCodec.Write(wb, unsafe.Pointer(sh.coldVals[j].UnsafeAddr()))
					if string(wb.Bytes()) != string(sh.coldEnc[j]) {
						fail(kind, fmt.Sprintf("bytes %x differ from those of a codec used alone %x", wb.Bytes(), sh.coldEnc[j]))
					}
				case op < 26: // encode with the shared codec into a private buffer
					kind = "encode-shared"
					j := gr.IntN(len(sh.encs))
					wb.Reset()
					sh.codec.Write(wb, unsafe.Pointer(sh.want[j].UnsafeAddr()))
					if ds, err := refavro.DecodeAll(sh.ds.S, wb.Bytes(), 1); err != nil {
						fail(kind, err.Error())
					} else if d := model.MatchUnder(sh.ds.S, sh.t, sh.want[j], false, ds[0], "v"); d != "" {
						fail(kind, d)
					}
				case op < 36: // whole ReadFile, banks closed by another goroutine
					kind = "readfile"
					n := 0
					err := avro.ReadFile(bytes.NewReader(sh.file), reflect.New(sh.t.RT()).Interface(), func(val unsafe.Pointer, bank *avro.ResourceBank) error {
						if d := model.EqualNorm(sh.t, sh.want[n], reflect.NewAt(sh.t.RT(), val).Elem(), false, "v"); d != "" {
							fail(kind, d)
						}
						n++
						bankCh <- bank // closed on another goroutine; the value is not touched again
						return nil
					})
					if err != nil || n != len(sh.want) {
						fail(kind, fmt.Sprintf("err=%v n=%d", err, n))
					}
				case op < 44: // Encoder[T] on a private writer
					kind = "encoder"
					var buf bytes.Buffer
					if err := sh.stat.Encode(&buf, sh.statV, lib.EncodeCfg{NoScratch: true, Compression: compressions[gr.IntN(3)], BlockSize: 64, Plan: lib.FlushPlan{AtEnd: 1}}); err != nil {
						fail(kind, err.Error())
					} else if cont, err := refavro.ReadContainer(buf.Bytes()); err != nil {
						fail(kind, err.Error())
					} else {
						for n, d := range cont.AllRecords() {
							if n >= len(sh.statDat) || refavro.Render(d) != sh.statDat[n] {
								fail(kind, "record differs from the sequential run")
								break
							}
						}
					}
				case op < 49: // serialise and parse schemas (private results from shared Schema values)
					kind = "schema-json"
					j := gr.IntN(len(sh.types) + len(sh.docSchemas))
					var sc avro.Schema
					var wantJSON string
					if j < len(sh.types) {
						sc, wantJSON = sh.schemas[j], sh.schemaJSON[j]
					} else {
						sc, wantJSON = sh.docSchemas[j-len(sh.types)], sh.docJSON[j-len(sh.types)]
					}
					out, err := sc.Marshal()
					keep := string(out)
					runtime.Gosched()
					if err != nil || keep != wantJSON || string(out) != wantJSON {
						fail(kind, "Marshal output differs from the sequential result")
						break
					}
					back, err := avro.SchemaFromString(keep)
					if err != nil || !reflect.DeepEqual(libToIR(back), libToIR(sc)) {
						fail(kind, "parsing the marshalled schema gives a different schema")
					}
				case op < 54: // schema generation on shared types
					kind = "schema-for-type"
					j := gr.IntN(len(sh.types))
					s, err := lib.SchemaFor(sh.types[j].RT())
					if err != nil || !reflect.DeepEqual(s, sh.schemas[j]) {
						fail(kind, "schema differs from the sequential result")
					}
				case op < 62: // codec construction for a fresh type, then use it
					kind = "build-codec"
					codec, err := buildLibCodec(sh.ds.S, sh.t.RT())
					if err != nil {
						fail(kind, err.Error())
						break
					}
					j := gr.IntN(len(sh.encs))
					v := reflect.New(sh.t.RT()).Elem()
					rb.Reset(sh.encs[j])
					if err := codec.Read(rb, unsafe.Pointer(v.UnsafeAddr())); err != nil || model.EqualNorm(sh.t, sh.want[j], v, false, "v") != "" {
						fail(kind, "freshly built codec decodes differently")
					}
					rb.ExtractResourceBank().Close()
				case op < 64: // the library's own sub-packages re-register their codecs (idempotent)
					kind = "register-builtin"
					if gr.IntN(2) == 0 {
						avrotime.RegisterCodecs()
					} else {
						avronull.RegisterCodecs()
					}
				case op < 72: // timestamps with arbitrary zone offsets (cache insertions)
					kind = "parse-time"
					for rep := 0; rep < 48; rep++ { // a burst: goroutines hammer the zone cache with different offsets
						off := gr.IntN(2*1439+1) - 1439
						t := time.Date(2000+gr.IntN(50), time.Month(1+gr.IntN(12)), 1+gr.IntN(28), gr.IntN(24), gr.IntN(60), gr.IntN(60), gr.IntN(1e9), time.FixedZone("", off*60))
						s := t.Format(time.RFC3339Nano)
						got, err, pan := libParse(rb, s)
						if err != nil || pan != nil || !sameTime(got, t) {
							fail(kind, fmt.Sprintf("%s parsed as %v err=%v", s, got, err))
							break
						}
					}
				case op < 79: // Register a uniquely identifiable builder
					kind = "register"
					key := gr.IntN(len(ckTypes))
					id := int(nextID.Add(1))
					avro.Register(ckTypes[key], c12builder(id))
					ret := c12clock.Add(1)
					myCodecOps = append(myCodecOps, porcupine.Operation{ClientId: g, Input: regOp{Key: key, Write: true, Val: id}, Call: call, Output: id, Return: ret})
				case op < 89: // build a codec for a holder of a key type: which builder was used?
					kind = "build-registered"
					key := gr.IntN(len(ckTypes))
					tok := fmt.Sprintf("tok-%d-%d-%d", i, g, k)
					s := avro.Schema{Type: "record", Object: &avro.SchemaObject{Fields: []avro.SchemaRecordField{{Name: "k", Type: avro.Schema{Type: "long", Object: &avro.SchemaObject{LogicalType: tok}}}}}}
					_, err := s.Codec(ckHolders[key])
					ret := c12clock.Add(1)
					seen, ok := c12seen.Load(tok)
					if err != nil || !ok {
						fail(kind, fmt.Sprintf("registered builder not consulted: err=%v", err))
						break
					}
					c12seen.Delete(tok)
					myCodecOps = append(myCodecOps, porcupine.Operation{ClientId: g, Input: regOp{Key: key}, Call: call, Output: seen.(int), Return: ret})
				case op < 94: // RegisterSchema
					kind = "register-schema"
					key := gr.IntN(len(ckTypes))
					id := int(nextID.Add(1))
					avro.RegisterSchema(ckTypes[key], avro.Schema{Type: "long", Object: &avro.SchemaObject{Name: fmt.Sprintf("v%d", id)}})
					ret := c12clock.Add(1)
					mySchemaOps = append(mySchemaOps, porcupine.Operation{ClientId: g, Input: regOp{Key: key, Write: true, Val: id}, Call: call, Output: id, Return: ret})
				default: // SchemaForType on a holder: which registered schema is emitted?
					kind = "schema-registered"
					key := gr.IntN(len(ckTypes))
					s, err := avro.SchemaForType(ckHolders[key])
					ret := c12clock.Add(1)
					id := -1
					if err == nil && s.Object != nil && len(s.Object.Fields) == 1 && s.Object.Fields[0].Type.Object != nil {
						fmt.Sscanf(s.Object.Fields[0].Type.Object.Name, "v%d", &id)
					}
					if id < 0 {
						fail(kind, fmt.Sprintf("registered schema not emitted: err=%v", err))
						break
					}
					mySchemaOps = append(mySchemaOps, porcupine.Operation{ClientId: g, Input: regOp{Key: key}, Call: call, Output: id, Return: ret})
				}
				myIv = append(myIv, c12interval{kind, call, c12clock.Add(1), g})
			}
			mu.Lock()
			intervals = append(intervals, myIv...)
			codecHist = append(codecHist, myCodecOps...)
			schemaHist = append(schemaHist, mySchemaOps...)
			mu.Unlock()
		}(g)
	}
	close(start)
	// a round normally takes well under a second. If its goroutines are still not done after three minutes the
	// process dumps all stacks and kills itself, which the orchestrator treats like its own watchdog (inconclusive,
	// retried once, the same case twice = no-termination)
	roundDone := make(chan struct{})
	go func() {
		select {
		case <-roundDone:
		case <-time.After(3 * time.Minute):
			buf := make([]byte, 1<<20)
			fmt.Fprintf(os.Stderr, "C12 round %d: goroutines not finished after 3 minutes\n%s\n", i, buf[:runtime.Stack(buf, true)])
			syscall.Kill(os.Getpid(), syscall.SIGKILL)
		}
	}()
	wg.Wait()
	close(roundDone)
	c12sig.on.Store(false)
	close(bankCh)
	closers.Wait()
	c.Eval(N * opsPer)
	c.Count("operations", int64(N*opsPer))
	// fresh keys: a registration racing with the very first codec builds for a type the library has
	// never seen, then a build at quiescence; all of it goes into the codec-registry history
	for fk := 0; fk < 6 && len(fails) == 0; fk++ {
		ops := c12freshBurst(c, i, fk, 1000+fk, &nextID, fail)
		codecHist = append(codecHist, ops...)
	}
	if i%8 == 3 && len(fails) == 0 {
		c12deepBurst(fail)
		c.Count("deep-build-bursts", 1)
	}
	if i%4 == 1 && len(fails) == 0 {
		zr := rand.New(rand.NewPCG(uint64(c.Seed), uint64(i)*977+5))
		c.Count("zone-hammer-parses", int64(c12zoneHammer(zr, []int{2, 4, 8, 16}[zr.IntN(4)], 4000, fail)))
	}
	for _, f := range fails {
		c.Violate("result-differs", fmt.Sprintf("under %d goroutines an operation did not produce its sequential result: %s", N, f), map[string]any{"goroutines": N})
	}
	if len(fails) > 0 {
		return
	}
	// overlapping operation-kind pairs (evidence that operations really ran concurrently)
	pairs := map[string]bool{}
	for a := 0; a < len(intervals) && a < 400; a++ {
		for b := a + 1; b < len(intervals) && b < 400; b++ {
			x, y := intervals[a], intervals[b]
			if x.call < y.ret && y.call < x.ret {
				k := x.kind + "~" + y.kind
				if y.kind < x.kind {
					k = y.kind + "~" + x.kind
				}
				if !pairs[k] {
					pairs[k] = true
					c.Count("overlap."+k, 1)
				}
			}
		}
	}
	c.Count("overlapping-kind-pairs", int64(len(pairs)))
	// linearizability of the registries, partitioned by key
	pmodel := porcupine.Model{
		Partition: func(h []porcupine.Operation) [][]porcupine.Operation {
			m := map[int][]porcupine.Operation{}
			for _, op := range h {
				m[op.Input.(regOp).Key] = append(m[op.Input.(regOp).Key], op)
			}
			var out [][]porcupine.Operation
			for _, v := range m {
				out = append(out, v)
			}
			return out
		},
		Init: func() any { return 0 },
		Step: func(st, in, out any) (bool, any) {
			op := in.(regOp)
			if op.Write {
				return true, op.Val
			}
			return out.(int) == st.(int), st
		},
		DescribeOperation: func(in, out any) string {
			op := in.(regOp)
			if op.Write {
				return fmt.Sprintf("register(key%d, builder %d)", op.Key, op.Val)
			}
			return fmt.Sprintf("build(key%d) -> builder %v", op.Key, out)
		},
	}
	for name, hist := range map[string][]porcupine.Operation{"codec-registry": codecHist, "schema-registry": schemaHist} {
		if len(hist) == 0 {
			continue
		}
		res := porcupine.CheckOperationsTimeout(pmodel, hist, 60*time.Second)
		c.Count("porcupine.histories", 1)
		c.Count("porcupine.operations", int64(len(hist)))
		switch res {
		case porcupine.Ok:
			c.Count("porcupine.ok", 1)
		case porcupine.Unknown:
			c.Count("porcupine.unknown", 1)
			c.Inconclusive(fmt.Sprintf("porcupine timed out on %s history of %d operations", name, len(hist)))
		case porcupine.Illegal:
			var lines []string
			for _, op := range hist {
				lines = append(lines, fmt.Sprintf("client %d [%d,%d] %s", op.ClientId, op.Call, op.Return, pmodel.DescribeOperation(op.Input, op.Output)))
			}
			if len(lines) > 80 {
				lines = lines[:80]
			}
			c.Violate("not-linearizable", fmt.Sprintf("%s history of %d operations under %d goroutines is not linearizable against the register-per-key model (last registration wins)", name, len(hist), N),
				map[string]any{"history": lines})
			return
		}
	}
	// interleaving signature of this round: the order in which the goroutines' operations completed
	// (client boundary, independent of hooks) plus the order of hook-point hits where call sites exist
	n := c12sig.idx.Load()
	if n > int64(len(c12sig.buf)) {
		n = int64(len(c12sig.buf))
	}
	sort.Slice(intervals, func(a, b int) bool { return intervals[a].ret < intervals[b].ret })
	var order []byte
	for _, iv := range intervals {
		order = append(order, byte(iv.g))
	}
	c.Shape(fmt.Sprintf("N%d|%x|%x", N, order, c12sig.buf[:n]))
	c.Count("hook-hits-in-rounds", n)
	c.Sample(map[string]any{"goroutines": N, "ops_per_goroutine": opsPer, "overlapping_kind_pairs": len(pairs), "codec_registry_history": len(codecHist), "schema_registry_history": len(schemaHist)})
}

func init() {
	core.Register(&core.Prop{
		ID:        "C12",
		Level:     "exploration",
		Technique: "runtime monitoring: the Go race detector over a mixed concurrent workload with seeded yields at hook points, per-operation comparison with the sequential result, and porcupine linearizability checking of recorded registry histories (register-per-key model)",
		Rule: "rounds of N in {2,4,8,16,32} goroutines x 24-60 seeded operations each: decode/encode with one shared codec into private targets/buffers, whole ReadFiles whose banks are closed on another goroutine, Encoder[T] on private writers, SchemaForType and Schema.Codec on shared types, timestamp parsing with arbitrary zone offsets, Register/RegisterSchema of uniquely identifiable builders on 4 keys while others build codecs/schemas for them; Marshal of shared parsed schema documents containing every node kind; one Go type built under 18 schema variants (field orders x bare / [null,rec] / [rec,null]) at once; a registered builder that re-enters the library (BuildMapCodec) while others Register; after each round 6 bursts in which 1-2 registrations race with the first 2-6 codec builds for a brand-new key type (spin barrier, seeded stagger) followed by a build at quiescence; hook function = seeded Gosched/5us sleep between critical sections; " +
			"distinct_nontrivial = distinct interleaving signatures (order of hook-point hits per round)",
		Explanation: "(1) the race build runs with GORACE=halt_on_error=1: a report kills the child and is a violation (a deliberately racy canary process proves the detector is live); (2) every operation has private inputs, so its result must equal the model/sequential result; (3) registry histories are recorded at the client boundary from one monotonic counter with unique written values and checked per key by porcupine (60 s cap => inconclusive).",
		Assumptions: []string{"'all interleavings' is restated as the interleavings produced; the evidence reports operations, overlapping operation-kind pairs and distinct signatures"},
		Modes: func(tier string) []core.Mode {
			m := []core.Mode{
				{Name: "race", Variant: "race", Env: []string{"GORACE=halt_on_error=1"}, NoRlimit: true},
				{Name: "race-p4", Variant: "race", Env: []string{"GORACE=halt_on_error=1", "GOMAXPROCS=4"}, NoRlimit: true, CaseDiv: 2},
			}
			if tier == "thorough" {
				m = append(m, core.Mode{Name: "race-go126", Variant: "go126race", Env: []string{"GORACE=halt_on_error=1"}, NoRlimit: true, CaseDiv: 2},
					core.Mode{Name: "plain", Variant: "plain", CaseDiv: 2})
			}
			return m
		},
		NumCases: func(c *core.Ctx) int { return c.Pick(480, 12000) },
		Run:      runC12,
		Floors: func(a *core.Agg) []string {
			var u []string
			if a.C("operations") < 10000 {
				u = append(u, fmt.Sprintf("operations=%d < 10000", a.C("operations")))
			}
			if len(a.Shapes) < 50 {
				u = append(u, fmt.Sprintf("distinct interleaving signatures %d < 50", len(a.Shapes)))
			}
			if a.C("porcupine.ok") < 100 {
				u = append(u, fmt.Sprintf("porcupine.ok=%d < 100", a.C("porcupine.ok")))
			}
			if a.C("overlapping-kind-pairs") < 1000 {
				u = append(u, fmt.Sprintf("overlapping-kind-pairs=%d < 1000", a.C("overlapping-kind-pairs")))
			}
			return u
		},
	})
}
