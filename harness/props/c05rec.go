package props

import (
	"fmt"
	"math/rand/v2"
	"reflect"
	"unsafe"

	"github.com/philpearl/avro"

	"verifharness/core"
	"verifharness/gen"
	"verifharness/model"
	"verifharness/refavro"
)

// C05, self-containing Go types: a recursive Go type cannot be given a schema by SchemaForType, but it is a
// legal destination for any finite, hand-nested schema (trees, linked lists, bags of bags). Decoding one level
// must not disturb the enclosing, half-built levels of the same type.

type RNode struct {
	Name  string           `json:"name"`
	Kids  map[string]RNode `json:"kids"`
	Extra int64            `json:"extra"`
	Tail  string           `json:"tail"`
}

type RBag struct {
	Items []RItem `json:"items"`
	Tag   string  `json:"tag"`
}

type RItem struct {
	Sub map[string]RBag `json:"sub"`
	N   int64           `json:"n"`
}

type RList struct {
	V    int64  `json:"v"`
	Next *RList `json:"next"`
	S    string `json:"s"`
}

type RTree struct {
	L    *RTree  `json:"l"`
	V    string  `json:"v"`
	R    *RTree  `json:"r"`
	Kids []RTree `json:"kids"`
}

type RMapPtr struct {
	M map[string]*RMapPtr `json:"m"`
	V int64               `json:"v"`
	A []*RMapPtr          `json:"a"`
}

type RComment struct {
	ID      int64       `json:"id"`
	Replies []*RComment `json:"replies"`
}

var c05deepTypes = []reflect.Type{reflect.TypeOf(RList{}), reflect.TypeOf(RComment{})}

var c05recTypes = []reflect.Type{reflect.TypeOf(RNode{}), reflect.TypeOf(RBag{}), reflect.TypeOf(RList{}), reflect.TypeOf(RTree{}), reflect.TypeOf(RMapPtr{})}
var c05recIR = map[reflect.Type]*gen.T{}

// c05recSchema nests the type's schema to the given depth; at depth 0 the self-containing fields are left
// out of the schema (the struct field is simply not named), and scalar fields are left out now and then.
func c05recSchema(r *rand.Rand, ds *gen.DataSchema, rt reflect.Type, depth int, names *int) *refavro.Schema {
	switch rt.Kind() {
	case reflect.String:
		return &refavro.Schema{Type: "string"}
	case reflect.Int64:
		s := &refavro.Schema{Type: "long"}
		ds.Hints[s] = &gen.Hint{Bits: 64}
		return s
	case reflect.Map:
		v := c05recSchema(r, ds, rt.Elem(), depth, names)
		if v == nil {
			return nil
		}
		return &refavro.Schema{Type: "map", ObjectForm: true, Values: v}
	case reflect.Slice:
		v := c05recSchema(r, ds, rt.Elem(), depth, names)
		if v == nil {
			return nil
		}
		return &refavro.Schema{Type: "array", ObjectForm: true, Items: v}
	case reflect.Pointer:
		v := c05recSchema(r, ds, rt.Elem(), depth, names)
		if v == nil {
			return nil
		}
		return &refavro.Schema{Type: "union", Branches: []*refavro.Schema{{Type: "null"}, v}}
	case reflect.Struct:
		if depth < 0 {
			return nil
		}
		*names++
		s := &refavro.Schema{Type: "record", ObjectForm: true, Name: fmt.Sprintf("L%d", *names), Fields: []refavro.Field{}}
		for i := 0; i < rt.NumField(); i++ {
			f := rt.Field(i)
			scalar := f.Type.Kind() == reflect.String || f.Type.Kind() == reflect.Int64
			if scalar && r.IntN(6) == 0 {
				continue
			}
			fs := c05recSchema(r, ds, f.Type, depth-1, names)
			if fs == nil {
				continue
			}
			s.Fields = append(s.Fields, refavro.Field{Name: f.Tag.Get("json"), Type: fs})
		}
		return s
	}
	panic("c05recSchema: " + rt.String())
}

func c05recursive(c *core.Ctx, i int) {
	r := c.Rand(i, 0)
	rt := c05recTypes[r.IntN(len(c05recTypes))]
	t := c05recIR[rt]
	if t == nil {
		t = gen.FromReflect(rt)
		c05recIR[rt] = t
	}
	ds := &gen.DataSchema{Hints: map[*refavro.Schema]*gen.Hint{}}
	names := 0
	depth := 1 + r.IntN(4)
	maxElems := 1 + r.IntN(3)
	if r.IntN(8) == 0 {
		// nested far deeper than any fixed allowance (chains only: one successor per level)
		rt = c05deepTypes[r.IntN(len(c05deepTypes))]
		t = c05recIR[rt]
		if t == nil {
			t = gen.FromReflect(rt)
			c05recIR[rt] = t
		}
		depth = 9 + r.IntN(40)
		maxElems = 1
		c.Count("recursive.deep-schemas", 1)
	}
	ds.S = c05recSchema(r, ds, rt, depth, &names)
	label := "recursive: " + rt.Name() + " under " + trunc(ds.S.JSON(), 300)
	c.Journal(c.CurCase(), label)
	codec, err := buildLibCodec(ds.S, rt)
	c.Eval(1)
	if err != nil {
		// a finite schema over a self-containing type is an ordinary compatible pair
		c.Violate("build", fmt.Sprintf("decoder refused for a finite nested schema over a self-containing type: %v\n %s", err, label), map[string]any{"schema": ds.S.JSON()})
		return
	}
	rb := avro.NewReadBuf(nil)
	for k := 0; k < 4; k++ {
		d := ds.GenDatum(r, ds.S, gen.DatumOpts{MaxElems: maxElems, Chain: maxElems == 1 && depth >= 9}, nil)
		enc, err := refavro.Encode(nil, ds.S, d, &gen.RandChooser{R: r, Style: r.IntN(4)})
		if err != nil {
			c.Violate("harness", err.Error(), nil)
			return
		}
		want := reflect.New(rt).Elem()
		if err := model.FillFromDatum(ds.S, d, t, want); err != nil {
			c.Violate("harness", "fill: "+err.Error(), nil)
			return
		}
		c.Journal(c.CurCase(), fmt.Sprintf("%s hex=%x", label, enc))
		got := reflect.New(rt)
		rb.Reset(enc)
		var pan any
		var rerr error
		func() {
			defer func() { pan = recover() }()
			rerr = codec.Read(rb, unsafe.Pointer(got.Pointer()))
		}()
		c.Eval(1)
		if pan != nil || rerr != nil {
			c.Violate("decode-panic", fmt.Sprintf("decoding a valid record failed: err=%v panic=%v\n %s", rerr, pan, label), map[string]any{"schema": ds.S.JSON(), "hex": fmt.Sprintf("%x", enc)})
			return
		}
		if bad := deepTouch(got.Elem(), 0); bad != "" {
			c.Violate("invalid-value", fmt.Sprintf("%s\n %s", bad, label), map[string]any{"schema": ds.S.JSON(), "hex": fmt.Sprintf("%x", enc)})
			return
		}
		if df := model.EqualNorm(t, want, got.Elem(), false, "v"); df != "" {
			c.Violate("outside-destination", fmt.Sprintf("decoding a nested level of a self-containing type changed another level (or a field the schema does not name): %s\n %s\n datum %s", df, label, trunc(refavro.Render(d), 400)),
				map[string]any{"schema": ds.S.JSON(), "hex": fmt.Sprintf("%x", enc)})
			return
		}
		rb.ExtractResourceBank().Close()
		c.Count("recursive-type-records", 1)
	}
	c.Count("recursive."+rt.Name(), 1)
}
