package props

import (
	"bytes"
	"fmt"
	"math/rand/v2"
	"os"
	"reflect"
	"runtime"
	"strings"
	"sync"
	"sync/atomic"
	"unsafe"

	"github.com/philpearl/avro"

	"verifharness/core"
	"verifharness/gen"
	"verifharness/lib"
	"verifharness/model"
	"verifharness/refavro"
)

// C11 — decoded values are fully visible to the garbage collector.

var churnSink [256]any

// churn allocates objects of the size classes decoding uses, so that memory the
// collector has just reclaimed is reused (and overwritten) at once.
func churn(r *uint64) {
	sizes := []int{8, 16, 24, 32, 48, 64, 96, 128, 208, 256, 512, 1024, 4096}
	for j := 0; j < 96; j++ {
		*r = *r*6364136223846793005 + 1442695040888963407
		n := sizes[(*r>>33)%uint64(len(sizes))]
		switch j % 3 {
		case 0:
			b := make([]byte, n)
			for k := range b {
				b[k] = 0xEE
			}
			churnSink[(*r>>20)%256] = b
		case 1:
			p := make([]*int64, n/8+1)
			v := int64(-0x1111111111111111)
			for k := range p {
				p[k] = &v
			}
			churnSink[(*r>>20)%256] = p
		default:
			m := make(map[string]int64, 4)
			m["churn"] = int64(n)
			churnSink[(*r>>20)%256] = m
		}
	}
}

type gcHook struct {
	k       uint64
	budget  int64
	counts  [32]atomic.Uint64
	forced  atomic.Int64
	rng     uint64
	enabled atomic.Bool
}

func (h *gcHook) fn(id int) {
	if !h.enabled.Load() {
		return
	}
	n := h.counts[id].Add(1)
	if n%h.k != 0 {
		return
	}
	if h.forced.Add(1) > h.budget {
		return
	}
	runtime.GC()
	churn(&h.rng)
}

// c11stress: explicit target shapes for every allocation path.
func c11stressTypes() []*gen.T {
	L, S, M, P := gen.Leaf, gen.SliceOf, gen.MapOf, gen.PtrTo
	inner := gen.StructOf(gen.Fld("A", "a", false, L(gen.KInt64)), gen.Fld("S", "s", false, L(gen.KString)), gen.Fld("P", "p", false, P(L(gen.KInt32))))
	ints := gen.StructOf(gen.Fld("A", "a", false, L(gen.KInt64)), gen.Fld("B", "b", false, L(gen.KInt)), gen.Fld("C", "c", false, L(gen.KInt64)))
	shapes := []*gen.T{
		M(L(gen.KString)), S(L(gen.KString)), P(L(gen.KString)), P(P(L(gen.KInt64))), P(M(L(gen.KInt64))), P(S(L(gen.KString))),
		M(M(L(gen.KInt64))), M(S(L(gen.KString))), S(M(L(gen.KString))), M(P(inner)), S(P(inner)), P(inner), M(inner), S(inner),
		M(L(gen.KNullString)), S(L(gen.KNullTime)), M(L(gen.KTime)), P(L(gen.KNullInt)), S(L(gen.KBytes)), M(L(gen.KBytes)), P(L(gen.KBytes)),
		M(L(gen.KInt64)), M(ints), S(ints), M(L(gen.KInt)), M(S(L(gen.KInt64))), P(ints),
		P(M(M(P(L(gen.KString))))), S(S(S(L(gen.KString)))), M(S(M(S(L(gen.KBytes))))), P(P(P(inner))), P(S(P(M(L(gen.KString))))),
	}
	// a wide record with pointers to many distinct types (a bank that knows 16, 17, 32, 33 types), the first of
	// them allocated again and again between first uses of new types
	mk := func(k int) *gen.T {
		return gen.StructOf(gen.Fld(fmt.Sprintf("V%d", k), fmt.Sprintf("v%d", k), false, L(gen.KInt64)), gen.Fld("S", "s", false, L(gen.KString)))
	}
	for _, width := range []int{15, 16, 17, 31, 33} {
		var fs []*gen.F
		a := mk(0)
		for k := 0; k < width; k++ {
			fs = append(fs, gen.Fld(fmt.Sprintf("P%d", k), fmt.Sprintf("p%d", k), false, P(mk(k))))
		}
		fs = append(fs, gen.Fld("X1", "x1", false, S(P(a))), gen.Fld("N1", "n1", false, P(mk(100))), gen.Fld("X2", "x2", false, S(P(a))), gen.Fld("O1", "o1", false, P(mk(1))),
			gen.Fld("X3", "x3", false, S(P(a))), gen.Fld("N2", "n2", false, P(mk(101))), gen.Fld("X4", "x4", false, M(P(a))), gen.Fld("O2", "o2", false, P(L(gen.KInt32))), gen.Fld("X5", "x5", false, S(P(a))))
		shapes = append(shapes, gen.StructOf(fs...))
	}
	var out []*gen.T
	for i, sh := range shapes {
		out = append(out, gen.StructOf(
			gen.Fld("X", "x", false, sh),
			gen.Fld("Y", "y", i%2 == 0, sh),
			gen.Fld("Zb", "zb", false, L(gen.KBool)),
		))
	}
	return out
}

// c11dead holds integers that are bit-for-bit addresses inside heap spans the
// runtime has already freed. As integer data they are inert; if the library
// ever parks one in memory whose type says "pointer", the collector's scan
// finds a pointer to an unallocated span and the runtime stops the process.
var c11dead []int64

func c11deadAddrs() []int64 {
	const sz = 16 << 20
	a, b := make([]byte, sz), make([]byte, sz)
	a[1], b[1] = 1, 1
	churnSink[1], churnSink[2] = a, b
	ua, ub := uintptr(unsafe.Pointer(&a[0])), uintptr(unsafe.Pointer(&b[0]))
	churnSink[1], churnSink[2] = nil, nil
	a, b = nil, nil
	runtime.GC()
	runtime.GC()
	hi := ua
	if ub > hi {
		hi = ub
	}
	var out []int64
	for k := 1; k <= 12; k++ {
		// the tail of the higher block: the page allocator reuses low addresses first
		out = append(out, int64(hi)+sz-int64(k)*8192-int64(k%4)*8)
	}
	return out
}

// plantInts overwrites some 64-bit integer leaves reachable from v (generated
// types only) with values from c11dead.
func plantInts(r *rand.Rand, v reflect.Value, n *int64) {
	switch v.Kind() {
	case reflect.Int64, reflect.Int, reflect.Uint64, reflect.Uint:
		if !v.CanSet() || r.IntN(2) == 0 || len(c11dead) == 0 {
			return
		}
		a := c11dead[r.IntN(len(c11dead))]
		if v.CanInt() {
			v.SetInt(a)
		} else {
			v.SetUint(uint64(a))
		}
		*n++
	case reflect.Struct:
		if v.Type().PkgPath() != "" { // time.Time, null.*: not ours to edit
			return
		}
		for k := 0; k < v.NumField(); k++ {
			if v.Type().Field(k).IsExported() {
				plantInts(r, v.Field(k), n)
			}
		}
	case reflect.Pointer:
		if !v.IsNil() {
			plantInts(r, v.Elem(), n)
		}
	case reflect.Slice, reflect.Array:
		if v.Type().Elem().Kind() == reflect.Uint8 {
			return
		}
		for k := 0; k < v.Len(); k++ {
			plantInts(r, v.Index(k), n)
		}
	case reflect.Map:
		for _, key := range v.MapKeys() {
			e := reflect.New(v.Type().Elem()).Elem()
			e.Set(v.MapIndex(key))
			plantInts(r, e, n)
			v.SetMapIndex(key, e)
		}
	}
}

type c11file struct {
	file      []byte
	t         *gen.T
	want      []reflect.Value
	origin    string
	desc      string
	planted   int64
	hugeItems int64
}

func c11genFile(c *core.Ctx, i int, r *rand.Rand) *c11file {
	f := &c11file{}
	nrec := 10 + r.IntN(c.Pick(40, 300))
	codec := []string{"null", "deflate", "snappy"}[r.IntN(3)]
	stress := c11stressTypes()
	switch i % 3 {
	case 0, 1: // library encoder: stress shapes and random composite-heavy types
		if i%3 == 0 {
			f.t = stress[(i/3)%len(stress)]
			f.t = &gen.T{K: gen.KStruct, Fields: f.t.Fields}
		} else {
			f.t = gen.GenStruct(r, gen.TypeOpts{MaxDepth: 3 + r.IntN(2), MaxFields: 2 + r.IntN(4), NoExcluded: true})
		}
		huge := i%48 == 9
		hugeLo, hugeSpan := 0, 1
		if huge {
			// one record with tens of thousands of pointees of one type (bank arenas far beyond their first sizes)
			inner := gen.StructOf(gen.Fld("A", "a", false, gen.Leaf(gen.KInt64)), gen.Fld("S", "s", false, gen.Leaf(gen.KString)), gen.Fld("P", "p", false, gen.PtrTo(gen.Leaf(gen.KInt32))))
			hugeLo, hugeSpan = 30000, 40000
			switch (i / 48) % 3 {
			case 1:
				// few pointees, each a megabyte wide (a field the schema does not name): 33-48 MiB of one type in one bank
				pad := gen.Fld("Pad", "", false, &gen.T{K: gen.KArray, N: 1 << 20, Elem: gen.Leaf(gen.KUint8)})
				pad.Excl = gen.ExclJSONDash
				inner = gen.StructOf(gen.Fld("A", "a", false, gen.Leaf(gen.KInt64)), pad, gen.Fld("S", "s", false, gen.Leaf(gen.KString)))
				hugeLo, hugeSpan = 33, 16
			case 2:
				// more than 2^20 pointees of one small type
				inner = gen.Leaf(gen.KInt64)
				hugeLo, hugeSpan = 1<<20+1000, 100000
			}
			f.t = gen.StructOf(gen.Fld("X", "x", false, gen.SliceOf(gen.PtrTo(inner))), gen.Fld("N", "n", false, gen.Leaf(gen.KInt64)))
			f.t = &gen.T{K: gen.KStruct, Fields: f.t.Fields}
			nrec = 2
		}
		for k := 0; k < nrec; k++ {
			if huge {
				val := reflect.New(f.t.RT()).Elem()
				n := hugeLo + r.IntN(hugeSpan)
				sl := reflect.MakeSlice(val.Field(0).Type(), n, n)
				for j := 0; j < n; j++ {
					sl.Index(j).Set(gen.NewValue(r, f.t.Fields[0].T.Elem, gen.ValOpts{Mode: gen.ModeFull, NoBigStrings: true}))
				}
				val.Field(0).Set(sl)
				val.Field(1).SetInt(int64(n))
				f.want = append(f.want, val)
				f.hugeItems += int64(n)
				continue
			}
			o := gen.ValOpts{NoInnerNil: true, NoBigStrings: r.IntN(6) != 0}
			if r.IntN(4) == 0 {
				o.Mode = gen.ModeFull
			}
			val := gen.NewValue(r, f.t, o)
			if k%2 == 1 {
				plantInts(r, val, &f.planted)
			}
			f.want = append(f.want, val)
		}
		var buf bytes.Buffer
		if err := lib.EncodeTwin(&buf, f.t.RT(), f.want, lib.EncodeCfg{Compression: avro.Compression(codec), BlockSize: []int{0, 256, 4096, 1 << 20}[r.IntN(4)], Plan: lib.FlushPlan{AtEnd: 1}}); err != nil {
			c.Violate("harness-encode", err.Error(), nil)
			return nil
		}
		f.file = buf.Bytes()
		f.origin = "library-encoder"
	default: // reference writer into target variations (pointer depth, fixed arrays behind pointers, wrappers)
		// every other schema carries date/timestamp logical types (time.Time behind pointers and in maps under int/long)
		ds := gen.GenDataSchema(r, gen.DataOpts{MaxDepth: 2 + r.IntN(3), CallerMode: r.IntN(2) == 0})
		f.t = ds.Target(r, ds.S, gen.TargetOpts{})
		var recs []any
		for k := 0; k < nrec; k++ {
			d := ds.GenDatum(r, ds.S, gen.DatumOpts{}, nil)
			v := reflect.New(f.t.RT()).Elem()
			if err := model.FillFromDatum(ds.S, d, f.t, v); err != nil {
				continue
			}
			recs = append(recs, d)
			f.want = append(f.want, v)
		}
		var blocks [][]any
		for rest := recs; len(rest) > 0; {
			k := 1 + r.IntN(len(rest))
			blocks = append(blocks, rest[:k])
			rest = rest[k:]
		}
		var err error
		f.file, err = refavro.WriteContainer([]byte(ds.S.JSON()), ds.S, blocks, &gen.RandChooser{R: r, Style: r.IntN(4)}, refavro.WriteOpts{Codec: codec})
		if err != nil {
			c.Violate("harness", err.Error(), nil)
			return nil
		}
		f.origin = "reference-writer"
	}
	f.desc = fmt.Sprintf("%s codec=%s records=%d type=%s", f.origin, codec, len(f.want), trunc(f.t.String(), 300))
	return f
}

var c11hook *gcHook
var c11prev *c11file
var c11bg struct {
	once sync.Once
	stop atomic.Bool
	gcs  atomic.Int64
}

func c11setup(c *core.Ctx) {
	c11hook = &gcHook{k: 1, budget: 1 << 62, rng: uint64(c.Seed)*977 + uint64(c.Shard)}
	c11dead = c11deadAddrs()
	avro.SetVerifHook(c11hook.fn)
	// clobberfree canary: an object kept only in a uintptr must be clobbered by the collector
	// (not under checkptr/race builds: the canary's deliberate use-after-free read is exactly what checkptr kills)
	if strings.Contains(os.Getenv("GODEBUG"), "clobberfree=1") && c.Mode.Variant != "checkptr" && c.Mode.Variant != "race" {
		p := new([64]uint64)
		for k := range p {
			p[k] = 0x0707070707070707
		}
		churnSink[0] = p // force a heap allocation
		u := uintptr(unsafe.Pointer(p))
		churnSink[0] = nil
		p = nil
		runtime.GC()
		runtime.GC()
		q := (*[64]uint64)(unsafe.Pointer(u))
		if q[5] != 0x0707070707070707 {
			c.Count("clobberfree-canary-clobbered", 1)
		} else {
			c.Count("clobberfree-canary-survived", 1)
		}
	}
	// background collector pressure
	c11bg.once.Do(func() {
		go func() {
			for !c11bg.stop.Load() {
				runtime.GC()
				c11bg.gcs.Add(1)
				runtime.Gosched()
			}
		}()
	})
}

func runC11(c *core.Ctx, i int) {
	if c11hook == nil {
		c11setup(c)
	}
	r := c.Rand(i, 0)
	if i%8 == 5 {
		c.Journal(c.CurCase(), "registered pointer-carrying type")
		c11registered(c, i, r)
		return
	}
	f := c11genFile(c, i, r)
	if f == nil || len(f.want) == 0 {
		return
	}
	c.Journal(c.CurCase(), f.desc)
	rt := f.t.RT()
	var ms0 runtime.MemStats
	runtime.ReadMemStats(&ms0)
	// sweep k: a collection on every k-th hit of each hook point
	h := c11hook
	h.k = uint64(1 + i%7)
	h.budget = int64(c.Pick(100, 600))
	if c11prev != nil && i%2 == 1 && len(c11prev.file) < 1<<20 {
		// the documented way of reading first: the previous case's file (another type), every record's bank closed in
		// the callback. The banks this read retains are then drawn from a pool of banks that served other types.
		lib.ReadEach(c11prev.file, c11prev.t.RT(), false, func(int, reflect.Value) error { return nil })
		c.Count("reads-after-recycled-banks", 1)
	}
	h.forced.Store(0)
	h.enabled.Store(true)
	got, err := lib.ReadAll(f.file, rt, i%2 == 0)
	h.enabled.Store(false)
	c11prev = f
	c.Eval(1)
	if err != nil {
		c.Violate("read-error", fmt.Sprintf("ReadFile failed under forced collections: %v [%s]", err, f.desc), map[string]any{"file": f.desc})
		return
	}
	if len(got) != len(f.want) {
		c.Violate("count", fmt.Sprintf("%d records delivered, want %d [%s]", len(got), len(f.want), f.desc), map[string]any{"file": f.desc})
		return
	}
	// after the read: rounds of GC + churn, then deep comparison of all retained records
	for round := 0; round < 5; round++ {
		runtime.GC()
		churn(&h.rng)
	}
	for k := range got {
		if d := model.EqualNorm(f.t, f.want[k], got[k], false, fmt.Sprintf("rec[%d]", k)); d != "" {
			c.Violate("gc-visibility", fmt.Sprintf("after collections and heap churn a decoded value no longer holds what was decoded: %s [%s]\n want %s\n got  %s", d, f.desc,
				trunc(model.RenderValue(f.t, f.want[k]), 400), trunc(model.RenderValue(f.t, got[k]), 400)), map[string]any{"file": f.desc, "k": h.k})
			return
		}
	}
	c.Count("records-verified", int64(len(got)))
	c.Count("address-like-integers-planted", f.planted)
	c.Count("items-in-huge-collections", f.hugeItems)
	c.Count("forced-gcs", min64(h.forced.Load(), h.budget))
	// encode side: iteration over maps etc. while collections run
	if f.origin == "library-encoder" {
		h.forced.Store(0)
		h.enabled.Store(true)
		var buf bytes.Buffer
		eerr := lib.EncodeTwin(&buf, rt, f.want, lib.EncodeCfg{Compression: avro.CompressionNull, BlockSize: 1 << 20, Plan: lib.FlushPlan{AtEnd: 1}})
		h.enabled.Store(false)
		c.Eval(1)
		if eerr != nil {
			c.Violate("encode-error", eerr.Error(), nil)
			return
		}
		cont, perr := refavro.ReadContainer(buf.Bytes())
		if perr != nil {
			c.Violate("encode-under-gc", fmt.Sprintf("output encoded while collections ran is not a valid container: %v [%s]", perr, f.desc), map[string]any{"file": f.desc})
			return
		}
		recs := cont.AllRecords()
		if len(recs) != len(f.want) {
			c.Violate("encode-under-gc", fmt.Sprintf("%d records encoded, %d in the file", len(f.want), len(recs)), nil)
			return
		}
		for k, d := range recs {
			if df := model.MatchDatum(f.t, f.want[k], false, d, fmt.Sprintf("rec[%d]", k)); df != "" {
				c.Violate("encode-under-gc", fmt.Sprintf("encoding while collections ran produced a different datum: %s [%s]", df, f.desc), map[string]any{"file": f.desc})
				return
			}
		}
		c.Count("records-encoded-under-gc", int64(len(recs)))
		c.Count("forced-gcs", min64(h.forced.Load(), h.budget))
	}
	var ms1 runtime.MemStats
	runtime.ReadMemStats(&ms1)
	c.Count("numgc", int64(ms1.NumGC-ms0.NumGC))
	c.Shape(f.origin + "|" + f.t.Shape())
	c.Sample(map[string]any{"file": f.desc, "gc_every_kth_hit": h.k})
}

func min64(a, b int64) int64 {
	if a < b {
		return a
	}
	return b
}

func c11finish(c *core.Ctx) {
	hits := avro.VerifHits()
	for id, n := range hits {
		if id < len(avro.VerifPointNames) {
			c.Count("hook."+avro.VerifPointNames[id], int64(n))
		}
	}
	c.Count("background-gcs", c11bg.gcs.Load())
}

func init() {
	core.Register(&core.Prop{
		ID:        "C11",
		Level:     "exploration",
		Technique: "runtime monitoring: decode and encode workloads under the runtime's own GC debugging (GODEBUG=clobberfree=1, gccheckmark=1, GOGC=1), forced collections + heap churn at hook points inside the library, a background collector goroutine, and deep re-examination of every retained value afterwards; second Go runtime in the thorough tier",
		Rule: "files from the library's encoder (37 explicit stress shapes: maps/slices behind pointers, maps of maps, maps of slices, pointer chains, wrappers in every position; plus random composite-heavy types) and from the reference writer into target variations; every second record of a library-encoded file has its 64-bit integer leaves overwritten with address-like values (addresses inside spans the runtime has freed), so integer data parked in pointer-typed memory is a runtime bad-pointer stop; one case in eight decodes, at codec level, holders of a type registered for a scalar schema (long, int, double, fixed, string, bytes) whose values reference three heap objects each, in every position (field, slice item over several blocks, map value, pointee, nested slice, slice of pointers, slice in a map); a collection is forced on every k-th hit of each hook point (k = 1..7 by case), then 5 rounds of GC+churn before every retained record is compared; " +
			"distinct_nontrivial = distinct (origin, type shape) combinations decoded under forced collections and re-verified",
		Explanation: "clobberfree makes the collector overwrite every object it frees, so 'reachable only through a non-pointer word' becomes a value mismatch at the next comparison instead of depending on reuse; hook points put a cycle into each window (after New before use, before mapassign, after slice regrowth, around the callback, inside the map-iteration loop). A runtime fatal error (bad pointer, found pointer to free object) kills the child and is attributed via the journal.",
		Assumptions: []string{"open finding c01.nested-null is kept out of the values (it is about representability, not the collector)", "hook points are optional aids: if a call site is missing from the tree the outside-in stressors (GOGC=1, background GC, post-decode rounds) still apply"},
		Modes: func(tier string) []core.Mode {
			m := []core.Mode{
				{Name: "clobberfree", Variant: "plain", Env: []string{"GODEBUG=clobberfree=1", "GOGC=20", "GOMAXPROCS=2"}},
				{Name: "gogc1", Variant: "plain", Env: []string{"GOGC=1", "GOMAXPROCS=2"}, CaseDiv: 2},
			}
			if tier == "thorough" {
				m = append(m, core.Mode{Name: "checkmark", Variant: "plain", Env: []string{"GODEBUG=gccheckmark=1,clobberfree=1", "GOMAXPROCS=2"}, CaseDiv: 4},
					core.Mode{Name: "go126", Variant: "go126", Env: []string{"GODEBUG=clobberfree=1", "GOMAXPROCS=2"}, CaseDiv: 2},
					core.Mode{Name: "checkptr", Variant: "checkptr", Env: []string{"GODEBUG=clobberfree=1", "GOMAXPROCS=2"}, CaseDiv: 4})
			}
			return m
		},
		NumCases: func(c *core.Ctx) int { return c.Pick(480, 1440) },
		Setup:    nil,
		Run:      runC11,
		Finish:   c11finish,
		Floors: func(a *core.Agg) []string {
			var u []string
			if a.C("clobberfree-canary-clobbered") < 1 || a.C("clobberfree-canary-survived") > 0 {
				u = append(u, fmt.Sprintf("clobberfree canary: clobbered=%d survived=%d", a.C("clobberfree-canary-clobbered"), a.C("clobberfree-canary-survived")))
			}
			if a.C("numgc") < 1000 {
				u = append(u, fmt.Sprintf("numgc=%d < 1000", a.C("numgc")))
			}
			if a.C("registered-boxes-verified") < 10000 {
				u = append(u, fmt.Sprintf("registered-boxes-verified=%d < 10000", a.C("registered-boxes-verified")))
			}
			if a.C("records-verified") < 10000 {
				u = append(u, fmt.Sprintf("records-verified=%d < 10000", a.C("records-verified")))
			}
			return u
		},
	})
}
