package props

import (
	"math"
	"bytes"
	"context"
	"errors"
	"fmt"
	"hash/crc32"
	"io"
	"math/rand/v2"
	"os"
	"reflect"
	"syscall"
	"unsafe"

	"github.com/philpearl/avro"

	"verifharness/core"
	"verifharness/gen"
	"verifharness/lib"
	"verifharness/model"
	"verifharness/refavro"
	"verifharness/statictypes"
)

// C09 — encoder output is an exact, gap-free sequence of blocks for any call history.
// C16 — write failures surface as errors and leave a clean prefix.

type histOp struct {
	flush bool
	val   int // index into values
}

type history struct {
	sc    *statictypes.Case
	vals  []reflect.Value
	encs  [][]byte // independent encoding of each value (codec level, validated by the reference decoder)
	ops   []histOp
	comp  avro.Compression
	bs    int
	bsCls string
	desc  string
}

// recordingWriter logs every Write.
type recordingWriter struct {
	buf    bytes.Buffer
	writes []int
}

func (w *recordingWriter) Write(p []byte) (int, error) {
	w.writes = append(w.writes, len(p))
	return w.buf.Write(p)
}

// encodeValue produces the encoding of one record independently of the Encoder
// state machine (codec level), validated by the reference decoder against the value.
func encodeValue(c *core.Ctx, sc *statictypes.Case, codec avro.Codec, schema *refavro.Schema, v reflect.Value) ([]byte, bool) {
	wb := avro.NewWriteBuf(nil)
	codec.Write(wb, unsafe.Pointer(v.UnsafeAddr()))
	enc := append([]byte{}, wb.Bytes()...)
	ds, lf, err := refavro.DecodeAllLF(schema, enc, 1)
	if err != nil || lf != 0 {
		c.Violate("record-encoding", fmt.Sprintf("codec-level encoding of a %s value is not a canonical valid encoding: %v (long forms %d)", sc.Name, err, lf), nil)
		return nil, false
	}
	if d := model.MatchDatum(sc.IR, v, false, ds[0], "rec"); d != "" {
		c.Violate("record-encoding", fmt.Sprintf("codec-level encoding of a %s value decodes to the wrong datum: %s", sc.Name, d), nil)
		return nil, false
	}
	return enc, true
}

func staticHistCases() []*statictypes.Case {
	var out []*statictypes.Case
	for _, sc := range statictypes.Cases {
		out = append(out, sc)
	}
	return out
}

func genHistory(c *core.Ctx, i int, maxLen int) *history {
	r := c.Rand(i, 0)
	cases := staticHistCases()
	h := &history{sc: cases[r.IntN(len(cases))]}
	if i < 2*len(cases) {
		h.sc = cases[i%len(cases)]
	}
	sweep := -1
	if j := i - 2*len(cases); j >= 0 && j < len(sizeSweep) && maxLen > 100 {
		// incompressible records whose size walks across buffer-size boundaries
		sweep = sizeSweep[j]
		for _, sc := range cases {
			if sc.Name == "HBytes" {
				h.sc = sc
			}
		}
	}
	// two more special families (C09 only): a block size far above any buffer the writer may have planned for,
	// and consecutive blocks that differ in content but agree in length and CRC-32
	giant, twins, exactMiB, manyBlocks, bigSmall := 0, false, false, false, false
	if j := i - 2*len(cases) - len(sizeSweep); j >= 0 && maxLen > 100 {
		switch {
		case j < 3:
			giant = []int{17 << 20, 32 << 20, 24<<20 + 1}[j]
		case j < 11:
			twins = true
		case j < 17:
			if j >= 14 {
				// thousands of blocks in one file: one large block early, then small ones (whatever a compressor
				// or writer reconsiders every so many blocks)
				manyBlocks = true
				break
			}
			// records whose encoding is exactly 1 MiB, so that blocks are exact multiples of 2^20 bytes (null codec)
			exactMiB = true
			giant = []int{2 << 20, 3 << 20, 4 << 20}[j-11]
		case j < 25:
			// one record of 1-3 MiB among small ones under a small block size: whatever the encoder does with a
			// buffer that has grown far beyond its block size, the blocks after it are as exact as the ones before
			bigSmall = true
		}
		if giant > 0 || twins || manyBlocks || bigSmall {
			for _, sc := range cases {
				if sc.Name == "HBytes" {
					h.sc = sc
				}
			}
		}
	}
	h.comp = compressions[r.IntN(3)]
	if twins && i%4 != 0 {
		h.comp = avro.CompressionSnappy
	}
	s, err := lib.SchemaFor(h.sc.RT)
	if err != nil {
		c.Violate("harness", "schema: "+err.Error(), nil)
		return nil
	}
	codec, err := lib.CodecFor(s, h.sc.RT)
	if err != nil {
		c.Violate("harness", "codec: "+err.Error(), nil)
		return nil
	}
	sj, _ := s.Marshal()
	rs, err := refavro.ParseSchema(sj)
	if err != nil {
		c.Violate("harness", "schema parse: "+err.Error(), nil)
		return nil
	}
	nv := 1 + r.IntN(8)
	if sweep >= 0 {
		nv = 1 + r.IntN(2)
	}
	if giant > 0 {
		nv = 1
	}
	if twins {
		nv = 2 + r.IntN(3)
	}
	if manyBlocks {
		nv = 2
	}
	if bigSmall {
		nv = 3
	}
	sizes := []int{}
	for k := 0; k < nv; k++ {
		o := gen.ValOpts{MaxMapEntries: 1, NoBigStrings: r.IntN(4) != 0}
		switch r.IntN(4) {
		case 0:
			o.Mode = gen.ModeEmpty
		case 1:
			o.Mode = gen.ModeFull
		}
		v := gen.NewValue(r, h.sc.IR, o)
		if sweep >= 0 {
			v = reflect.New(h.sc.RT).Elem()
			b := make([]byte, sweep)
			for x := range b {
				b[x] = byte(r.Uint32())
			}
			v.FieldByName("B").SetBytes(b)
		}
		if giant > 0 || twins || manyBlocks || bigSmall {
			v = reflect.New(h.sc.RT).Elem()
			n := 16 + r.IntN(200)
			if bigSmall && k == 0 {
				n = 1<<20 + 100000 + r.IntN(2<<20)
			}
			if manyBlocks && k == 0 {
				n = 100<<10 + r.IntN(4096)
			}
			if giant > 0 {
				n = 1<<20 + r.IntN(4096)
			}
			if twins && k > 0 {
				n = h.vals[0].FieldByName("B").Len()
			}
			b := make([]byte, n)
			for x := range b {
				b[x] = byte(r.Uint32())
			}
			v.FieldByName("B").SetBytes(b)
		}
		enc, ok := encodeValue(c, h.sc, codec, rs, v)
		if !ok {
			return nil
		}
		for try := 0; exactMiB && len(enc) != 1<<20 && try < 4; try++ {
			n := v.FieldByName("B").Len() + (1<<20 - len(enc))
			b := make([]byte, n)
			for x := range b {
				b[x] = byte(r.Uint32())
			}
			v.FieldByName("B").SetBytes(b)
			if enc, ok = encodeValue(c, h.sc, codec, rs, v); !ok {
				return nil
			}
		}
		if exactMiB && len(enc) != 1<<20 {
			c.Violate("harness", "could not size a record to exactly 1 MiB", nil)
			return nil
		}
		if twins && k > 0 {
			// patch the last four data bytes so that this record's encoding has the CRC-32 of the first one's
			_, n1, _, _ := refavro.ReadLong(enc)
			pos := n1 + v.FieldByName("B").Len() - 4
			if !forgeCRC32(enc, pos, crc32.ChecksumIEEE(h.encs[0])) || bytes.Equal(enc, h.encs[0]) {
				c.Violate("harness", "could not construct a CRC-32 twin", nil)
				return nil
			}
			copy(v.FieldByName("B").Bytes()[v.FieldByName("B").Len()-4:], enc[pos:pos+4])
			if enc, ok = encodeValue(c, h.sc, codec, rs, v); !ok || crc32.ChecksumIEEE(enc) != crc32.ChecksumIEEE(h.encs[0]) {
				c.Violate("harness", "CRC-32 twin does not survive re-encoding", nil)
				return nil
			}
			c.Count("crc32-twin-records", 1)
		}
		h.vals = append(h.vals, v)
		h.encs = append(h.encs, enc)
		sizes = append(sizes, len(enc))
	}
	// block size classes relative to the record sizes
	s0 := sizes[0]
	sum3 := 0
	for k := 0; k < 3; k++ {
		sum3 += sizes[k%len(sizes)]
	}
	type bsc struct {
		n   int
		cls string
	}
	opts := []bsc{{0, "zero"}, {1, "one"}, {2, "two"}, {s0, "exact-record"}, {s0 - 1, "record-1"}, {s0 + 1, "record+1"}, {sum3, "sum-of-3"}, {1 << 20, "huge"}, {64, "64"}, {1000, "1000"}}
	b := opts[r.IntN(len(opts))]
	if b.n < 0 {
		b = bsc{0, "zero"}
	}
	if !c09noAstro && i%64 == 17 {
		// the block size is a threshold, not an amount of memory: "never cut a block for me, I call Flush"
		b = []bsc{{math.MaxInt, "astronomical"}, {math.MaxInt / 2, "astronomical"}, {1 << 50, "astronomical"}, {1 << 40, "astronomical"}, {1 << 36, "astronomical"}}[(i/64)%5]
	}
	h.bs, h.bsCls = b.n, b.cls
	n := 1 + r.IntN(maxLen)
	if r.IntN(4) == 0 {
		n = 1 + r.IntN(8)
	}
	pFlush := []int{0, 10, 25, 50}[r.IntN(4)]
	if r.IntN(5) == 0 {
		h.ops = append(h.ops, histOp{flush: true}) // flush first
	}
	for k := 0; k < n; k++ {
		if r.IntN(100) < pFlush {
			h.ops = append(h.ops, histOp{flush: true})
			if r.IntN(4) == 0 {
				h.ops = append(h.ops, histOp{flush: true}) // flush twice
			}
		} else {
			h.ops = append(h.ops, histOp{val: r.IntN(nv)})
		}
	}
	if r.IntN(2) == 0 {
		h.ops = append(h.ops, histOp{flush: true})
	}
	if exactMiB {
		h.comp = avro.CompressionNull
		c.Count("exact-MiB-block-histories", 1)
	}
	if giant > 0 {
		h.bs, h.bsCls = giant, "giant"
		h.ops = nil
		for k := 0; k < giant>>20+3; k++ {
			h.ops = append(h.ops, histOp{val: 0})
		}
		h.ops = append(h.ops, histOp{flush: true})
		c.Count("giant-block-size-histories", 1)
	}
	if manyBlocks {
		h.comp = compressions[i%3]
		if i%3 != 1 {
			h.comp = avro.CompressionSnappy
		}
		h.bs, h.bsCls = 0, "zero/many-blocks"
		h.ops = []histOp{{val: 0}}
		for k := 0; k < 2100+r.IntN(300); k++ {
			h.ops = append(h.ops, histOp{val: 1})
		}
		h.ops = append(h.ops, histOp{flush: true})
		c.Count("many-block-histories", 1)
	}
	if bigSmall {
		h.bs = []int{0, 1, 64, 1000, 100 << 10, 1 << 20}[r.IntN(6)]
		h.bsCls = "small/big-then-small"
		h.ops = nil
		for k := 0; k < 30+r.IntN(30); k++ {
			switch x := r.IntN(12); {
			case k == 2 || x == 0:
				h.ops = append(h.ops, histOp{val: 0})
			case x < 4:
				h.ops = append(h.ops, histOp{flush: true})
			default:
				h.ops = append(h.ops, histOp{val: 1 + r.IntN(2)})
			}
		}
		h.ops = append(h.ops, histOp{flush: true}, histOp{flush: true})
		c.Count("big-then-small-histories", 1)
	}
	if twins {
		h.bs, h.bsCls = 0, "zero/crc32-twins"
		h.ops = nil
		for k := 0; k < 3*nv; k++ {
			h.ops = append(h.ops, histOp{val: k % nv}) // twins end up in consecutive blocks
		}
		h.ops = append(h.ops, histOp{flush: true})
	}
	h.desc = fmt.Sprintf("%s %s bs=%d(%s) ops=%d values=%d sizes=%v", h.sc.Name, h.comp, h.bs, h.bsCls, len(h.ops), nv, sizes)
	return h
}

func (h *history) opsString() string {
	var b bytes.Buffer
	for k, op := range h.ops {
		if k > 60 {
			fmt.Fprintf(&b, "…(%d more)", len(h.ops)-k)
			break
		}
		if op.flush {
			b.WriteString("F ")
		} else {
			fmt.Fprintf(&b, "E%d ", op.val)
		}
	}
	return b.String()
}

func (h *history) rep(out []byte) map[string]any {
	m := map[string]any{"history": h.desc, "ops": h.opsString()}
	if len(out) <= 4096 {
		m["output_hex"] = fmt.Sprintf("%x", out)
	}
	return m
}

var c09noAstro bool

func runC09(c *core.Ctx, i int) {
	h := genHistory(c, i, 200)
	if h == nil {
		return
	}
	c.Journal(c.CurCase(), h.desc)
	w := &recordingWriter{}
	var sess lib.Session
	var err error
	if pan := func() (p any) {
		defer func() { p = recover() }()
		sess, err = h.sc.NewSession(w, h.comp, h.bs)
		return nil
	}(); pan != nil {
		c.Violate("error", fmt.Sprintf("NewEncoderFor panicked: %v [%s]", pan, h.desc), h.rep(nil))
		return
	}
	c.Eval(1)
	if err != nil {
		c.Violate("error", fmt.Sprintf("NewEncoderFor failed: %v [%s]", err, h.desc), h.rep(nil))
		return
	}
	hdr, herr := refavro.ParseHeader(w.buf.Bytes())
	if herr != nil || hdr.HeaderEnd != w.buf.Len() {
		c.Violate("header", fmt.Sprintf("after NewEncoderFor the output is not exactly one header: %v [%s]", herr, h.desc), h.rep(w.buf.Bytes()))
		return
	}
	codecName := hdr.Codec
	var pending []int
	pendingBytes := 0
	totalEncoded, totalInBlocks := 0, 0
	for k, op := range h.ops {
		before := w.buf.Len()
		var cerr error
		emit := false
		if op.flush {
			cerr = sess.Flush()
			emit = len(pending) > 0
			if emit {
				c.Count("blocks.flush-triggered", 1)
			} else {
				c.Count("noop-flushes", 1)
			}
		} else {
			cerr = sess.Encode(h.vals[op.val])
			pending = append(pending, op.val)
			pendingBytes += len(h.encs[op.val])
			totalEncoded++
			if len(h.encs[op.val]) == 0 {
				c.Count("zero-length-records", 1)
			}
			emit = pendingBytes >= h.bs
			if emit {
				c.Count("blocks.size-triggered", 1)
			}
		}
		c.Eval(1)
		what := fmt.Sprintf("call %d (%s)", k, map[bool]string{true: "flush", false: "encode"}[op.flush])
		if cerr != nil {
			c.Violate("error", fmt.Sprintf("%s returned %v on a writer that never fails [%s]", what, cerr, h.desc), h.rep(w.buf.Bytes()))
			return
		}
		newBytes := w.buf.Bytes()[before:]
		if !emit {
			if len(newBytes) != 0 {
				c.Violate("unexpected-output", fmt.Sprintf("%s: model says nothing is emitted (pending %d records, %d bytes, block size %d) but %d bytes were written [%s]", what, len(pending), pendingBytes, h.bs, len(newBytes), h.desc), h.rep(w.buf.Bytes()))
				return
			}
			continue
		}
		// exactly one complete block: count, size, payload, sync
		cnt, n1, sh1, e1 := refavro.ReadLong(newBytes)
		if e1 != nil || !sh1 {
			c.Violate("block-shape", fmt.Sprintf("%s: emitted bytes do not start with a canonical record count: %v [%s]", what, e1, h.desc), h.rep(w.buf.Bytes()))
			return
		}
		sz, n2, sh2, e2 := refavro.ReadLong(newBytes[n1:])
		if e2 != nil || !sh2 {
			c.Violate("block-shape", fmt.Sprintf("%s: no canonical byte size after the count: %v [%s]", what, e2, h.desc), h.rep(w.buf.Bytes()))
			return
		}
		if int64(len(newBytes)) != int64(n1+n2)+sz+16 {
			c.Violate("block-shape", fmt.Sprintf("%s: emitted %d bytes, a single block with declared size %d would be %d [%s]", what, len(newBytes), sz, int64(n1+n2)+sz+16, h.desc), h.rep(w.buf.Bytes()))
			return
		}
		if cnt != int64(len(pending)) {
			c.Violate("block-count", fmt.Sprintf("%s: block declares %d records, %d are pending [%s]", what, cnt, len(pending), h.desc), h.rep(w.buf.Bytes()))
			return
		}
		raw := newBytes[n1+n2 : int64(n1+n2)+sz]
		if !bytes.Equal(newBytes[int64(n1+n2)+sz:], hdr.Sync[:]) {
			c.Violate("block-sync", fmt.Sprintf("%s: block is not followed by the header's sync marker [%s]", what, h.desc), h.rep(w.buf.Bytes()))
			return
		}
		payload, derr := refavro.Decompress(codecName, raw)
		if derr != nil {
			c.Violate("block-payload", fmt.Sprintf("%s: payload does not decompress: %v [%s]", what, derr, h.desc), h.rep(w.buf.Bytes()))
			return
		}
		var want []byte
		for _, vi := range pending {
			want = append(want, h.encs[vi]...)
		}
		if !bytes.Equal(payload, want) {
			c.Violate("block-payload", fmt.Sprintf("%s: payload is not the concatenation of the %d pending records' encodings in order (got %d bytes, want %d) [%s]", what, len(pending), len(payload), len(want), h.desc), h.rep(w.buf.Bytes()))
			return
		}
		totalInBlocks += len(pending)
		pending = pending[:0]
		pendingBytes = 0
		if op.flush && totalInBlocks != totalEncoded {
			c.Violate("flush-leaves-buffered", fmt.Sprintf("%s: after flush %d records are in blocks but %d were encoded [%s]", what, totalInBlocks, totalEncoded, h.desc), h.rep(w.buf.Bytes()))
			return
		}
	}
	// whole output must be a valid container with the same totals
	cont, rerr := refavro.ReadContainer(w.buf.Bytes())
	if rerr != nil || len(cont.AllRecords()) != totalInBlocks {
		c.Violate("final-container", fmt.Sprintf("final output: %v, %d records in blocks [%s]", rerr, totalInBlocks, h.desc), h.rep(w.buf.Bytes()))
		return
	}
	c.Count("histories", 1)
	c.Count("hist."+h.bsCls+"."+string(h.comp), 1)
	c.Shape(fmt.Sprintf("%s|%s|%s|%d", h.sc.Name, h.bsCls, h.comp, len(h.ops)/10))
	c.Sample(map[string]any{"history": h.desc, "ops": h.opsString(), "blocks": len(cont.Blocks)})
}

// forgeCRC32 rewrites msg[pos:pos+4] so that the IEEE CRC-32 of msg becomes target (CRC-32 is affine over
// GF(2): 32 single-bit probes give the matrix, Gaussian elimination gives the patch).
func forgeCRC32(msg []byte, pos int, target uint32) bool {
	if pos < 0 || pos+4 > len(msg) {
		return false
	}
	copy(msg[pos:pos+4], []byte{0, 0, 0, 0})
	c0 := crc32.ChecksumIEEE(msg)
	var cols [32]uint32
	for b := 0; b < 32; b++ {
		msg[pos+b/8] = 1 << (b % 8)
		cols[b] = crc32.ChecksumIEEE(msg) ^ c0
		msg[pos+b/8] = 0
	}
	// solve sum_b x_b*cols[b] = target^c0
	want := target ^ c0
	type row struct {
		v    uint32 // combination value
		mask uint32 // which patch bits produce it
	}
	var basis [32]row
	for b := 0; b < 32; b++ {
		cur := row{cols[b], 1 << b}
		for bit := 31; bit >= 0; bit-- {
			if cur.v>>bit&1 == 0 {
				continue
			}
			if basis[bit].v == 0 {
				basis[bit] = cur
				break
			}
			cur.v ^= basis[bit].v
			cur.mask ^= basis[bit].mask
		}
	}
	var patch uint32
	for bit := 31; bit >= 0; bit-- {
		if want>>bit&1 == 1 {
			if basis[bit].v == 0 {
				return false
			}
			want ^= basis[bit].v
			patch ^= basis[bit].mask
		}
	}
	for b := 0; b < 32; b++ {
		if patch>>b&1 == 1 {
			msg[pos+b/8] |= 1 << (b % 8)
		}
	}
	return crc32.ChecksumIEEE(msg) == target
}

// ---- C16 ----

var errInjected = errors.New("injected write failure")

// the writer's error is whatever the writer says it is: sentinel values of the standard library (which
// helper code likes to give a meaning of its own), wrapped sentinels, errno values, a custom type
var c16errors = []error{errInjected, io.EOF, io.ErrShortWrite, io.ErrUnexpectedEOF, io.ErrClosedPipe, os.ErrClosed, syscall.ENOSPC, syscall.EPIPE,
	context.DeadlineExceeded, fmt.Errorf("connection lost: %w", io.EOF), &c16customErr{"quota"}, io.ErrNoProgress}

type c16customErr struct{ what string }

func (e *c16customErr) Error() string { return "custom: " + e.what }

type failingWriter struct {
	buf    bytes.Buffer
	n      int // writes seen
	failAt int // 1-based
	mode   int // 0 accept nothing, 1 random proper prefix, 2 all but last byte
	r      *rand.Rand
	failed bool
	err    error // the error the failing write reports (nil: errInjected)
	// FileWriter histories: what the same FileWriter wrote to a fresh destination after the failure
	fallback     []byte
	fallbackErr  error
	fallbackDone bool
	// Encoder histories: a second Flush after the failure, during which the writer fails again with errSecondFailure
	retryDone, retryWrote, retryPanicked bool
	retryErr                             error
}

var errSecondFailure = errors.New("second, different write failure")

func (w *failingWriter) Write(p []byte) (int, error) {
	w.n++
	if w.failAt > 0 && w.n == w.failAt {
		w.failed = true
		acc := 0
		switch w.mode {
		case 1:
			if len(p) > 1 {
				acc = w.r.IntN(len(p))
			}
		case 2:
			if len(p) > 0 {
				acc = len(p) - 1
			}
		case 3: // the whole buffer is accepted and the error is still reported (legal for an io.Writer)
			acc = len(p)
		}
		w.buf.Write(p[:acc])
		if w.err != nil {
			return acc, w.err
		}
		return acc, errInjected
	}
	return w.buf.Write(p)
}

// richFailingWriter additionally implements io.ByteWriter and io.StringWriter; each of those calls counts as
// a write and can be the failing one (non-sticky: only the k-th write fails).
type richFailingWriter struct{ failingWriter }

func (w *richFailingWriter) WriteByte(b byte) error {
	_, err := w.failingWriter.Write([]byte{b})
	return err
}

func (w *richFailingWriter) WriteString(s string) (int, error) {
	return w.failingWriter.Write([]byte(s))
}

// Flush makes the writer look like a buffered writer whose Flush has nothing to report.
func (w *richFailingWriter) Flush() error { return nil }

type callResult struct {
	err     error
	pan     any
	writeNo int // writer's write counter after the call
}

// w2 returns the failingWriter whose counters the run must consult (the one embedded in a rich writer, if any).
// w2sink: the failingWriter that was actually driven (run copies state back into w for rich writers).
func w2sink(w *failingWriter, rich bool) *failingWriter { return w }

func w2(sink io.Writer, w *failingWriter) *failingWriter {
	if rw, ok := sink.(*richFailingWriter); ok {
		return &rw.failingWriter
	}
	return w
}

// runEncoderHistory drives the history against w; stops after the first failing call.
func runEncoderHistory(h *history, w *failingWriter, sink io.Writer) (res []callResult) {
	var sess lib.Session
	call := func(fn func() error) (stop bool) {
		var cr callResult
		func() {
			defer func() { cr.pan = recover() }()
			cr.err = fn()
		}()
		cr.writeNo = w.n
		res = append(res, cr)
		return cr.err != nil || cr.pan != nil || w.failed
	}
	// the caller keeps the Encoder after a failure and flushes again; if that call makes the writer fail once more,
	// with another error, it is that error the call has to report
	defer func() {
		if !w.failed || sess == nil {
			return
		}
		n0 := w.n
		w.failAt, w.err, w.mode = w.n+1, errSecondFailure, 0
		var err error
		func() {
			defer func() {
				if r := recover(); r != nil {
					err = fmt.Errorf("panic: %v", r)
					w.retryPanicked = true
				}
			}()
			err = sess.Flush()
		}()
		w.retryDone, w.retryWrote, w.retryErr = true, w.n > n0, err
	}()
	if call(func() error {
		var err error
		sess, err = h.sc.NewSession(sink, h.comp, h.bs)
		return err
	}) {
		return
	}
	for _, op := range h.ops {
		op := op
		if call(func() error {
			if op.flush {
				return sess.Flush()
			}
			return sess.Encode(h.vals[op.val])
		}) {
			return
		}
	}
	return
}

// runFileWriterHistory drives FileWriter.WriteHeader/WriteBlock directly.
func runFileWriterHistory(h *history, schemaJSON []byte, w *failingWriter, sink io.Writer) (res []callResult) {
	var fw *avro.FileWriter
	call := func(fn func() error) (stop bool) {
		var cr callResult
		func() {
			defer func() { cr.pan = recover() }()
			cr.err = fn()
		}()
		cr.writeNo = w.n
		res = append(res, cr)
		return cr.err != nil || cr.pan != nil || w.failed
	}
	var err error
	fw, err = avro.NewFileWriter(schemaJSON, h.comp)
	if err != nil {
		res = append(res, callResult{err: err})
		return
	}
	// when the destination has failed, the caller falls back to a fresh destination with the same FileWriter
	// (its methods take the destination as an argument): that output must be a complete, clean file
	defer func() {
		if !w.failed {
			return
		}
		var fb bytes.Buffer
		w.fallbackErr = func() (err error) {
			defer func() {
				if r := recover(); r != nil {
					err = fmt.Errorf("panic: %v", r)
				}
			}()
			if err := fw.WriteHeader(&fb); err != nil {
				return err
			}
			var block []byte
			n := 0
			for _, op := range h.ops {
				if op.flush {
					if err := fw.WriteBlock(&fb, n, block); err != nil {
						return err
					}
					block, n = nil, 0
				} else {
					block = append(block, h.encs[op.val]...)
					n++
				}
			}
			return nil
		}()
		w.fallback = fb.Bytes()
		w.fallbackDone = true
	}()
	if call(func() error { return fw.WriteHeader(sink) }) {
		return
	}
	var block []byte
	n := 0
	for _, op := range h.ops {
		if op.flush {
			blk, cnt := block, n
			if call(func() error { return fw.WriteBlock(sink, cnt, blk) }) {
				return
			}
			block, n = nil, 0
		} else {
			block = append(block, h.encs[op.val]...)
			n++
		}
	}
	return
}

// maskSync zeroes the 16-byte sync markers at the positions known from the fault-free parse.
func syncPositions(cont *refavro.Container) []int {
	pos := []int{cont.SyncOff}
	for _, b := range cont.Blocks {
		pos = append(pos, b.PayloadEnd)
	}
	return pos
}

func maskedPrefixCheck(acc, full []byte, pos []int) string {
	if len(acc) > len(full) {
		return fmt.Sprintf("accepted %d bytes, the fault-free run wrote only %d", len(acc), len(full))
	}
	masked := func(b []byte) []byte {
		o := append([]byte{}, b...)
		for _, p := range pos {
			for k := p; k < p+16 && k < len(o); k++ {
				o[k] = 0
			}
		}
		return o
	}
	ma, mf := masked(acc), masked(full)
	if !bytes.Equal(ma, mf[:len(ma)]) {
		k := 0
		for k < len(ma) && ma[k] == mf[k] {
			k++
		}
		return fmt.Sprintf("accepted bytes diverge from the fault-free output at offset %d", k)
	}
	// all complete sync markers inside the accepted bytes must be equal to each other
	var first []byte
	for _, p := range pos {
		if p+16 <= len(acc) {
			if first == nil {
				first = acc[p : p+16]
			} else if !bytes.Equal(first, acc[p:p+16]) {
				return fmt.Sprintf("sync marker at offset %d differs from the header's", p)
			}
		} else if p < len(acc) && first != nil {
			if !bytes.Equal(first[:len(acc)-p], acc[p:]) {
				return fmt.Sprintf("partial sync marker at offset %d differs from the header's", p)
			}
		}
	}
	return ""
}

func runC16(c *core.Ctx, i int) {
	h := genHistory(c, i, 30)
	if h == nil {
		return
	}
	direct := i%3 == 2
	kind := "Encoder"
	var schemaJSON []byte
	if direct {
		kind = "FileWriter"
		s, _ := lib.SchemaFor(h.sc.RT)
		schemaJSON, _ = s.Marshal()
		// make sure block flushes exist
		if len(h.ops) == 0 || !h.ops[len(h.ops)-1].flush {
			h.ops = append(h.ops, histOp{flush: true})
		}
	}
	c.Journal(c.CurCase(), kind+" "+h.desc)
	rich := i%4 == 1 // a writer that also offers WriteByte / WriteString
	run := func(w *failingWriter) []callResult {
		var sink io.Writer = w
		if rich {
			rw := &richFailingWriter{}
			rw.failingWriter = *w
			defer func() { *w = rw.failingWriter }()
			sink = rw
		}
		if direct {
			return runFileWriterHistory(h, schemaJSON, w2(sink, w), sink)
		}
		return runEncoderHistory(h, w2(sink, w), sink)
	}
	if rich {
		kind += "+ByteWriter"
	}
	// fault-free run
	w0 := &failingWriter{}
	res0 := run(w0)
	c.Eval(1)
	for k, cr := range res0 {
		if cr.err != nil || cr.pan != nil {
			c.Violate("fault-free", fmt.Sprintf("%s call %d failed without any injected fault: err=%v panic=%v [%s]", kind, k, cr.err, cr.pan, h.desc), h.rep(nil))
			return
		}
	}
	full := w0.buf.Bytes()
	W := w0.n
	cont, perr := refavro.ReadContainer(full)
	if perr != nil {
		c.Violate("fault-free", fmt.Sprintf("fault-free output is not a valid container: %v [%s]", perr, h.desc), h.rep(full))
		return
	}
	pos := syncPositions(cont)
	r := c.Rand(i, 7)
	for k := 1; k <= W; k++ {
		for mode := 0; mode < 4; mode++ {
			werr := c16errors[(i+k*4+mode)%len(c16errors)]
			w := &failingWriter{failAt: k, mode: mode, r: r, err: werr}
			res := run(w)
			c.Eval(1)
			c.Count("fault-runs", 1)
			what := fmt.Sprintf("%s, write %d of %d fails (mode %d) with error %q", kind, k, W, mode, werr)
			last := res[len(res)-1]
			for j, cr := range res {
				if cr.pan != nil {
					c.Violate("panic", fmt.Sprintf("%s: call %d panicked: %v [%s]", what, j, cr.pan, h.desc), h.rep(w.buf.Bytes()))
					return
				}
				if j < len(res)-1 && cr.err != nil {
					c.Violate("early-error", fmt.Sprintf("%s: call %d returned %v before the failing write happened [%s]", what, j, cr.err, h.desc), h.rep(w.buf.Bytes()))
					return
				}
			}
			if !w.failed {
				c.Violate("harness", fmt.Sprintf("%s: the failing write was never reached [%s]", what, h.desc), nil)
				return
			}
			if last.err == nil {
				c.Violate("swallowed", fmt.Sprintf("%s: the call during which the writer failed returned nil [%s]", what, h.desc), h.rep(w.buf.Bytes()))
				return
			}
			if !errors.Is(last.err, werr) {
				c.Violate("not-wrapped", fmt.Sprintf("%s: the call returned %q which does not wrap the writer's error [%s]", what, last.err, h.desc), h.rep(w.buf.Bytes()))
				return
			}
			if d := maskedPrefixCheck(w.buf.Bytes(), full, pos); d != "" {
				c.Violate("prefix", fmt.Sprintf("%s: %s [%s]", what, d, h.desc), h.rep(w.buf.Bytes()))
				return
			}
			if w.retryDone {
				c.Count("flushes-retried-after-failure", 1)
				switch {
				case w.retryPanicked:
					c.Violate("panic", fmt.Sprintf("%s: a Flush after the failed call panicked: %v [%s]", what, w.retryErr, h.desc), h.rep(w.buf.Bytes()))
					return
				case w.retryWrote && w.retryErr == nil:
					c.Violate("swallowed", fmt.Sprintf("%s: a second Flush made the writer fail again and returned nil [%s]", what, h.desc), h.rep(w.buf.Bytes()))
					return
				case w.retryWrote && !errors.Is(w.retryErr, errSecondFailure):
					c.Violate("not-wrapped", fmt.Sprintf("%s: a second Flush made the writer fail with %q and returned %q, which does not wrap it [%s]", what, errSecondFailure, w.retryErr, h.desc), h.rep(w.buf.Bytes()))
					return
				}
				if w.retryWrote {
					c.Count("second-failures-reported", 1)
				}
			}
			if fbw := w2sink(w, rich); fbw.fallbackDone {
				c.Count("fallback-destinations", 1)
				if fbw.fallbackErr != nil {
					// a FileWriter that refuses further use after a failure is within its rights; what is not acceptable is
					// reporting success for bytes that are not the file
					c.Count("fallback-destinations-refused", 1)
				} else if d := maskedPrefixCheck(fbw.fallback, full, pos); d != "" || len(fbw.fallback) != len(full) {
					c.Violate("prefix", fmt.Sprintf("%s: the same FileWriter, used on a fresh destination afterwards, reported success but wrote %d bytes where the fault-free file has %d: %s [%s]", what, len(fbw.fallback), len(full), d, h.desc), h.rep(fbw.fallback))
					return
				}
			}
		}
	}
	c.Count("histories."+kind, 1)
	c.Count("histories.codec."+string(h.comp), 1)
	c.Max("max.writes-per-history", int64(W))
	c.Shape(fmt.Sprintf("%s|%s|%s|%d", kind, h.sc.Name, h.comp, W))
	c.Sample(map[string]any{"kind": kind, "history": h.desc, "ops": h.opsString(), "writes": W, "fault_runs": 3 * W})
}

func init() {
	core.Register(&core.Prop{
		ID:        "C09",
		Level:     "exploration",
		Technique: "runtime monitoring: online trace checker - a recording io.Writer observes the bytes emitted during every Encode/Flush call of a real Encoder[T]; an executable model of the block state machine predicts, call by call, whether a block appears and what it contains",
		Rule: "histories of 1..200 calls over {encode(record), flush} from (VERIF_SEED, i): static corpus types (records from 0 bytes to several KiB), block sizes {0,1,2,exact record size, size-1, size+1, sum of 3 records, 64, 1000, 1 MiB}, all codecs; shapes include flush first, double flush, flush with nothing pending, records hitting the threshold exactly; three histories with block sizes of 17-32 MiB filled by 1 MiB records; eight histories in which records of 1-3 MiB arrive among small ones under block sizes 0..1 MiB; eight histories whose records are CRC-32 twins (same length, same CRC-32, different content) in consecutive blocks; " +
			"distinct_nontrivial = distinct (type, block-size class, codec, length decile) combinations checked call by call",
		Explanation: "Model: pending += r on encode; emit when the sum of pending encodings >= blockSize; on flush emit iff pending is non-empty. After every call the new bytes must be empty or exactly one block [canonical count][canonical size][payload][header sync]; count = |pending|; the decompressed payload (independent decompressor) must equal the concatenation of the pending records' encodings, each obtained at codec level and validated by the reference decoder against the value; after flush nothing stays buffered. Every call must return nil.",
		Assumptions: []string{"map fields hold at most one entry (iteration order)", "record encodings are taken from Codec.Write, validated datum-by-datum by refavro (C02 covers the codecs themselves)"},
		Modes:       func(tier string) []core.Mode { return []core.Mode{{Name: "plain", Variant: "plain"}} },
		NumCases:    func(c *core.Ctx) int { return c.Pick(10000, 240000) },
		Run:         runC09,
		Floors: func(a *core.Agg) []string {
			var u []string
			if a.C("histories") < 1000 {
				u = append(u, fmt.Sprintf("histories=%d < 1000", a.C("histories")))
			}
			for _, k := range []string{"blocks.size-triggered", "blocks.flush-triggered", "noop-flushes", "zero-length-records"} {
				if a.C(k) < 100 {
					u = append(u, fmt.Sprintf("%s=%d < 100", k, a.C(k)))
				}
			}
			for _, cls := range []string{"zero", "one", "two", "exact-record", "record-1", "record+1", "sum-of-3", "huge"} {
				for _, cp := range []string{"null", "deflate", "snappy"} {
					if a.C("hist."+cls+"."+cp) < 1 {
						u = append(u, "no history for "+cls+"/"+cp)
					}
				}
			}
			return u
		},
	})
	core.Register(&core.Prop{
		ID:        "C16",
		Level:     "fault_enumeration",
		Technique: "runtime monitoring with exhaustive fault enumeration: every history is replayed once per write index k against an io.Writer that fails on its k-th write (accepting nothing / a random proper prefix / all but the last byte / the whole buffer); return values, panics and accepted bytes are checked",
		Rule: "histories of <=30 Encoder calls (two thirds) or direct FileWriter.WriteHeader/WriteBlock sequences (one third), all codecs; a fault-free run counts the writes W, then all k in 1..W x 4 failure modes are replayed; the failing write reports one of 12 error values in rotation (io.EOF, io.ErrShortWrite, io.ErrUnexpectedEOF, io.ErrClosedPipe, os.ErrClosed, ENOSPC, EPIPE, context.DeadlineExceeded, a wrapped io.EOF, a custom type, ...) and the call's error must wrap exactly that value; " +
			"distinct_nontrivial = distinct (API, type, codec, W) combinations whose every write index was failed",
		Explanation: "The call during which write k happens must return a non-nil error with errors.Is(err, injected); earlier calls return nil; nothing panics. Prefix check with the random sync marker factored out: sync positions are learnt from the fault-free output via the reference parser, both byte strings are masked there, the masked accepted bytes must be a prefix of the masked fault-free bytes, and all sync bytes inside the accepted bytes must agree with each other.",
		Assumptions: []string{"deflate and snappy output are deterministic for identical input, so the byte layout of both runs is identical", "map fields hold at most one entry"},
		Modes:       func(tier string) []core.Mode { return []core.Mode{{Name: "plain", Variant: "plain"}} },
		NumCases:    func(c *core.Ctx) int { return c.Pick(1500, 30000) },
		Run:         runC16,
		Floors: func(a *core.Agg) []string {
			var u []string
			if a.C("fault-runs") < 10000 {
				u = append(u, fmt.Sprintf("fault-runs=%d < 10000", a.C("fault-runs")))
			}
			for _, k := range []string{"histories.Encoder", "histories.FileWriter", "histories.codec.null", "histories.codec.deflate", "histories.codec.snappy"} {
				if a.C(k) < 50 {
					u = append(u, fmt.Sprintf("%s=%d < 50", k, a.C(k)))
				}
			}
			return u
		},
	})
}
