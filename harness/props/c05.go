package props

import (
	"fmt"
	"math"
	"reflect"
	"strings"
	"unsafe"

	"github.com/philpearl/avro"

	"verifharness/core"
	"verifharness/gen"
	"verifharness/lib"
	"verifharness/model"
	"verifharness/refavro"
)

// C05 — decoder construction is type-sound and decoding stays inside the destination.

type c05form struct {
	name   string
	json   string // schema JSON of the form
	datums []any
}

func c05forms() []c05form {
	ints := []any{int32(0), int32(1), int32(-1), int32(127), int32(-128), int32(255), int32(32767), int32(32768), int32(-32768), int32(-32769), int32(math.MaxInt32), int32(math.MinInt32)}
	longs := []any{int64(0), int64(1), int64(-1), int64(127), int64(255), int64(32767), int64(32768), int64(-32769), int64(math.MaxInt32), int64(math.MaxInt32) + 1, int64(math.MinInt32) - 1, int64(1) << 40, -(int64(1) << 40), int64(math.MaxInt64), int64(math.MinInt64)}
	fx := func(n int) []any {
		b := make([]byte, n)
		for i := range b {
			b[i] = byte(0xA0 + i)
		}
		return []any{b}
	}
	u := func(b int, v any) any { return &refavro.Union{Branch: b, Val: v} }
	forms := []c05form{
		{"null", `"null"`, []any{nil}},
		{"boolean", `"boolean"`, []any{true, false}},
		{"int", `"int"`, ints},
		{"long", `"long"`, longs},
		{"float", `"float"`, []any{float32(0), float32(1.5), float32(math.NaN()), float32(math.MaxFloat32), float32(math.Inf(-1))}},
		{"double", `"double"`, []any{float64(0), float64(1.5), math.NaN(), 1e300, -1e300, math.SmallestNonzeroFloat64}},
		{"bytes", `"bytes"`, []any{[]byte{}, []byte{1, 2, 3}, []byte(strings.Repeat("x", 100))}},
		{"string", `"string"`, []any{"", "abc", strings.Repeat("y", 100), "2006-01-02T15:04:05Z"}},
		{"record", `{"type":"record","name":"inner","fields":[{"name":"x","type":"long"}]}`, []any{&refavro.Record{Fields: []any{int64(5)}}, &refavro.Record{Fields: []any{int64(math.MaxInt64)}}}},
		{"enum", `{"type":"enum","name":"e","symbols":["A","B"]}`, []any{int32(0), int32(1)}},
		{"array<long>", `{"type":"array","items":"long"}`, []any{[]any{}, []any{int64(1), int64(2), int64(1) << 40}}},
		{"map<long>", `{"type":"map","values":"long"}`, []any{&refavro.Map{}, &refavro.Map{Entries: []refavro.MapEntry{{Key: "a", Val: int64(1)}, {Key: "b", Val: int64(1) << 40}}}}},
		{"[null,long]", `["null","long"]`, []any{u(0, nil), u(1, int64(7)), u(1, int64(1)<<40)}},
		{"[long,null]", `["long","null"]`, []any{u(1, nil), u(0, int64(7)), u(0, int64(-1)<<40)}},
		{"[long]", `["long"]`, []any{u(0, int64(7)), u(0, int64(1)<<40)}},
		{"[null,long,string]", `["null","long","string"]`, []any{u(0, nil), u(1, int64(7)), u(2, "str")}},
		{"[null,string]", `["null","string"]`, []any{u(0, nil), u(1, "str"), u(1, "")}},
	}
	// the same base types carrying logical types (the annotation does not change what fits the destination)
	// (stored values whose instant does not fit int64 nanoseconds are left out: what they decode to is outside C19)
	var stamps []any
	for _, v := range longs {
		if x := v.(int64); x <= math.MaxInt64/1000000 && x >= -(math.MaxInt64 / 1000000) {
			stamps = append(stamps, v)
		}
	}
	forms = append(forms,
		c05form{"long/timestamp-micros", `{"type":"long","logicalType":"timestamp-micros"}`, stamps},
		c05form{"long/timestamp-millis", `{"type":"long","logicalType":"timestamp-millis"}`, stamps},
		c05form{"int/date", `{"type":"int","logicalType":"date"}`, ints},
		c05form{"long/unknown-logical", `{"type":"long","logicalType":"x-vendor"}`, longs},
		c05form{"[null,long/timestamp-micros]", `["null",{"type":"long","logicalType":"timestamp-micros"}]`, []any{u(0, nil), u(1, int64(7)), u(1, int64(1)<<40)}},
	)
	for _, n := range []int{0, 1, 4, 16, 17} {
		forms = append(forms, c05form{fmt.Sprintf("fixed%d", n), fmt.Sprintf(`{"type":"fixed","name":"fx%d","size":%d}`, n, n), fx(n)})
	}
	return forms
}

func c05kinds() []*gen.T {
	L := gen.Leaf
	arr := func(n int, e *gen.T) *gen.T { return &gen.T{K: gen.KArray, N: n, Elem: e} }
	ks := []*gen.T{L(gen.KBool), L(gen.KInt8), L(gen.KInt16), L(gen.KInt32), L(gen.KInt64), L(gen.KInt),
		L(gen.KUint8), L(gen.KUint16), L(gen.KUint32), L(gen.KUint64), L(gen.KUint), L(gen.KUintptr),
		L(gen.KFloat32), L(gen.KFloat64), L(gen.KComplex64), L(gen.KComplex128), L(gen.KString), L(gen.KBytes),
		arr(0, L(gen.KUint8)), arr(1, L(gen.KUint8)), arr(3, L(gen.KUint8)), arr(4, L(gen.KUint8)), arr(16, L(gen.KUint8)), arr(17, L(gen.KUint8)),
		gen.SliceOf(L(gen.KInt64)), gen.SliceOf(L(gen.KInt16)), gen.SliceOf(L(gen.KInt8)), arr(3, L(gen.KInt64)),
		gen.MapOf(L(gen.KInt64)), gen.MapOf(L(gen.KInt16)), {K: gen.KMapIntKey, Elem: L(gen.KInt64)},
		gen.StructOf(gen.Fld("X", "x", false, L(gen.KInt64))), gen.StructOf(gen.Fld("X", "x", false, L(gen.KInt16))), gen.StructOf(),
		gen.PtrTo(L(gen.KInt64)), gen.PtrTo(gen.PtrTo(L(gen.KInt64))), gen.PtrTo(L(gen.KInt16)), gen.PtrTo(L(gen.KString)),
		L(gen.KIface), {K: gen.KChan, Elem: L(gen.KInt)}, L(gen.KFunc), L(gen.KUnsafePtr),
		L(gen.KTime), L(gen.KNullInt), L(gen.KNullString), L(gen.KNullFloat), L(gen.KNullBool), L(gen.KNullTime),
	}
	return ks
}

var c05positions = []string{"direct", "pointer", "slice", "map", "ptrslice", "dupname"}

type c05dest struct {
	t      *gen.T
	fIdx   int
	fOff   uintptr
	fSize  uintptr
	size   uintptr
	schema *refavro.Schema
	// dupname position: a second direct field with the same schema name and type (which of the two receives the
	// value is the decoder's choice; both are legitimate destinations, nothing else is)
	dIdx  int
	dOff  uintptr
	dSize uintptr
}

// inField: byte o of the destination struct belongs to a field the schema names.
func (d *c05dest) inField(o uintptr) bool {
	return (o >= d.fOff && o < d.fOff+d.fSize) || (d.dSize > 0 && o >= d.dOff && o < d.dOff+d.dSize)
}

func canaryArr(n int) *gen.T { return &gen.T{K: gen.KArray, N: n, Elem: gen.Leaf(gen.KUint8)} }

// c05build assembles the canary destination struct and the record schema for one cell.
func c05build(form c05form, k *gen.T, pos string) (*c05dest, error) {
	ft := k
	fs := form.json
	switch pos {
	case "pointer":
		ft = gen.PtrTo(k)
	case "slice":
		ft = gen.SliceOf(k)
		fs = `{"type":"array","items":` + form.json + `}`
	case "map":
		ft = gen.MapOf(k)
		fs = `{"type":"map","values":` + form.json + `}`
	case "ptrslice":
		// many separately allocated pointees: their memory comes from the library's own arenas
		ft = gen.SliceOf(gen.PtrTo(k))
		fs = `{"type":"array","items":` + form.json + `}`
	}
	if pos == "dupname" {
		t := gen.StructOf(
			gen.Fld("G0", "guard_pre", false, canaryArr(64)),
			gen.Fld("D", "f", false, ft), // same schema name as F
			gen.Fld("P", "pre", false, canaryArr(8)),
			gen.Fld("F", "f", false, ft),
			gen.Fld("Q", "post", false, canaryArr(8)),
			gen.Fld("S", "liquid", false, gen.Leaf(gen.KInt64)),
			gen.Fld("G1", "guard_post", false, canaryArr(64)),
		)
		s, err := refavro.ParseSchema([]byte(`{"type":"record","name":"outer","fields":[{"name":"f","type":` + fs + `},{"name":"inner_a","type":"long"},{"name":"costarring","type":"long"}]}`))
		if err != nil {
			return nil, err
		}
		rt := t.RT()
		sd, sf := rt.Field(1), rt.Field(3)
		return &c05dest{t: t, fIdx: 3, fOff: sf.Offset, fSize: sf.Type.Size(), size: rt.Size(), schema: s, dIdx: 1, dOff: sd.Offset, dSize: sd.Type.Size()}, nil
	}
	t := gen.StructOf(
		gen.Fld("G0", "guard_pre", false, canaryArr(64)),
		gen.Fld("P", "pre", false, canaryArr(8)),
		gen.Fld("F", "f", false, ft),
		gen.Fld("Q", "post", false, canaryArr(8)),
		// an embedded struct whose promoted field has the name of a schema field: the library matches
		// direct fields only, so "inner_a" must be skipped and Emb must stay untouched
		&gen.F{Go: "Emb", Embedded: true, T: gen.StructOf(gen.Fld("A", "inner_a", false, gen.Leaf(gen.KInt64)), gen.Fld("B", "f", false, gen.Leaf(gen.KInt64)))},
		gen.Fld("S", "liquid", false, gen.Leaf(gen.KInt64)),
		gen.Fld("G1", "guard_post", false, canaryArr(64)),
	)
	s, err := refavro.ParseSchema([]byte(`{"type":"record","name":"outer","fields":[{"name":"f","type":` + fs + `},{"name":"inner_a","type":"long"},{"name":"costarring","type":"long"}]}`))
	if err != nil {
		return nil, err
	}
	rt := t.RT()
	sf := rt.Field(2)
	return &c05dest{t: t, fIdx: 2, fOff: sf.Offset, fSize: sf.Type.Size(), size: rt.Size(), schema: s}, nil
}

func c05pat(o uintptr, salt int) byte { return byte((int(o)*7+salt*13)%251 + 1) }

// wrapDatum places the form's datum at the position.
func c05wrap(pos string, d any, d2 any) any {
	tail := int64(0x1122334455667788)
	// a third schema field the destination has no field for; its name has the 32-bit FNV-1a hash of the name of a
	// destination field ("liquid") that the schema does not mention
	tail2 := int64(0x0badc0de)
	switch pos {
	case "ptrslice":
		items := make([]any, 0, 40)
		for len(items) < 40 {
			items = append(items, d, d2)
		}
		return &refavro.Record{Fields: []any{items, tail, tail2}}
	case "slice":
		return &refavro.Record{Fields: []any{[]any{d, d2}, tail, tail2}}
	case "map":
		return &refavro.Record{Fields: []any{&refavro.Map{Entries: []refavro.MapEntry{{Key: "k1", Val: d}, {Key: "k2", Val: d2}}}, tail, tail2}}
	}
	return &refavro.Record{Fields: []any{d, tail, tail2}}
}

// deepTouch reads everything reachable from v (a corrupt value faults here, in the child).
func deepTouch(v reflect.Value, depth int) (bad string) {
	if depth > 6 {
		return ""
	}
	switch v.Kind() {
	case reflect.Bool:
		b := *(*byte)(unsafe.Pointer(v.UnsafeAddr()))
		if b > 1 {
			return fmt.Sprintf("bool storage byte is %d", b)
		}
	case reflect.String:
		s := v.String()
		n := 0
		for i := 0; i < len(s); i++ {
			n += int(s[i])
		}
	case reflect.Slice:
		if v.Len() > v.Cap() || v.Len() < 0 {
			return "slice len > cap"
		}
		for i := 0; i < v.Len(); i++ {
			if b := deepTouch(v.Index(i), depth+1); b != "" {
				return b
			}
		}
	case reflect.Array:
		for i := 0; i < v.Len(); i++ {
			if b := deepTouch(v.Index(i), depth+1); b != "" {
				return b
			}
		}
	case reflect.Map:
		it := v.MapRange()
		for it.Next() {
			_ = it.Key().String()
			tmp := reflect.New(v.Type().Elem()).Elem()
			tmp.Set(it.Value())
			if b := deepTouch(tmp, depth+1); b != "" {
				return b
			}
		}
	case reflect.Pointer:
		if !v.IsNil() {
			return deepTouch(v.Elem(), depth+1)
		}
	case reflect.Struct:
		for i := 0; i < v.NumField(); i++ {
			if f := v.Field(i); f.CanAddr() {
				if b := deepTouch(f, depth+1); b != "" {
					return b
				}
			}
		}
	case reflect.Interface:
		if !v.IsNil() {
			return "interface value became non-nil"
		}
	case reflect.Chan, reflect.Func, reflect.UnsafePointer:
		if !v.IsZero() {
			return v.Kind().String() + " value became non-zero"
		}
	}
	return ""
}

func c05cell(c *core.Ctx, form c05form, k *gen.T, pos string, salt int) {
	label := fmt.Sprintf("%s x %s @ %s", form.name, k.String(), pos)
	c.Journal(c.CurCase(), "cell="+label)
	dst, err := c05build(form, k, pos)
	if err != nil {
		c.Violate("harness", err.Error(), nil)
		return
	}
	rt := dst.t.RT()
	var codec avro.Codec
	var berr error
	var pan any
	func() {
		defer func() { pan = recover() }()
		codec, berr = buildLibCodec(dst.schema, rt)
	}()
	c.Eval(1)
	c.Count("cells", 1)
	if pan != nil {
		c.Violate("build-panic", fmt.Sprintf("Schema.Codec panicked for %s: %v", label, pan), map[string]any{"cell": label, "schema": dst.schema.JSON(), "type": dst.t.String()})
		return
	}
	if berr != nil {
		c.Count("refused", 1)
		c.Count("refused.form."+form.name, 1)
		return
	}
	c.Count("built", 1)
	c.Count("built.form."+form.name, 1)
	c.Shape(label)
	rb := avro.NewReadBuf(nil)
	fT := dst.t.Fields[dst.fIdx].T
	for vi, d := range form.datums {
		d2 := form.datums[(vi+1)%len(form.datums)]
		rec := c05wrap(pos, d, d2)
		enc, err := refavro.Encode(nil, dst.schema, rec, nil)
		if err != nil {
			c.Violate("harness", "encode: "+err.Error(), nil)
			return
		}
		c.Journal(c.CurCase(), fmt.Sprintf("cell=%s value=%d hex=%x", label, vi, enc))
		pv := reflect.New(rt)
		v := pv.Elem()
		base := unsafe.Pointer(pv.Pointer())
		mem := unsafe.Slice((*byte)(base), dst.size)
		for o := uintptr(0); o < dst.size; o++ {
			if !dst.inField(o) {
				mem[o] = c05pat(o, salt+vi)
			}
		}
		rb.Reset(enc)
		var rerr error
		func() {
			defer func() { pan = recover() }()
			rerr = codec.Read(rb, base)
		}()
		c.Eval(1)
		rep := map[string]any{"cell": label, "schema": dst.schema.JSON(), "type": dst.t.String(), "hex": fmt.Sprintf("%x", enc)}
		if pan != nil {
			c.Violate("decode-panic", fmt.Sprintf("decoding a valid %s into %s panicked: %v", form.name, label, pan), rep)
			return
		}
		for o := uintptr(0); o < dst.size; o++ {
			if !dst.inField(o) && mem[o] != c05pat(o, salt+vi) {
				c.Violate("canary", fmt.Sprintf("decoding into %s modified byte %d of the destination struct (field F occupies [%d,%d)): %#x -> %#x\n datum %s", label, o, dst.fOff, dst.fOff+dst.fSize, c05pat(o, salt+vi), mem[o], refavro.Render(rec)), rep)
				return
			}
		}
		f := v.Field(dst.fIdx)
		if rerr != nil {
			c.Count("decode-errors", 1)
		}
		if bad := deepTouch(f, 0); bad != "" {
			c.Violate("invalid-value", fmt.Sprintf("after decoding into %s the field holds an invalid value: %s\n datum %s", label, bad, refavro.Render(rec)), rep)
			return
		}
		if pos == "ptrslice" && rerr == nil {
			// each element's pointee is its own destination: the memory ranges must not overlap
			esz := k.RT().Size()
			type rng struct{ lo, hi uintptr }
			var rs []rng
			for j := 0; j < f.Len(); j++ {
				if e := f.Index(j); !e.IsNil() && esz > 0 {
					rs = append(rs, rng{e.Pointer(), e.Pointer() + esz})
				}
			}
			for a := range rs {
				for b := a + 1; b < len(rs); b++ {
					if rs[a].lo < rs[b].hi && rs[b].lo < rs[a].hi {
						c.Violate("pointee-overlap", fmt.Sprintf("decoding into %s: the pointees of elements %d and %d overlap ([%#x,%#x) and [%#x,%#x)), so writing one writes outside its destination", label, a, b, rs[a].lo, rs[a].hi, rs[b].lo, rs[b].hi), rep)
						return
					}
				}
			}
			c.Count("pointee-disjointness-checks", 1)
		}
		if pos == "dupname" {
			if bad := deepTouch(v.Field(dst.dIdx), 0); bad != "" {
				c.Violate("invalid-value", fmt.Sprintf("after decoding into %s the other field of the same name holds an invalid value: %s", label, bad), rep)
				return
			}
			c.Count("duplicate-name-decodes", 1)
			continue // which of the two fields holds the value is not specified
		}
		// expected conversion where the model covers the pairing
		want := reflect.New(rt).Elem()
		merr := model.FillFromDatum(dst.schema, rec, dst.t, want)
		switch {
		case merr == nil:
			if rerr != nil {
				c.Violate("spurious-error", fmt.Sprintf("decoding an in-range %s into %s failed: %v", refavro.Render(rec), label, rerr), rep)
				return
			}
			if df := model.EqualNorm(fT, want.Field(dst.fIdx), f, false, "F"); df != "" {
				c.Violate("wrong-value", fmt.Sprintf("%s: %s\n datum %s", label, df, refavro.Render(rec)), rep)
				return
			}
			c.Count("values-compared", 1)
		case merr == model.ErrNoFit:
			c.Count("out-of-range-presented", 1)
			if rerr == nil {
				c.Violate("silent-wrap", fmt.Sprintf("%s: out-of-range datum %s accepted, field now %s", label, refavro.Render(rec), model.RenderValue(fT, f)), rep)
				return
			}
		default:
			// pairing outside the model: validity and canaries only
			c.Count("values-validity-only", 1)
		}
		// the same destination used again (a caller may decode into a struct it has used before): what the
		// field then holds is the decoder's business, but it is still a valid value and nothing else moved
		if rerr == nil {
			rec2 := c05wrap(pos, d2, d)
			enc2, err := refavro.Encode(nil, dst.schema, rec2, nil)
			if err != nil {
				continue
			}
			c.Journal(c.CurCase(), fmt.Sprintf("cell=%s value=%d then %d into the same destination hex=%x", label, vi, (vi+1)%len(form.datums), enc2))
			rb.Reset(enc2)
			func() {
				defer func() { pan = recover() }()
				_ = codec.Read(rb, base)
			}()
			c.Eval(1)
			rep["hex2"] = fmt.Sprintf("%x", enc2)
			if pan != nil {
				c.Violate("decode-panic", fmt.Sprintf("decoding a valid %s into the already used %s panicked: %v", form.name, label, pan), rep)
				return
			}
			for o := uintptr(0); o < dst.size; o++ {
				if !dst.inField(o) && mem[o] != c05pat(o, salt+vi) {
					c.Violate("canary", fmt.Sprintf("second decode into %s modified byte %d of the destination struct (field F occupies [%d,%d))\n datums %s then %s", label, o, dst.fOff, dst.fOff+dst.fSize, refavro.Render(rec), refavro.Render(rec2)), rep)
					return
				}
			}
			if bad := deepTouch(v.Field(dst.fIdx), 0); bad != "" {
				c.Violate("invalid-value", fmt.Sprintf("after a second decode into the same %s the field holds an invalid value: %s\n datums %s then %s", label, bad, refavro.Render(rec), refavro.Render(rec2)), rep)
				return
			}
			c.Count("second-decodes-into-used-destination", 1)
		}
	}
}

// c05random: a compatible (schema, target) pair with one leaf kind replaced at random.
func c05random(c *core.Ctx, i int) {
	r := c.Rand(i, 0)
	ds := gen.GenDataSchema(r, gen.DataOpts{MaxDepth: 1 + r.IntN(3)})
	t := ds.Target(r, ds.S, gen.TargetOpts{})
	kinds := c05kinds()
	// replace one random leaf
	var leaves []**gen.T
	var walk func(p **gen.T)
	walk = func(p **gen.T) {
		t := *p
		switch t.K {
		case gen.KStruct:
			for _, f := range t.Fields {
				walk(&f.T)
			}
		case gen.KSlice, gen.KMap, gen.KPtr:
			walk(&t.Elem)
		default:
			leaves = append(leaves, p)
		}
	}
	walk(&t)
	if len(leaves) > 0 {
		*leaves[r.IntN(len(leaves))] = kinds[r.IntN(len(kinds))]
	}
	t = &gen.T{K: gen.KStruct, Fields: t.Fields} // fresh RT cache
	label := "random: " + trunc(ds.S.JSON(), 200) + " into " + trunc(t.String(), 200)
	c.Journal(c.CurCase(), label)
	var codec avro.Codec
	var berr error
	var pan any
	func() {
		defer func() { pan = recover() }()
		codec, berr = buildLibCodec(ds.S, t.RT())
	}()
	c.Eval(1)
	if pan != nil {
		c.Violate("build-panic", fmt.Sprintf("Schema.Codec panicked: %v\n %s", pan, label), map[string]any{"schema": ds.S.JSON(), "type": t.String()})
		return
	}
	if berr != nil {
		c.Count("random.refused", 1)
		return
	}
	c.Count("random.built", 1)
	rb := avro.NewReadBuf(nil)
	var used reflect.Value
	for k := 0; k < 4; k++ {
		d := ds.GenDatum(r, ds.S, gen.DatumOpts{OutOfRange: 10}, nil)
		enc, _ := refavro.Encode(nil, ds.S, d, nil)
		c.Journal(c.CurCase(), fmt.Sprintf("%s hex=%x", label, enc))
		// guard allocation: [guard 64][struct][guard 64] cannot be built for arbitrary types with
		// pointers, so the struct is allocated alone and the sanitizer builds watch its surroundings.
		// every other datum is decoded into the destination the previous one used
		if k%2 == 0 || !used.IsValid() {
			used = reflect.New(t.RT())
		}
		v := used
		rb.Reset(enc)
		func() {
			defer func() { pan = recover() }()
			_ = codec.Read(rb, unsafe.Pointer(v.Pointer()))
		}()
		c.Eval(1)
		if pan != nil {
			c.Violate("decode-panic", fmt.Sprintf("decode panicked: %v\n %s", pan, label), map[string]any{"schema": ds.S.JSON(), "type": t.String(), "hex": fmt.Sprintf("%x", enc)})
			return
		}
		if bad := deepTouch(v.Elem(), 0); bad != "" {
			c.Violate("invalid-value", fmt.Sprintf("%s\n %s", bad, label), map[string]any{"schema": ds.S.JSON(), "type": t.String(), "hex": fmt.Sprintf("%x", enc)})
			return
		}
	}
}

func runC05(c *core.Ctx, i int) {
	_ = lib.SchemaFor
	forms, kinds := c05forms(), c05kinds()
	ncell := len(forms) * len(kinds) * len(c05positions)
	if i < ncell {
		f := forms[i/(len(kinds)*len(c05positions))]
		k := kinds[(i/len(c05positions))%len(kinds)]
		p := c05positions[i%len(c05positions)]
		c05cell(c, f, k, p, i)
		if i%397 == 0 {
			c.Sample(map[string]any{"cell": fmt.Sprintf("%s x %s @ %s", f.name, k.String(), p)})
		}
		return
	}
	if (i-ncell)%6 == 5 {
		c05recursive(c, i)
		return
	}
	c05random(c, i)
}

func init() {
	core.Register(&core.Prop{
		ID:        "C05",
		Level:     "exploration",
		Technique: "runtime monitoring: complete schema-form x Go-kind x position matrix decoded into a canary struct (byte-adjacent guard fields and padding filled with a pattern, verified after every decode), repeated under checkptr and ASan builds in child processes; deep read of the decoded field",
		Rule: "every cell of {27 schema forms} x {48 Go kinds} x {direct, behind pointer, slice element, map value}, each built codec driven with in-range, boundary and out-of-range datums; plus random compatible (schema, target) pairs with one leaf kind replaced; plus self-containing Go types (tree, list, bag of bags, map of pointers to itself) under finite schemas nested 1-4 levels, decoded from reference-encoded records and compared level by level; a further position with a second direct field of the same schema name and type; every built decoder is also run a second time into the destination it has just used; " +
			"distinct_nontrivial = distinct cells for which a decoder was built and run",
		Explanation: "A build error is an accepted outcome. For a built decoder: every byte of the destination struct outside field F (align-1 guard arrays directly adjacent to F, padding, a sibling field not in the schema) must keep its pattern; the field must hold a valid value of its type (bool byte 0/1, slices/maps/strings/pointers fully readable); where the model covers the pairing the value must equal the expected conversion and out-of-range datums must be errors. checkptr sees conversions that straddle allocations, ASan sees stores past library-allocated memory (slice backing arrays, bank arenas, map value temporaries).",
		Assumptions: []string{"ASan does not see intra-object overflow (that is what the canary bytes are for); checkptr does not see a store that stays inside one allocation"},
		Modes: func(tier string) []core.Mode {
			m := []core.Mode{{Name: "plain", Variant: "plain"}, {Name: "checkptr", Variant: "checkptr"}}
			if tier == "thorough" {
				m = append(m, core.Mode{Name: "asan", Variant: "asan", NoRlimit: true})
			}
			return m
		},
		NumCases: func(c *core.Ctx) int {
			return len(c05forms())*len(c05kinds())*len(c05positions) + c.Pick(6000, 120000)
		},
		Run: runC05,
		Floors: func(a *core.Agg) []string {
			var u []string
			ncell := int64(len(c05forms()) * len(c05kinds()) * len(c05positions))
			nmodes := int64(len(a.ModesRun))
			if a.C("cells") != ncell*nmodes {
				u = append(u, fmt.Sprintf("cells=%d != %d x %d modes", a.C("cells"), ncell, nmodes))
			}
			for _, f := range c05forms() {
				if f.name == "enum" {
					continue
				}
				if a.C("built.form."+f.name) < 1 {
					u = append(u, "no decoder built for form "+f.name)
				}
			}
			if a.C("recursive-type-records") < 1000 {
				u = append(u, fmt.Sprintf("recursive-type-records=%d < 1000", a.C("recursive-type-records")))
			}
			if a.C("out-of-range-presented") < 100 {
				u = append(u, fmt.Sprintf("out-of-range-presented=%d < 100", a.C("out-of-range-presented")))
			}
			return u
		},
		Exhaustive: func(a *core.Agg) bool {
			return a.C("cells") == int64(len(c05forms())*len(c05kinds())*len(c05positions))*int64(len(a.ModesRun))
		},
	})
}
