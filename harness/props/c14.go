package props

import (
	"bytes"
	"encoding/json"
	"fmt"
	"io"
	"math/rand/v2"
	"reflect"
	"runtime"
	"strings"
	"testing/iotest"

	jsonx "github.com/go-json-experiment/json"

	"github.com/philpearl/avro"

	"verifharness/core"
	"verifharness/gen"
	"verifharness/lib"
	"verifharness/model"
	"verifharness/refavro"
)

// C14 — schema JSON parsing and serialisation are faithful inverses.

// cmpLibIR compares the library's Schema value with the reference IR.
func cmpLibIR(s avro.Schema, ir *refavro.Schema, path string) string {
	if s.Type != ir.Type {
		return fmt.Sprintf("%s: type %q, document says %q", path, s.Type, ir.Type)
	}
	if ir.Type == "union" {
		if len(s.Union) != len(ir.Branches) {
			return fmt.Sprintf("%s: %d union branches, document has %d", path, len(s.Union), len(ir.Branches))
		}
		for i := range s.Union {
			if d := cmpLibIR(s.Union[i], ir.Branches[i], fmt.Sprintf("%s|%d", path, i)); d != "" {
				return d
			}
		}
		return ""
	}
	if len(s.Union) != 0 {
		return path + ": Union populated for a non-union"
	}
	if !ir.ObjectForm {
		if s.Object != nil {
			o := s.Object
			if o.Name != "" || o.Namespace != "" || o.LogicalType != "" || len(o.Fields) != 0 || o.Size != 0 || len(o.Symbols) != 0 {
				return path + ": attributes invented for a primitive name"
			}
		}
		return ""
	}
	if s.Object == nil {
		return path + ": object-form schema lost its attributes (Object is nil)"
	}
	o := s.Object
	if o.Name != ir.Name {
		return fmt.Sprintf("%s: name %q, document says %q", path, o.Name, ir.Name)
	}
	if o.Namespace != ir.Namespace {
		return fmt.Sprintf("%s: namespace %q, document says %q", path, o.Namespace, ir.Namespace)
	}
	if o.LogicalType != ir.LogicalType {
		return fmt.Sprintf("%s: logicalType %q, document says %q", path, o.LogicalType, ir.LogicalType)
	}
	switch ir.Type {
	case "record":
		if len(o.Fields) != len(ir.Fields) {
			return fmt.Sprintf("%s: %d fields, document has %d", path, len(o.Fields), len(ir.Fields))
		}
		for i := range o.Fields {
			if o.Fields[i].Name != ir.Fields[i].Name {
				return fmt.Sprintf("%s: field %d is %q, document says %q", path, i, o.Fields[i].Name, ir.Fields[i].Name)
			}
			if d := cmpLibIR(o.Fields[i].Type, ir.Fields[i].Type, path+"."+ir.Fields[i].Name); d != "" {
				return d
			}
		}
	case "enum":
		if len(o.Symbols) != len(ir.Symbols) {
			return fmt.Sprintf("%s: %d symbols, document has %d", path, len(o.Symbols), len(ir.Symbols))
		}
		for i := range o.Symbols {
			if o.Symbols[i] != ir.Symbols[i] {
				return fmt.Sprintf("%s: symbol %d %q vs %q", path, i, o.Symbols[i], ir.Symbols[i])
			}
		}
	case "array":
		return cmpLibIR(o.Items, ir.Items, path+"[]")
	case "map":
		return cmpLibIR(o.Values, ir.Values, path+"{}")
	case "fixed":
		if o.Size != ir.Size {
			return fmt.Sprintf("%s: size %d, document says %d", path, o.Size, ir.Size)
		}
	}
	return ""
}

// libEqual: structural identity of two library Schema values (nil == empty slices).
func libEqual(a, b avro.Schema, path string) string {
	if a.Type != b.Type {
		return fmt.Sprintf("%s: type %q vs %q", path, a.Type, b.Type)
	}
	if len(a.Union) != len(b.Union) {
		return fmt.Sprintf("%s: union %d vs %d", path, len(a.Union), len(b.Union))
	}
	for i := range a.Union {
		if d := libEqual(a.Union[i], b.Union[i], fmt.Sprintf("%s|%d", path, i)); d != "" {
			return d
		}
	}
	if (a.Object == nil) != (b.Object == nil) {
		return fmt.Sprintf("%s: Object presence %v vs %v", path, a.Object != nil, b.Object != nil)
	}
	if a.Object == nil {
		return ""
	}
	x, y := a.Object, b.Object
	if x.Type != y.Type || x.Name != y.Name || x.Namespace != y.Namespace || x.LogicalType != y.LogicalType || x.Size != y.Size {
		return fmt.Sprintf("%s: attributes {%q %q %q %q %d} vs {%q %q %q %q %d}", path, x.Type, x.Name, x.Namespace, x.LogicalType, x.Size, y.Type, y.Name, y.Namespace, y.LogicalType, y.Size)
	}
	if len(x.Fields) != len(y.Fields) {
		return fmt.Sprintf("%s: fields %d vs %d", path, len(x.Fields), len(y.Fields))
	}
	for i := range x.Fields {
		if x.Fields[i].Name != y.Fields[i].Name {
			return fmt.Sprintf("%s: field %d name %q vs %q", path, i, x.Fields[i].Name, y.Fields[i].Name)
		}
		if d := libEqual(x.Fields[i].Type, y.Fields[i].Type, path+"."+x.Fields[i].Name); d != "" {
			return d
		}
	}
	if len(x.Symbols) != len(y.Symbols) {
		return fmt.Sprintf("%s: symbols %d vs %d", path, len(x.Symbols), len(y.Symbols))
	}
	for i := range x.Symbols {
		if x.Symbols[i] != y.Symbols[i] {
			return fmt.Sprintf("%s: symbol %d", path, i)
		}
	}
	if d := libEqual(x.Items, y.Items, path+"[]"); d != "" {
		return d
	}
	return libEqual(x.Values, y.Values, path+"{}")
}

// the previous Marshal result is kept and re-examined after the next Marshal: serialising one schema
// must not disturb the bytes returned for another
var c14prev struct {
	out, copy []byte
	origin    string
}

// c14parseVia parses a document through one of the ways a caller has: SchemaFromString, or - Schema implements the
// JSON library's unmarshalling interface - Unmarshal of a byte slice, UnmarshalRead from readers that deliver the
// text in pieces, and a Schema that is one member of a larger document. The bytes handed in belong to the caller:
// they are overwritten as soon as the parse returns, and a collection runs now and then before the comparison.
func c14parseVia(c *core.Ctx, r *rand.Rand, text string) (s avro.Schema, entry string, err error) {
	switch k := r.IntN(8); k {
	case 0, 1:
		entry = "SchemaFromString"
		s, err = avro.SchemaFromString(text)
	case 2:
		entry = "json.Unmarshal of a byte slice"
		buf := []byte(text)
		if c14usedTick++; c14usedTick%2 == 0 {
			// the destination is a variable that already holds another schema (a loop over documents with one variable)
			entry = "json.Unmarshal of a byte slice into a Schema variable that holds another schema"
			jsonx.Unmarshal([]byte(c14earlier[c14usedTick/2%len(c14earlier)]), &s)
		}
		err = jsonx.Unmarshal(buf, &s)
		for i := range buf {
			buf[i] = 'x'
		}
	case 3, 4, 5:
		var rd io.Reader = strings.NewReader(text)
		switch k {
		case 3:
			entry = "json.UnmarshalRead from a strings.Reader"
		case 4:
			entry = "json.UnmarshalRead, one byte per Read"
			rd = iotest.OneByteReader(rd)
		default:
			entry = "json.UnmarshalRead, 1-97 bytes per Read"
			rd = &c14pieces{src: []byte(text), n: 1 + r.IntN(97)}
		}
		err = jsonx.UnmarshalRead(rd, &s)
	default:
		entry = "json.Unmarshal of a larger document with a Schema member"
		var w struct {
			Before []int       `json:"before"`
			Schema avro.Schema `json:"schema"`
			After  string      `json:"after"`
		}
		buf := []byte(`{"before":[1,2,3],"schema":` + text + `,"after":"` + strings.Repeat("y", r.IntN(200)) + `"}`)
		err = jsonx.Unmarshal(buf, &w)
		for i := range buf {
			buf[i] = 'x'
		}
		s = w.Schema
		if err == nil && (len(w.Before) != 3 || !strings.HasPrefix(w.After+"y", "y")) {
			err = fmt.Errorf("the members around the schema were not decoded: %v %q", w.Before, w.After)
		}
	}
	c.Count("parse-entry."+entry, 1)
	if r.IntN(50) == 0 {
		runtime.GC()
	}
	return
}

var c14usedTick int
var c14earlier = []string{
	`["null","string"]`,
	`{"type":"record","name":"earlier","namespace":"e.ns","fields":[{"name":"a","type":{"type":"long","logicalType":"timestamp-millis"}},{"name":"b","type":["null",{"type":"fixed","name":"fx","size":7}]}]}`,
	`{"type":"array","items":{"type":"map","values":"double"}}`,
	`{"type":"enum","name":"en","symbols":["A","B"]}`,
	`{"type":"long","logicalType":"timestamp-micros"}`,
	`"bytes"`,
}

// c14pieces hands out the text in pieces of n bytes.
type c14pieces struct {
	src []byte
	n   int
}

func (p *c14pieces) Read(b []byte) (int, error) {
	if len(p.src) == 0 {
		return 0, io.EOF
	}
	n := min(p.n, len(p.src), len(b))
	copy(b, p.src[:n])
	p.src = p.src[n:]
	return n, nil
}

var c14bad = []avro.Schema{
	{Type: "record", Object: &avro.SchemaObject{Name: "bad\xff", Fields: []avro.SchemaRecordField{{Name: "a", Type: avro.Schema{Type: "long"}}}}},
	{Type: "record", Object: &avro.SchemaObject{Name: "ok", Fields: []avro.SchemaRecordField{{Name: "a", Type: avro.Schema{Type: "long"}}, {Name: "caf\xe9", Type: avro.Schema{Type: "array", Object: &avro.SchemaObject{Items: avro.Schema{Type: "string"}}}}}}},
	{Type: "enum", Object: &avro.SchemaObject{Name: "e", Symbols: []string{"A", "\xc3"}}},
	{Type: "union", Union: []avro.Schema{{Type: "null"}, {Type: "fixed", Object: &avro.SchemaObject{Name: "\xf0\x28", Size: 4}}}},
}

var c14calls int

// c14marshalVia serialises through one of the ways a caller has: the Marshal method, or - Schema implements the
// JSON library's marshalling interface - Marshal / MarshalWrite of the value, and a Schema inside a larger value.
// Now and then a schema that cannot be serialised (a name that is not UTF-8) is serialised just before, whatever
// that call returns: one call's failure is not the next call's business.
func c14marshalVia(c *core.Ctx, s *avro.Schema) (out []byte, entry string, err error) {
	c14calls++
	if c14calls%11 == 0 {
		bad := c14bad[(c14calls/11)%len(c14bad)]
		bad.Marshal()
		c.Count("marshal-after-unserialisable", 1)
	}
	switch c14calls % 5 {
	case 0, 1:
		entry = "Schema.Marshal"
		out, err = s.Marshal()
	case 2:
		entry = "json.Marshal"
		out, err = jsonx.Marshal(s)
	case 3:
		entry = "json.MarshalWrite"
		var b bytes.Buffer
		err = jsonx.MarshalWrite(&b, s)
		out = b.Bytes()
	default:
		entry = "json.Marshal of a larger value with a Schema member"
		var w struct {
			Before []int        `json:"before"`
			Schema *avro.Schema `json:"schema"`
			After  string       `json:"after"`
		}
		w.Before, w.Schema, w.After = []int{1, 2}, s, "z"
		out, err = jsonx.Marshal(&w)
		const pre, post = `{"before":[1,2],"schema":`, `,"after":"z"}`
		if err == nil {
			if !bytes.HasPrefix(out, []byte(pre)) || !bytes.HasSuffix(out, []byte(post)) {
				err = fmt.Errorf("the members around the schema are not what they should be: %s", trunc(string(out), 200))
			} else {
				out = out[len(pre) : len(out)-len(post)]
			}
		}
	}
	c.Count("marshal-entry."+entry, 1)
	return
}

func c14roundTrip(c *core.Ctx, s avro.Schema, origin string, text string) {
	out, entry, err := c14marshalVia(c, &s)
	origin += ", serialised through " + entry
	if c14prev.out != nil && string(c14prev.out) != string(c14prev.copy) {
		c.Violate("marshal-invalid-json", fmt.Sprintf("the bytes returned by an earlier Marshal (schema from %s) changed when another schema was marshalled: now %q, were %q", c14prev.origin, trunc(string(c14prev.out), 200), trunc(string(c14prev.copy), 200)), map[string]any{"text": text})
		c14prev.out = nil
		return
	}
	c14prev.out, c14prev.copy, c14prev.origin = out, append([]byte{}, out...), origin
	if err != nil {
		c.Violate("marshal", fmt.Sprintf("Marshal failed for schema from %s: %v", origin, err), map[string]any{"text": text})
		return
	}
	if !json.Valid(out) {
		c.Violate("marshal-invalid-json", fmt.Sprintf("Marshal produced invalid JSON %q (schema from %s)", trunc(string(out), 300), origin), map[string]any{"text": text})
		return
	}
	back, err := avro.SchemaFromString(string(out))
	if err != nil {
		c.Violate("marshal-reparse", fmt.Sprintf("Marshal output %q does not parse back: %v", trunc(string(out), 300), err), map[string]any{"text": text})
		return
	}
	if d := libEqual(s, back, "schema"); d != "" {
		c.Violate("marshal-identity", fmt.Sprintf("parse(marshal(s)) != s: %s\n original text %s\n marshalled %s", d, trunc(text, 400), trunc(string(out), 400)), map[string]any{"text": text})
		return
	}
	c.Count("marshal-roundtrips", 1)
}

func c14doc(c *core.Ctx, r *rand.Rand) {
	depth := 1 + r.IntN(6)
	ir := gen.GenSchemaDoc(r, depth)
	text := gen.RenderSchemaDoc(r, ir)
	c.Journal(c.CurCase(), "doc")
	c.Eval(1)
	// self-check of the reference parser (the IR must survive its own parser)
	ref, rerr := refavro.ParseSchema([]byte(text))
	if rerr != nil || !refavro.Equal(ref, ir) {
		c.Violate("harness", fmt.Sprintf("reference parser disagrees with the generator on %s: %v %s", trunc(text, 300), rerr, refavro.Diff(ref, ir, "")), nil)
		return
	}
	s, entry, err := c14parseVia(c, r, text)
	if err != nil {
		c.Violate("parse-rejects-valid", fmt.Sprintf("valid schema document rejected (%s): %v\n %s", entry, err, trunc(text, 600)), map[string]any{"text": text})
		return
	}
	if d := cmpLibIR(s, ir, "schema"); d != "" {
		d += " [parsed through " + entry + "; the input bytes were overwritten once the parse had returned]"
		c.Violate("parse-structure", fmt.Sprintf("%s\n document %s", d, trunc(text, 600)), map[string]any{"text": text})
		return
	}
	c.Count("docs", 1)
	c.Count(fmt.Sprintf("depth.%d", gen.DocDepth(ir)), 1)
	c.Shape(ir.Shape())
	c14roundTrip(c, s, "document", text)
	// marshal output must also mean the same to the independent parser
	out, _ := s.Marshal()
	if ref2, err := refavro.ParseSchema(out); err != nil || refavro.Diff(ref2, ir, "") != "" {
		d := ""
		if err == nil {
			d = refavro.Diff(ref2, ir, "")
		}
		c.Violate("marshal-meaning", fmt.Sprintf("Marshal output means something else to an independent parser: %v %s\n %s", err, d, trunc(string(out), 400)), map[string]any{"text": text})
	}
	if r.IntN(40) == 0 {
		c.Sample(map[string]any{"document": trunc(text, 500), "marshalled": trunc(string(out), 300)})
	}
	// the parsed value belongs to the caller: whatever is done to it, parsing the same text again means the same
	scribbleSchema(&s, map[*avro.SchemaObject]bool{})
	s2, err := avro.SchemaFromString(text)
	if err != nil {
		c.Violate("parse-rejects-valid", fmt.Sprintf("valid schema document rejected when parsed a second time: %v\n %s", err, trunc(text, 600)), map[string]any{"text": text})
		return
	}
	if d := cmpLibIR(s2, ir, "schema"); d != "" {
		c.Violate("parse-structure", fmt.Sprintf("second parse of the same text, after the first result was modified by its holder: %s\n document %s", d, trunc(text, 600)), map[string]any{"text": text})
		return
	}
	c.Count("reparsed-after-scribble", 1)
}

func c14malformed(c *core.Ctx, r *rand.Rand) {
	ir := gen.GenSchemaDoc(r, 1+r.IntN(3))
	text := gen.RenderSchemaDoc(r, ir)
	var bad string
	switch r.IntN(6) {
	case 0: // truncation
		if len(text) < 2 {
			return
		}
		bad = text[:1+r.IntN(len(text)-1)]
	case 1: // delete one structural character
		idx := []int{}
		for i := 0; i < len(text); i++ {
			switch text[i] {
			case '"', '{', '}', '[', ']', ',', ':':
				idx = append(idx, i)
			}
		}
		if len(idx) == 0 {
			return
		}
		k := idx[r.IntN(len(idx))]
		bad = text[:k] + text[k+1:]
	case 2: // trailing garbage
		bad = text + []string{"x", "}", "]", `"a"`, "{}", ",", "1"}[r.IntN(7)]
	case 3: // wrong value kinds (valid JSON, malformed schema: only no-panic applies)
		bad = []string{`{"type":"record","fields":3}`, `{"type":"fixed","size":"x"}`, `{"type":"enum","symbols":{"a":1}}`, `{"type":["null"]}`, `{"type":{"type":"long"}}`,
			`{"type":"array","items":5}`, `{"type":"map","values":null}`, `{"type":"record","fields":[3]}`, `{"type":"record","fields":[{"name":1,"type":"long"}]}`, `7`, `null`, `true`, `{"type":null}`, `{"type":"fixed","size":1.5}`, `{"type":"fixed","size":1e400}`}[r.IntN(15)]
	case 4: // insert a stray character
		k := r.IntN(len(text) + 1)
		bad = text[:k] + string("{}[],:\"x\\"[r.IntN(9)]) + text[k:]
	case 5: // random bytes
		b := make([]byte, r.IntN(30))
		for i := range b {
			b[i] = byte(r.IntN(256))
		}
		bad = string(b)
	}
	c.Journal(c.CurCase(), fmt.Sprintf("bad=%q", trunc(bad, 200)))
	c.Eval(1)
	var err error
	var pan any
	func() {
		defer func() { pan = recover() }()
		_, err = avro.SchemaFromString(bad)
	}()
	if pan != nil {
		c.Violate("panic", fmt.Sprintf("SchemaFromString panicked on %q: %v", trunc(bad, 300), pan), map[string]any{"text": bad})
		return
	}
	if !json.Valid([]byte(bad)) {
		c.Count("malformed", 1)
		if err == nil {
			c.Violate("accepts-malformed", fmt.Sprintf("malformed JSON accepted: %q", trunc(bad, 400)), map[string]any{"text": bad})
		}
	} else {
		c.Count("valid-json-variants", 1)
	}
}

func c14generated(c *core.Ctx, r *rand.Rand) {
	t := gen.GenStruct(r, gen.TypeOpts{MaxDepth: 3, WeirdNames: true})
	s, err := lib.SchemaFor(t.RT())
	if err != nil {
		return
	}
	c.Eval(1)
	c14roundTrip(c, s, "SchemaForType("+trunc(t.String(), 200)+")", "")
	out, _ := s.Marshal()
	ref, err := refavro.ParseSchema(out)
	if err != nil {
		c.Violate("marshal-meaning", fmt.Sprintf("generated schema does not parse independently: %v: %s", err, trunc(string(out), 300)), nil)
		return
	}
	want, werr := model.ExpectedSchema(t)
	if werr == nil {
		if d := refavro.Diff(model.StripNames(ref), want, "schema"); d != "" {
			c.Violate("marshal-meaning", fmt.Sprintf("generated schema, once marshalled, differs from the documented mapping: %s", d), nil)
			return
		}
	}
	c.Count("generated-schemas", 1)
}

// c14shared: Schema values are plain Go values, and copies of one Schema share its *SchemaObject. A schema
// that contains the same node several times (hand-assembled, or generated for a struct that uses a type with
// a registered schema in several positions) is not cyclic and must serialise like any other.
type c14ID [19]byte
type c14Colour string
type c14UsesTwice struct {
	ID     c14ID            `json:"id"`
	Parent c14ID            `json:"parent"`
	Others []c14ID          `json:"others"`
	ByName map[string]c14ID `json:"by_name"`
	C1     c14Colour        `json:"c1"`
	C2     *c14Colour       `json:"c2"`
}

var c14registered bool

func c14shared(c *core.Ctx, r *rand.Rand) {
	ir := gen.GenSchemaDoc(r, 2)
	text := gen.RenderSchemaDoc(r, ir)
	node, err := avro.SchemaFromString(text)
	if err != nil {
		return
	}
	comp := avro.Schema{Type: "record", Object: &avro.SchemaObject{Name: "shared", Fields: []avro.SchemaRecordField{
		{Name: "x", Type: node},
		{Name: "y", Type: node},
		{Name: "z", Type: avro.Schema{Type: "array", Object: &avro.SchemaObject{Items: node}}},
		{Name: "w", Type: avro.Schema{Type: "union", Union: []avro.Schema{{Type: "null"}, node}}},
	}}}
	if node.Type == "union" {
		comp.Object.Fields = comp.Object.Fields[:3]
	}
	c.Eval(1)
	c14roundTrip(c, comp, "a record that contains one parsed schema value in several positions", text)
	c.Count("shared-node-schemas", 1)
	if !c14registered {
		c14registered = true
		avro.RegisterSchema(reflect.TypeOf(c14ID{}), avro.Schema{Type: "fixed", Object: &avro.SchemaObject{Name: "ID", Size: 19}})
		avro.RegisterSchema(reflect.TypeOf(c14Colour("")), avro.Schema{Type: "enum", Object: &avro.SchemaObject{Name: "Colour", Symbols: []string{"RED", "GREEN"}}})
	}
	gs, err := avro.SchemaForType(c14UsesTwice{})
	if err != nil {
		c.Violate("marshal", "SchemaForType refused a struct using registered types twice: "+err.Error(), nil)
		return
	}
	c14roundTrip(c, gs, "SchemaForType of a struct that uses types with registered fixed/enum schemas in several positions", "")
}

func runC14(c *core.Ctx, i int) {
	r := c.Rand(i, 0)
	n := c.Pick(1200, 16000)
	for k := 0; k < n; k++ {
		c14doc(c, r)
		if k%3 == 0 {
			c14malformed(c, r)
		}
		if k%5 == 0 {
			c14generated(c, r)
		}
		if k%7 == 0 {
			c14shared(c, r)
		}
	}
}

func init() {
	core.Register(&core.Prop{
		ID:        "C14",
		Level:     "exploration",
		Technique: "runtime monitoring: generated schema documents (random key order, whitespace, escapes, unknown attributes) parsed by the library and by an independent encoding/json-based parser, structural comparison; marshal/parse identity; malformed documents must be rejected",
		Rule: "schema IR of depth <=6 over all supported attributes rendered to JSON text with layout variation; mutations (truncation, structural-character deletion, stray characters, trailing garbage, random bytes) for the malformed clause; schemas produced by SchemaForType; after each document the parsed value is overwritten at every depth by its holder and the same text is parsed again; " +
			"distinct_nontrivial = distinct schema shapes (structure ignoring names) parsed and compared",
		Explanation: "The generator's IR is the ground truth (and is cross-checked against refavro's own parser on every document); the library's Schema value must carry the same type, name, namespace, logicalType, fields in order, items, values, size, symbols and branches in order; Marshal output must be valid JSON (encoding/json.Valid), parse back to an identical Schema and mean the same to the independent parser.",
		Assumptions: []string{"documents are valid UTF-8 without duplicate keys; attributes appear only on the types where Avro defines them", "'malformed' means encoding/json.Valid rejects the text; valid JSON of the wrong shape is only checked for no-panic"},
		Modes:       func(tier string) []core.Mode { return []core.Mode{{Name: "plain", Variant: "plain"}} },
		NumCases:    func(c *core.Ctx) int { return 64 },
		Run:         runC14,
		Floors: func(a *core.Agg) []string {
			var u []string
			if a.C("docs") < 5000 {
				u = append(u, fmt.Sprintf("docs=%d < 5000", a.C("docs")))
			}
			if a.C("malformed") < 1000 {
				u = append(u, fmt.Sprintf("malformed=%d < 1000", a.C("malformed")))
			}
			if a.C("depth.4")+a.C("depth.5")+a.C("depth.6")+a.C("depth.7") < 500 {
				u = append(u, "too few deep documents")
			}
			if a.C("generated-schemas") < 500 {
				u = append(u, "too few generated schemas")
			}
			return u
		},
	})
}
