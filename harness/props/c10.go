package props

import (
	"bytes"
	"fmt"
	"math/rand/v2"
	"reflect"
	"runtime"
	"sync"
	"time"
	"unsafe"

	"github.com/philpearl/avro"

	"verifharness/core"
	"verifharness/gen"
	"verifharness/lib"
	"verifharness/model"
	"verifharness/refavro"
)

// C10 — delivered values stay intact until their resource bank is closed.

// ---------- A. file level ----------

type retained struct {
	k       int
	val     reflect.Value
	bank    *avro.ResourceBank
	closeAt int // record index at which the bank is closed (-1 never)
}

type c10competitor struct {
	codec avro.Codec
	enc   []byte
	rb    *avro.ReadBuf
	on    bool
	runs  int64
}

type c10compRec struct {
	S  string            `json:"s"`
	B  []byte            `json:"b"`
	P  *string           `json:"p"`
	M  map[string]string `json:"m"`
	L  []string          `json:"l"`
	PI *int64            `json:"pi"`
}

var c10comp *c10competitor

func c10setupCompetitor(c *core.Ctx) {
	s, err := avro.SchemaForType(c10compRec{})
	if err != nil {
		c.Violate("harness", err.Error(), nil)
		return
	}
	codec, err := s.Codec(c10compRec{})
	if err != nil {
		c.Violate("harness", err.Error(), nil)
		return
	}
	str := "competitor-string-that-scribbles-over-recycled-bank-memory"
	pi := int64(0x5a5a5a5a5a5a5a5a)
	v := c10compRec{S: str, B: []byte(str), P: &str, M: map[string]string{"k": str}, L: []string{str, str, str}, PI: &pi}
	wb := avro.NewWriteBuf(nil)
	codec.Write(wb, unsafe.Pointer(&v))
	c10comp = &c10competitor{codec: codec, enc: append([]byte{}, wb.Bytes()...), rb: avro.NewReadBuf(nil)}
	avro.SetVerifHook(func(id int) {
		cp := c10comp
		if cp == nil || !cp.on {
			return
		}
		name := avro.VerifPointNames[id]
		if name != "readFile.afterCallback" && name != "readFile.afterBlock" {
			return
		}
		// obtain banks from the pool (recycled ones, if any were closed), fill them through the public API, close them again
		cp.on = false // no re-entry through bank hooks
		for j := 0; j < 3; j++ {
			var out c10compRec
			cp.rb.Reset(cp.enc)
			if err := cp.codec.Read(cp.rb, unsafe.Pointer(&out)); err == nil {
				cp.rb.ExtractResourceBank().Close()
			}
		}
		cp.runs++
		cp.on = true
	})
}

func c10fileLevel(c *core.Ctx, i int) {
	if c10comp == nil {
		c10setupCompetitor(c)
		if c10comp == nil {
			return
		}
	}
	r := c.Rand(i, 0)
	f := c11genFile(c, i, r)
	if f == nil || len(f.want) == 0 {
		return
	}
	c.Journal(c.CurCase(), f.desc)
	rt := f.t.RT()
	var held []*retained
	viol := false
	verify := func(at string) {
		for _, h := range held {
			if h.bank == nil {
				continue
			}
			if d := model.EqualNorm(f.t, f.want[h.k], h.val, false, fmt.Sprintf("rec[%d]", h.k)); d != "" {
				c.Violate("retained-changed", fmt.Sprintf("record %d, retained with its bank still open, changed %s: %s [%s]\n want %s\n got  %s", h.k, at, d, f.desc,
					trunc(model.RenderValue(f.t, f.want[h.k]), 300), trunc(model.RenderValue(f.t, h.val), 300)), map[string]any{"file": f.desc})
				viol = true
				return
			}
			c.Count("retained-verifications", 1)
		}
	}
	k := 0
	c10comp.on = true
	// in a quarter of the cases the callback stops the read with an error at some record; the record
	// handed to that callback is retained too and its bank stays open
	stopAt := -1
	if r.IntN(4) == 0 {
		stopAt = r.IntN(len(f.want))
	}
	errStop := fmt.Errorf("stop here")
	err := avro.ReadFile(bytes.NewReader(f.file), lib.NewTarget(rt, true), func(val unsafe.Pointer, rb *avro.ResourceBank) error {
		if viol {
			return nil
		}
		if k == stopAt {
			v := reflect.New(rt).Elem()
			v.Set(reflect.NewAt(rt, val).Elem())
			held = append(held, &retained{k: k, val: v, bank: rb, closeAt: -1})
			k++
			return errStop
		}
		// every retained record whose bank is open must still be what was written
		verify(fmt.Sprintf("by the time record %d was decoded", k))
		// close the banks that are due
		n := 0
		for _, h := range held {
			if h.bank != nil && h.closeAt >= 0 && h.closeAt <= k {
				h.bank.Close()
				h.bank = nil
				c.Count("banks-closed", 1)
			}
			if h.bank != nil {
				held[n] = h
				n++
			}
		}
		held = held[:n]
		if len(held) > 12 {
			held[0].bank.Close()
			held = held[1:]
			c.Count("banks-closed", 1)
		}
		v := reflect.New(rt).Elem()
		v.Set(reflect.NewAt(rt, val).Elem())
		h := &retained{k: k, val: v, bank: rb}
		switch r.IntN(5) {
		case 0:
			h.closeAt = k // closed right after the next record arrives... i.e. at the next callback
		case 1, 2:
			h.closeAt = k + 1 + r.IntN(10)
		case 3:
			h.closeAt = k + 10 + r.IntN(40)
		default:
			h.closeAt = -1
		}
		if h.closeAt >= 0 && h.closeAt-k >= 3 {
			c.Count("retained-across-3-records", 1)
		}
		// the holder adds an entry of its own to every empty map of the record it holds
		c.Count("entries-added-to-empty-maps", int64(markEmptyMaps(f.t, h.val, f.want[h.k], fmt.Sprintf("holder-of-record-%d", h.k), 0)))
		// the holder appends in place: the spare capacity of its slices is written to
		c.Count("spare-capacity-bytes-written", int64(scribbleSpareCapacity(h.val, 0)))
		held = append(held, h)
		k++
		return nil
	})
	c.Eval(1)
	if viol {
		c10comp.on = false
		return
	}
	if stopAt >= 0 {
		if err != errStop {
			c10comp.on = false
			c.Violate("read-error", fmt.Sprintf("callback stopped the read at record %d, ReadFile returned %v [%s]", stopAt, err, f.desc), nil)
			return
		}
		c.Count("reads-stopped-by-callback", 1)
	} else if err != nil || k != len(f.want) {
		c10comp.on = false
		c.Violate("read-error", fmt.Sprintf("ReadFile: err=%v, %d of %d records [%s]", err, k, len(f.want), f.desc), nil)
		return
	}
	verify("by the end of the read")
	// unrelated decoding after ReadFile has returned draws banks from the pool: the retained records
	// (their banks are still open) must not be affected
	for j := 0; j < 6 && !viol; j++ {
		var out c10compRec
		c10comp.rb.Reset(c10comp.enc)
		if err := c10comp.codec.Read(c10comp.rb, unsafe.Pointer(&out)); err == nil {
			bank := c10comp.rb.ExtractResourceBank()
			for _, h := range held {
				if h.bank == bank {
					c.Violate("bank-handed-out-twice", fmt.Sprintf("a bank still held open by a retained record was handed out again after ReadFile returned [%s]", f.desc), nil)
					viol = true
				}
			}
			if !viol {
				bank.Close()
			}
		}
	}
	c10comp.on = false
	if viol {
		return
	}
	verify("after ReadFile returned and unrelated records were decoded")
	for _, h := range held {
		if h.bank != nil {
			h.bank.Close()
		}
	}
	c.Count("files", 1)
	c.Count("competitor-runs", c10comp.runs)
	c10comp.runs = 0
	c.Shape("file|" + f.origin + "|" + f.t.Shape())
	c.Sample(map[string]any{"level": "file", "file": f.desc})
}

// ---------- B. bank level ----------

type c10alloc struct {
	p       unsafe.Pointer
	size    uintptr
	typ     int
	pattern byte
	serial  int64
	sentinl *int64
	str     string
}

type c10str struct {
	s    string
	want string
}

type c10bankShadow struct {
	allocs []*c10alloc
	strs   []*c10str
}

type c10P struct {
	P *int64
	S string
	N int64
}

var c10types = []reflect.Type{
	reflect.TypeOf(struct{}{}), reflect.TypeOf(byte(0)), reflect.TypeOf(int16(0)), reflect.TypeOf(int64(0)), reflect.TypeOf([3]int64{}), reflect.TypeOf([24]byte{}),
	reflect.TypeOf([4096]byte{}), reflect.TypeOf([7]byte{}), reflect.TypeOf(float32(0)), reflect.TypeOf([100]int16{}), reflect.TypeOf(bool(false)), reflect.TypeOf([33]byte{}),
	// pointerful types (filled with valid pointers only)
	reflect.TypeOf((*int64)(nil)), reflect.TypeOf(""), reflect.TypeOf(c10P{}), reflect.TypeOf([]byte(nil)), reflect.TypeOf([4]c10P{}),
}

const c10firstPointerful = 12

type c10world struct {
	c       *core.Ctx
	r       *rand.Rand
	bufs    []*avro.ReadBuf
	cur     []*c10bankShadow // shadow of each ReadBuf's current bank
	open    map[*avro.ResourceBank]*c10bankShadow
	retired map[uintptr]bool
	serial  int64
	ops     []string
	tag     string
	bad     bool
	mu      *sync.Mutex // global lock for cross-goroutine overlap check (nil = single goroutine)
	all     *[]*c10bankShadow
}

func (w *c10world) fail(clause, msg string) {
	if w.bad {
		return
	}
	w.bad = true
	ops := w.ops
	if len(ops) > 40 {
		ops = ops[len(ops)-40:]
	}
	w.c.Violate(clause, fmt.Sprintf("%s [%s]\n last ops: %v", msg, w.tag, ops), map[string]any{"ops": ops})
}

func (w *c10world) liveShadows() []*c10bankShadow {
	if w.all != nil {
		return *w.all
	}
	out := append([]*c10bankShadow{}, w.cur...)
	for _, s := range w.open {
		out = append(out, s)
	}
	return out
}

func (w *c10world) verifyAll(after string) {
	for _, sh := range w.liveShadows() {
		for _, a := range sh.allocs {
			if !w.checkAlloc(a) {
				w.fail("alloc-changed", fmt.Sprintf("live allocation #%d (type %v, %d bytes) no longer holds its pattern after %s", a.serial, c10types[a.typ], a.size, after))
				return
			}
		}
		for _, s := range sh.strs {
			if s.s != s.want {
				w.fail("string-changed", fmt.Sprintf("interned string changed after %s: want %q have %q", after, s.want, s.s))
				return
			}
		}
	}
	w.c.Count("verify-rounds", 1)
}

func (w *c10world) checkAlloc(a *c10alloc) bool {
	if a.typ < c10firstPointerful {
		b := unsafe.Slice((*byte)(a.p), a.size)
		for j := range b {
			if b[j] != a.pattern+byte(j) {
				return false
			}
		}
		return true
	}
	switch c10types[a.typ].Kind() {
	case reflect.Pointer:
		return *(**int64)(a.p) == a.sentinl && *a.sentinl == a.serial
	case reflect.String:
		return *(*string)(a.p) == a.str
	case reflect.Slice:
		return string(*(*[]byte)(a.p)) == a.str
	case reflect.Struct:
		v := (*c10P)(a.p)
		return v.P == a.sentinl && *a.sentinl == a.serial && v.S == a.str && v.N == a.serial
	case reflect.Array:
		arr := (*[4]c10P)(a.p)
		for j := range arr {
			if arr[j].P != a.sentinl || arr[j].S != a.str || arr[j].N != a.serial+int64(j) {
				return false
			}
		}
		return *a.sentinl == a.serial
	}
	return true
}

func (w *c10world) fillAlloc(a *c10alloc) {
	if a.typ < c10firstPointerful {
		b := unsafe.Slice((*byte)(a.p), a.size)
		for j := range b {
			b[j] = a.pattern + byte(j)
		}
		return
	}
	s := new(int64)
	*s = a.serial
	a.sentinl = s
	a.str = fmt.Sprintf("alloc-%d-%s", a.serial, w.tag)
	switch c10types[a.typ].Kind() {
	case reflect.Pointer:
		*(**int64)(a.p) = s
	case reflect.String:
		*(*string)(a.p) = a.str
	case reflect.Slice:
		*(*[]byte)(a.p) = []byte(a.str)
	case reflect.Struct:
		*(*c10P)(a.p) = c10P{P: s, S: a.str, N: a.serial}
	case reflect.Array:
		arr := (*[4]c10P)(a.p)
		for j := range arr {
			arr[j] = c10P{P: s, S: a.str, N: a.serial + int64(j)}
		}
	}
}

func (w *c10world) onAlloc(sh *c10bankShadow, p unsafe.Pointer, ti int) {
	rt := c10types[ti]
	size := rt.Size()
	w.serial++
	a := &c10alloc{p: p, size: size, typ: ti, pattern: byte(w.serial*31 + 7), serial: w.serial}
	if p == nil {
		w.fail("alloc-nil", fmt.Sprintf("Alloc(%v) returned nil", rt))
		return
	}
	if uintptr(p)%uintptr(rt.Align()) != 0 {
		w.fail("alloc-misaligned", fmt.Sprintf("Alloc(%v) returned %p, alignment %d", rt, p, rt.Align()))
		return
	}
	b := unsafe.Slice((*byte)(p), size)
	for j := range b {
		if b[j] != 0 {
			w.fail("alloc-not-zeroed", fmt.Sprintf("Alloc(%v) returned memory with byte %d = %#x", rt, j, b[j]))
			return
		}
	}
	if size > 0 {
		lo, hi := uintptr(p), uintptr(p)+size
		if w.mu != nil {
			w.mu.Lock()
		}
		for _, osh := range w.liveShadows() {
			for _, o := range osh.allocs {
				if o.size == 0 {
					continue
				}
				olo, ohi := uintptr(o.p), uintptr(o.p)+o.size
				if lo < ohi && olo < hi {
					if w.mu != nil {
						w.mu.Unlock()
					}
					w.fail("alloc-overlap", fmt.Sprintf("Alloc(%v) returned [%#x,%#x) which overlaps live allocation #%d [%#x,%#x) of an open bank", rt, lo, hi, o.serial, olo, ohi))
					return
				}
			}
		}
		sh.allocs = append(sh.allocs, a)
		if w.mu != nil {
			w.mu.Unlock()
		}
		if w.retired[uintptr(p)] {
			w.c.Count("arena-address-reused-after-close", 1)
		}
	} else {
		if w.mu != nil {
			w.mu.Lock()
		}
		sh.allocs = append(sh.allocs, a)
		if w.mu != nil {
			w.mu.Unlock()
		}
	}
	w.fillAlloc(a)
	w.c.Count("bank-ops.alloc", 1)
}

func (w *c10world) retire(sh *c10bankShadow) {
	for _, a := range sh.allocs {
		w.retired[uintptr(a.p)] = true
	}
	if len(w.retired) > 20000 {
		w.retired = map[uintptr]bool{}
	}
	if w.mu != nil {
		w.mu.Lock()
	}
	sh.allocs = nil
	sh.strs = nil
	if w.mu != nil {
		w.mu.Unlock()
	}
}

func (w *c10world) step() {
	r := w.r
	bi := r.IntN(len(w.bufs))
	rb := w.bufs[bi]
	switch op := r.IntN(100); {
	case op < 50: // Alloc through the ReadBuf or through an extracted bank
		ti := r.IntN(len(c10types))
		if len(w.open) > 0 && r.IntN(3) == 0 {
			for bank, sh := range w.open {
				w.ops = append(w.ops, fmt.Sprintf("bank%p.Alloc(%v)", bank, c10types[ti]))
				w.onAlloc(sh, bank.Alloc(c10types[ti]), ti)
				break
			}
		} else {
			w.ops = append(w.ops, fmt.Sprintf("buf%d.Alloc(%v)", bi, c10types[ti]))
			w.onAlloc(w.cur[bi], rb.Alloc(c10types[ti]), ti)
		}
	case op < 70: // strings
		w.serial++
		want := fmt.Sprintf("str-%d-%s-%s", w.serial, w.tag, string(make([]byte, r.IntN(40))))
		if r.IntN(2) == 0 {
			rb.Reset([]byte(want))
			s, err := rb.NextAsString(len(want))
			w.ops = append(w.ops, fmt.Sprintf("buf%d.NextAsString(%d)", bi, len(want)))
			if err != nil || s != want {
				w.fail("string-wrong", fmt.Sprintf("NextAsString returned %q err=%v, want %q", s, err, want))
				return
			}
			w.cur[bi].strs = append(w.cur[bi].strs, &c10str{s: s, want: want})
		} else if len(w.open) > 0 {
			for bank, sh := range w.open {
				s := bank.ToString([]byte(want))
				w.ops = append(w.ops, fmt.Sprintf("bank%p.ToString(%d)", bank, len(want)))
				if s != want {
					w.fail("string-wrong", fmt.Sprintf("ToString returned %q, want %q", s, want))
					return
				}
				sh.strs = append(sh.strs, &c10str{s: s, want: want})
				break
			}
		}
		w.c.Count("bank-ops.string", 1)
	case op < 85: // extract
		bank := rb.ExtractResourceBank()
		w.ops = append(w.ops, fmt.Sprintf("buf%d.Extract->bank%p", bi, bank))
		if _, dup := w.open[bank]; dup {
			w.fail("bank-handed-out-twice", fmt.Sprintf("ExtractResourceBank returned bank %p which is already held open", bank))
			return
		}
		w.open[bank] = w.cur[bi]
		w.cur[bi] = &c10bankShadow{}
		if w.all != nil {
			w.mu.Lock()
			*w.all = append(*w.all, w.cur[bi])
			w.mu.Unlock()
		}
		w.c.Count("bank-ops.extract", 1)
	default: // close an extracted bank
		for bank, sh := range w.open {
			w.ops = append(w.ops, fmt.Sprintf("bank%p.Close", bank))
			w.retire(sh)
			delete(w.open, bank)
			bank.Close()
			w.c.Count("bank-ops.close", 1)
			break
		}
	}
	if len(w.ops) > 200 {
		w.ops = w.ops[len(w.ops)-60:]
	}
}

func c10bankLevel(c *core.Ctx, i int) {
	r := c.Rand(i, 0)
	concurrent := i%4 == 3
	nOps := c.Pick(250, 800)
	if !concurrent {
		w := &c10world{c: c, r: r, open: map[*avro.ResourceBank]*c10bankShadow{}, retired: map[uintptr]bool{}, tag: fmt.Sprintf("case%d", i)}
		nb := 2 + r.IntN(5)
		for k := 0; k < nb; k++ {
			w.bufs = append(w.bufs, avro.NewReadBuf(nil))
			w.cur = append(w.cur, &c10bankShadow{})
		}
		for k := 0; k < nOps && !w.bad; k++ {
			w.step()
			last := "start"
			if len(w.ops) > 0 {
				last = w.ops[len(w.ops)-1]
			}
			w.verifyAll(last)
		}
		c.Eval(nOps)
		for bank := range w.open {
			bank.Close()
		}
		for _, rb := range w.bufs {
			rb.ExtractResourceBank().Close()
		}
		c.Shape(fmt.Sprintf("bank|seq|%d", i%64))
	} else {
		// several goroutines, each with its own ReadBufs, sharing the bank pool; overlap is checked globally
		var mu sync.Mutex
		var all []*c10bankShadow
		var wg sync.WaitGroup
		G := 2 + r.IntN(5)
		var worlds []*c10world
		for g := 0; g < G; g++ {
			w := &c10world{c: c, r: c.Rand(i, uint64(10+g)), open: map[*avro.ResourceBank]*c10bankShadow{}, retired: map[uintptr]bool{}, tag: fmt.Sprintf("case%d.g%d", i, g), mu: &mu, all: &all}
			nb := 1 + w.r.IntN(3)
			for k := 0; k < nb; k++ {
				w.bufs = append(w.bufs, avro.NewReadBuf(nil))
				sh := &c10bankShadow{}
				w.cur = append(w.cur, sh)
				all = append(all, sh)
			}
			worlds = append(worlds, w)
		}
		for _, w := range worlds {
			wg.Add(1)
			go func(w *c10world) {
				defer wg.Done()
				for k := 0; k < nOps && !w.bad; k++ {
					w.step()
					if k%8 == 0 {
						// own entries only (other goroutines mutate theirs concurrently)
						own := append([]*c10bankShadow{}, w.cur...)
						for _, s := range w.open {
							own = append(own, s)
						}
						for _, sh := range own {
							for _, a := range sh.allocs {
								if !w.checkAlloc(a) {
									w.fail("alloc-changed", fmt.Sprintf("live allocation #%d changed while other goroutines used the bank pool", a.serial))
								}
							}
							for _, s := range sh.strs {
								if s.s != s.want {
									w.fail("string-changed", "interned string changed while other goroutines used the bank pool")
								}
							}
						}
					}
				}
				for bank, sh := range w.open {
					w.retire(sh)
					bank.Close()
				}
				for bi, rb := range w.bufs {
					w.retire(w.cur[bi])
					rb.ExtractResourceBank().Close()
				}
			}(w)
		}
		wg.Wait()
		c.Eval(nOps * G)
		c.Count("concurrent-bank-cases", 1)
		c.Shape(fmt.Sprintf("bank|conc%d|%d", G, i%64))
	}
	if i%40 == 0 {
		c.Sample(map[string]any{"level": "bank", "concurrent": concurrent, "ops": nOps})
	}
}

// ---------- C. codec level, banks never extracted ----------

// c10codecLevel: values decoded with Codec.Read through a ReadBuf whose bank is never extracted or closed. The
// ReadBuf itself is dropped; the values stay in use. Collections (and whatever the runtime runs after them)
// and later decoding through other ReadBufs must leave them as they were.
func c10codecLevel(c *core.Ctx, i int) {
	r := c.Rand(i, 3)
	stress := c11stressTypes()
	t := stress[r.IntN(len(stress))]
	t = &gen.T{K: gen.KStruct, Fields: t.Fields}
	if r.IntN(2) == 0 {
		t = gen.GenStruct(r, gen.TypeOpts{MaxDepth: 3, MaxFields: 2 + r.IntN(4), NoExcluded: true})
	}
	rt := t.RT()
	ls, err := lib.SchemaFor(rt)
	if err != nil {
		return
	}
	codec, err := lib.CodecFor(ls, rt)
	if err != nil {
		return
	}
	c.Journal(c.CurCase(), "codec-level "+trunc(t.String(), 300))
	var rs *refavro.Schema
	if js, err := ls.Marshal(); err == nil {
		rs, _ = refavro.ParseSchema(js)
	}
	n := 6 + r.IntN(10)
	var want, got []reflect.Value
	var encs [][]byte
	wb := avro.NewWriteBuf(nil)
	for k := 0; k < n; k++ {
		v := gen.NewValue(r, t, gen.ValOpts{NoInnerNil: true, NoBigStrings: true})
		wb.Reset()
		codec.Write(wb, v.Addr().UnsafePointer())
		want = append(want, v)
		enc := append([]byte(nil), wb.Bytes()...)
		// every other message is re-framed by the reference writer with the first entry of each map written twice
		// (same key, same value: the same map) and arrays/maps split into blocks
		if k%2 == 1 && rs != nil {
			if ds, err := refavro.DecodeAll(rs, enc, 1); err == nil {
				dupMapEntries(ds[0])
				if e2, err := refavro.Encode(nil, rs, ds[0], &gen.RandChooser{R: r, Style: r.IntN(4)}); err == nil {
					enc = e2
					c.Count("messages-with-repeated-map-keys", 1)
				}
			}
		}
		encs = append(encs, enc)
	}
	verify := func(at string) bool {
		for k := range got {
			if d := model.EqualNorm(t, want[k], got[k], false, fmt.Sprintf("value[%d]", k)); d != "" {
				c.Violate("retained-changed", fmt.Sprintf("a value decoded through a ReadBuf whose bank was never closed changed %s: %s\n type %s", at, d, trunc(t.String(), 300)), map[string]any{"type": t.String()})
				return false
			}
			c.Count("retained-verifications", 1)
		}
		return true
	}
	for k := 0; k < n; k++ {
		v := reflect.New(rt)
		func() {
			rb := avro.NewReadBuf(encs[k])
			if err := codec.Read(rb, v.UnsafePointer()); err != nil {
				c.Violate("read-error", fmt.Sprintf("Codec.Read of the codec's own output failed: %v", err), nil)
			}
			// rb goes out of scope here, its bank still open
		}()
		// the message buffer is the caller's again: it is reused for something else
		for x := range encs[k] {
			encs[k][x] = 0xEE
		}
		got = append(got, v.Elem())
		if k%3 == 2 {
			runtime.GC()
			for y := 0; y < 20; y++ {
				runtime.Gosched()
			}
			runtime.GC()
			time.Sleep(200 * time.Microsecond) // lets finalizer/cleanup goroutines run; not a deadline
			c.Count("collections-after-dropped-readbufs", 1)
			if !verify("after collections") {
				return
			}
		}
	}
	if !verify("by the end") {
		return
	}
	c.Eval(n)
	c.Count("codec-level-cases", 1)
	c.Shape("codec|" + t.Shape())
}

// dupMapEntries appends a copy of the first entry to every non-empty map in the datum.
func dupMapEntries(d any) {
	switch x := d.(type) {
	case *refavro.Record:
		for _, f := range x.Fields {
			dupMapEntries(f)
		}
	case *refavro.Union:
		dupMapEntries(x.Val)
	case []any:
		for _, e := range x {
			dupMapEntries(e)
		}
	case *refavro.Map:
		for _, e := range x.Entries {
			dupMapEntries(e.Val)
		}
		if len(x.Entries) > 0 {
			x.Entries = append(x.Entries, x.Entries[0])
		}
	}
}

func runC10(c *core.Ctx, i int) {
	if i%10 == 9 {
		c10codecLevel(c, i)
		return
	}
	if i%2 == 0 {
		c10fileLevel(c, i/2)
	} else {
		c10bankLevel(c, i/2)
	}
}

var _ = gen.Leaf

func init() {
	core.Register(&core.Prop{
		ID:        "C10",
		Level:     "exploration",
		Technique: "runtime monitoring: (A) ReadFile callbacks retain records and banks under a seeded close policy while a competitor recycles banks from the pool at hook points; every retained record with an open bank is deep-compared after every later record; (B) random ResourceBank/ReadBuf operation sequences against a shadow model (zeroed, aligned, disjoint allocations, unique patterns re-verified after every operation), also from several goroutines; checkptr/ASan variants",
		Rule: "A: multi-block files of every codec (stress shapes and random types with strings, bytes, pointers, maps, slices), close policy per record in {next record, 1..10 later, 10..50 later, never}; B: sequences of 250-800 operations over 2-6 ReadBufs: Alloc of 17 types (sizes 0 B..4 KiB, with and without pointers), NextAsString/ToString, ExtractResourceBank, Close; every fourth B case runs 2-6 goroutines sharing the pool; one file in 48 holds records with 30 000-70 000 pointees of one type; a third level decodes through ReadBufs whose bank is never extracted or closed, drops the ReadBuf, forces collections and keeps verifying the values; " +
			"distinct_nontrivial = distinct (level, type shape or sequence class) combinations",
		Explanation: "A retained record may only change after its own bank is closed. In B every Alloc result must be non-nil, aligned, all zero and disjoint from every live range of every open bank; it is then filled with a unique pattern (valid pointers for pointerful types) and all live patterns and interned strings are re-verified after every operation, so the operation that corrupts something is identified. Address reuse after Close is counted to show recycling really happens.",
		Modes: func(tier string) []core.Mode {
			m := []core.Mode{{Name: "plain", Variant: "plain", Env: []string{"GOGC=5", "GOMAXPROCS=4"}}, {Name: "checkptr", Variant: "checkptr", CaseDiv: 3, Env: []string{"GOMAXPROCS=4"}}}
			if tier == "thorough" {
				m = append(m, core.Mode{Name: "asan", Variant: "asan", CaseDiv: 4, NoRlimit: true, Env: []string{"GOMAXPROCS=4"}}, core.Mode{Name: "go126", Variant: "go126", CaseDiv: 2, Env: []string{"GOGC=5", "GOMAXPROCS=4"}})
			}
			return m
		},
		NumCases: func(c *core.Ctx) int { return c.Pick(1600, 40000) },
		Run:      runC10,
		Floors: func(a *core.Agg) []string {
			var u []string
			ops := a.C("bank-ops.alloc") + a.C("bank-ops.string") + a.C("bank-ops.extract") + a.C("bank-ops.close")
			if ops < 10000 {
				u = append(u, fmt.Sprintf("bank operations %d < 10000", ops))
			}
			// competitor-runs is reported but is no floor: it depends on hook call sites that an edited tree may lack
			// arena-address-reused-after-close is reported (it shows that recycling really happens with this
			// implementation) but is no floor: an implementation that never reuses memory would be correct too
			for _, k := range []string{"retained-verifications", "banks-closed"} {
				if a.C(k) < 1000 {
					u = append(u, fmt.Sprintf("%s=%d < 1000", k, a.C(k)))
				}
			}
			if a.C("retained-across-3-records") < 100 {
				u = append(u, fmt.Sprintf("retained-across-3-records=%d < 100", a.C("retained-across-3-records")))
			}
			return u
		},
	})
}
