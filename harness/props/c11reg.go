package props

import (
	"bytes"
	"encoding/binary"
	"fmt"
	"math"
	"math/rand/v2"
	"reflect"
	"runtime"
	"strconv"
	"sync"
	"unsafe"

	"github.com/philpearl/avro"

	"verifharness/core"
	"verifharness/refavro"
)

// C11, registered types: what a Go type holds is decided by the Go type, not by the schema it is stored under.
// c11Boxed is registered (avro.Register) for the scalar schemas long, int, double, fixed(16), string and bytes;
// its codec builds, for a wire number n, three ordinary heap objects (an int64, a string, a byte slice) that are
// referenced from the value only. The value then sits in every position the library allocates memory for:
// plain field, slice item, map value, pointee, nested slice item, item of a slice of pointers, item of a slice
// inside a map. After forced collections and heap churn every box must still hold its number.

type c11Boxed struct {
	N *int64
	S string
	B []byte
}

type c11BoxedCodec struct{ wire string }

func (c c11BoxedCodec) num(r *avro.ReadBuf) (int64, error) {
	switch c.wire {
	case "long", "int":
		return r.Varint()
	case "double":
		b, err := r.Next(8)
		if err != nil {
			return 0, err
		}
		return int64(math.Float64frombits(binary.LittleEndian.Uint64(b))), nil
	case "fixed":
		b, err := r.Next(16)
		if err != nil {
			return 0, err
		}
		return int64(binary.LittleEndian.Uint64(b)), nil
	default: // string, bytes: decimal text
		l, err := r.Varint()
		if err != nil {
			return 0, err
		}
		b, err := r.Next(int(l))
		if err != nil {
			return 0, err
		}
		return strconv.ParseInt(string(b), 10, 64)
	}
}

func (c c11BoxedCodec) Read(r *avro.ReadBuf, p unsafe.Pointer) error {
	n, err := c.num(r)
	if err != nil {
		return err
	}
	box := (*c11Boxed)(p)
	box.N = new(int64)
	*box.N = n
	box.S = strconv.FormatInt(n, 10) + "/" + strconv.FormatInt(n, 16) // a fresh heap string
	box.B = make([]byte, 9+int(uint64(n)%23))
	for k := range box.B {
		box.B[k] = byte(n) + byte(k)
	}
	return nil
}

func (c c11BoxedCodec) Skip(r *avro.ReadBuf) error { _, err := c.num(r); return err }
func (c c11BoxedCodec) New(r *avro.ReadBuf) unsafe.Pointer {
	return r.Alloc(reflect.TypeOf(c11Boxed{}))
}
func (c c11BoxedCodec) Omit(p unsafe.Pointer) bool { return (*c11Boxed)(p).N == nil }
func (c c11BoxedCodec) Write(w *avro.WriteBuf, p unsafe.Pointer) {
	n := int64(0)
	if b := (*c11Boxed)(p); b.N != nil {
		n = *b.N
	}
	switch c.wire {
	case "long", "int":
		w.Varint(n)
	case "double":
		w.Write(binary.LittleEndian.AppendUint64(nil, math.Float64bits(float64(n))))
	case "fixed":
		w.Write(append(binary.LittleEndian.AppendUint64(nil, uint64(n)), 0, 0, 0, 0, 0, 0, 0, 0))
	default:
		s := strconv.FormatInt(n, 10)
		w.Varint(int64(len(s)))
		w.Write([]byte(s))
	}
}

func c11boxOK(b *c11Boxed, n int64) string {
	if b == nil {
		return "nil box"
	}
	if b.N == nil || *b.N != n {
		got := "nil"
		if b.N != nil {
			got = strconv.FormatInt(*b.N, 10)
		}
		return fmt.Sprintf("the int64 behind the box holds %s, decoded %d", got, n)
	}
	if want := strconv.FormatInt(n, 10) + "/" + strconv.FormatInt(n, 16); b.S != want {
		return fmt.Sprintf("the string in the box holds %q, decoded %q", trunc(b.S, 60), want)
	}
	if len(b.B) != 9+int(uint64(n)%23) {
		return fmt.Sprintf("the byte slice in the box has length %d", len(b.B))
	}
	for k := range b.B {
		if b.B[k] != byte(n)+byte(k) {
			return fmt.Sprintf("byte %d of the slice in the box is %#x", k, b.B[k])
		}
	}
	return ""
}

type c11RegHolder struct {
	F  c11Boxed              `json:"f"`
	S  []c11Boxed            `json:"s"`
	M  map[string]c11Boxed   `json:"m"`
	P  *c11Boxed             `json:"p"`
	SS [][]c11Boxed          `json:"ss"`
	SP []*c11Boxed           `json:"sp"`
	MS map[string][]c11Boxed `json:"ms"`
	G  c11Boxed              `json:"g"`
}

var c11regOnce sync.Once

func c11registered(c *core.Ctx, i int, r *rand.Rand) {
	c11regOnce.Do(func() {
		avro.Register(reflect.TypeOf(c11Boxed{}), func(s avro.Schema, typ reflect.Type, omit bool) (avro.Codec, error) {
			switch s.Type {
			case "long", "int", "double", "fixed", "string", "bytes":
				return c11BoxedCodec{wire: s.Type}, nil
			}
			return nil, fmt.Errorf("c11Boxed cannot be stored under %q", s.Type)
		})
	})
	wire := []string{"long", "int", "double", "fixed", "string", "bytes"}[(i/4)%6]
	item := `"` + wire + `"`
	first := item
	if wire == "fixed" {
		first, item = `{"type":"fixed","name":"f16","size":16}`, `"f16"`
	}
	text := fmt.Sprintf(`{"type":"record","name":"h","fields":[{"name":"f","type":%[1]s},{"name":"s","type":{"type":"array","items":%[2]s}},{"name":"m","type":{"type":"map","values":%[2]s}},
{"name":"p","type":["null",%[2]s]},{"name":"ss","type":{"type":"array","items":{"type":"array","items":%[2]s}}},{"name":"sp","type":{"type":"array","items":["null",%[2]s]}},
{"name":"ms","type":{"type":"map","values":{"type":"array","items":%[2]s}}},{"name":"g","type":%[2]s}]}`, first, item)
	// the library's parser has no named-type references: spell the fixed type out everywhere for it
	libText := text
	if wire == "fixed" {
		libText = fmt.Sprintf(`{"type":"record","name":"h","fields":[{"name":"f","type":%[1]s},{"name":"s","type":{"type":"array","items":%[1]s}},{"name":"m","type":{"type":"map","values":%[1]s}},
{"name":"p","type":["null",%[1]s]},{"name":"ss","type":{"type":"array","items":{"type":"array","items":%[1]s}}},{"name":"sp","type":{"type":"array","items":["null",%[1]s]}},
{"name":"ms","type":{"type":"map","values":{"type":"array","items":%[1]s}}},{"name":"g","type":%[1]s}]}`, first)
	}
	ls, err := avro.SchemaFromString(libText)
	var codec avro.Codec
	if err == nil {
		codec, err = ls.Codec(c11RegHolder{})
	}
	if err != nil {
		c.Violate("read-error", fmt.Sprintf("no codec for a holder of a registered type under %s: %v", wire, err), nil)
		return
	}
	num := func(b []byte, n int64) []byte {
		switch wire {
		case "long", "int":
			return refavro.AppendLong(b, n)
		case "double":
			return binary.LittleEndian.AppendUint64(b, math.Float64bits(float64(n)))
		case "fixed":
			return append(binary.LittleEndian.AppendUint64(b, uint64(n)), 0, 0, 0, 0, 0, 0, 0, 0)
		}
		s := strconv.FormatInt(n, 10)
		return append(refavro.AppendLong(b, int64(len(s))), s...)
	}
	L := refavro.AppendLong
	type rec struct {
		v    *c11RegHolder
		nums []int64
		cnt  int
	}
	var recs []rec
	h := c11hook
	h.k = uint64(1 + i%5)
	h.budget = int64(c.Pick(60, 300))
	h.forced.Store(0)
	nrec := 12 + r.IntN(20)
	rb := avro.NewReadBuf(nil)
	var keep []*avro.ResourceBank
	for k := 0; k < nrec; k++ {
		cnt := []int{1, 2, 3, 5, 8, 17, 33, 100}[r.IntN(8)]
		nums := make([]int64, 0, 5*cnt+4)
		next := func() int64 {
			n := int64(r.IntN(1 << 30))
			if wire != "int" && r.IntN(2) == 0 {
				n = int64(r.Uint64() >> (11 + r.IntN(40)))
			}
			nums = append(nums, n)
			return n
		}
		var in []byte
		in = num(in, next()) // f
		// s: items in one or several blocks (regrowth of the backing array)
		for left := cnt; left > 0; {
			b := 1 + r.IntN(left)
			in = L(in, int64(b))
			for j := 0; j < b; j++ {
				in = num(in, next())
			}
			left -= b
		}
		in = L(in, 0)
		in = L(in, int64(cnt)) // m
		for j := 0; j < cnt; j++ {
			key := fmt.Sprintf("k%d", j)
			in = append(L(in, int64(len(key))), key...)
			in = num(in, next())
		}
		in = L(in, 0)
		in = num(L(in, 1), next())   // p
		in = L(L(in, 1), int64(cnt)) // ss
		for j := 0; j < cnt; j++ {
			in = num(in, next())
		}
		in = L(L(in, 0), 0)
		in = L(in, int64(cnt)) // sp
		for j := 0; j < cnt; j++ {
			in = num(L(in, 1), next())
		}
		in = L(in, 0)
		in = append(L(L(in, 1), 2), "ms"...) // ms
		in = L(in, int64(cnt))
		for j := 0; j < cnt; j++ {
			in = num(in, next())
		}
		in = L(L(in, 0), 0)
		in = num(in, next()) // g
		v := new(c11RegHolder)
		rb.Reset(in)
		h.enabled.Store(true)
		err := codec.Read(rb, unsafe.Pointer(v))
		h.enabled.Store(false)
		c.Eval(1)
		if err != nil || rb.Len() != 0 {
			c.Violate("read-error", fmt.Sprintf("registered type under %s: decoding failed under forced collections: %v (left %d)", wire, err, rb.Len()), map[string]any{"hex": fmt.Sprintf("%x", in)})
			return
		}
		keep = append(keep, rb.ExtractResourceBank())
		for j := range in { // the message buffer is the caller's again
			in[j] = 0xAA
		}
		recs = append(recs, rec{v, nums, cnt})
	}
	for round := 0; round < 5; round++ {
		runtime.GC()
		churn(&h.rng)
	}
	boxes := int64(0)
	for k, rc := range recs {
		v, cnt, q := rc.v, rc.cnt, 0
		bad := ""
		chk := func(where string, b *c11Boxed) {
			if bad == "" {
				if d := c11boxOK(b, rc.nums[q]); d != "" {
					bad = where + ": " + d
				}
			}
			q++
			boxes++
		}
		if len(v.S) != cnt || len(v.M) != cnt || v.P == nil || len(v.SS) != 1 || len(v.SS[0]) != cnt || len(v.SP) != cnt || len(v.MS) != 1 || len(v.MS["ms"]) != cnt {
			bad = "collection sizes differ from what was decoded"
		} else {
			chk("field", &v.F)
			for j := range v.S {
				chk(fmt.Sprintf("slice item %d of %d", j, cnt), &v.S[j])
			}
			for j := 0; j < cnt; j++ {
				b := v.M[fmt.Sprintf("k%d", j)]
				chk(fmt.Sprintf("map value %d of %d", j, cnt), &b)
			}
			chk("pointee", v.P)
			for j := range v.SS[0] {
				chk(fmt.Sprintf("nested slice item %d of %d", j, cnt), &v.SS[0][j])
			}
			for j := range v.SP {
				chk(fmt.Sprintf("pointer item %d of %d", j, cnt), v.SP[j])
			}
			for j := range v.MS["ms"] {
				chk(fmt.Sprintf("item %d of %d of a slice in a map", j, cnt), &v.MS["ms"][j])
			}
			chk("last field", &v.G)
		}
		if bad != "" {
			c.Violate("gc-visibility", fmt.Sprintf("registered pointer-carrying type stored under %s, record %d: after collections and heap churn %s", wire, k, bad), map[string]any{"wire": wire, "k": h.k})
			return
		}
	}
	// encode side: the decoded records written while collections run, then decoded again
	wb := avro.NewWriteBuf(nil)
	h.forced.Store(0)
	for k, rc := range recs {
		wb.Reset()
		h.enabled.Store(true)
		codec.Write(wb, unsafe.Pointer(rc.v))
		h.enabled.Store(false)
		var back c11RegHolder
		rb.Reset(bytes.Clone(wb.Bytes()))
		if err := codec.Read(rb, unsafe.Pointer(&back)); err != nil || rb.Len() != 0 || c11boxOK(&back.G, rc.nums[len(rc.nums)-1]) != "" || len(back.S) != rc.cnt || c11boxOK(&back.S[rc.cnt-1], rc.nums[rc.cnt]) != "" {
			c.Violate("encode-under-gc", fmt.Sprintf("registered type under %s, record %d: what was written while collections ran does not decode to the same boxes (err=%v)", wire, k, err), nil)
			return
		}
		rb.ExtractResourceBank().Close()
	}
	runtime.KeepAlive(keep)
	c.Count("registered-boxes-verified", boxes)
	c.Count("records-verified", int64(len(recs)))
	c.Count("forced-gcs", min64(h.forced.Load(), h.budget))
	c.Shape("registered|" + wire)
}
