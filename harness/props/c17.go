package props

import (
	"bytes"
	"encoding/binary"
	"fmt"
	"math"
	"math/rand/v2"
	"reflect"
	"strings"
	"unsafe"

	"github.com/philpearl/avro"

	"verifharness/core"
	"verifharness/refavro"
)

// C17 — primitive wire encodings match the specification exactly.

type c17chunk struct {
	dom string
	idx int
}

func c17chunks(thorough bool) []c17chunk {
	var cs []c17chunk
	cs = append(cs, c17chunk{"int16-all", 0})
	n32 := 8
	if thorough {
		n32 = 4096
	}
	for _, d := range []string{"int32", "float32", "float32double"} {
		for i := 0; i < n32; i++ {
			cs = append(cs, c17chunk{d, i})
		}
	}
	n64 := 8
	if thorough {
		n64 = 80
	}
	for i := 0; i < n64; i++ {
		cs = append(cs, c17chunk{"int64", i}, c17chunk{"double", i})
	}
	cs = append(cs, c17chunk{"varint-len012", 0})
	for l := 3; l <= 11; l++ {
		for k := 0; k < 4; k++ {
			cs = append(cs, c17chunk{"varint-pattern", l*16 + k})
		}
	}
	cs = append(cs, c17chunk{"bool", 0}, c17chunk{"width", 0})
	for k := 0; k < 8; k++ {
		cs = append(cs, c17chunk{"varint-long-runs", k})
	}
	cs = append(cs, c17chunk{"varint-in-context", 0})
	cs = append(cs, c17chunk{"float-records", 0})
	return cs
}

type c17state struct {
	wb *avro.WriteBuf
	rb *avro.ReadBuf
}

var c17st c17state

// varintBoundaries: around every power of two and every varint-length boundary.
func varintBoundaries() []int64 {
	var out []int64
	for s := 0; s < 64; s++ {
		p := int64(1) << s
		for d := int64(-2); d <= 2; d++ {
			out = append(out, p+d, -p+d)
		}
	}
	out = append(out, math.MaxInt64, math.MaxInt64-1, math.MinInt64, math.MinInt64+1, 0)
	return out
}

func c17checkInt[T int16 | int32 | int64](c *core.Ctx, codec avro.Codec, v T, name string) {
	st := &c17st
	st.wb.Reset()
	codec.Write(st.wb, unsafe.Pointer(&v))
	got := st.wb.Bytes()
	var want [12]byte
	w := refavro.AppendLong(want[:0], int64(v))
	if !bytes.Equal(got, w) {
		c.Violate("int-encoding", fmt.Sprintf("%s value %d encoded as %x, specification says %x", name, v, got, w), nil)
		return
	}
	var back T = 0x55
	st.rb.Reset(got)
	if err := codec.Read(st.rb, unsafe.Pointer(&back)); err != nil || back != v || st.rb.Len() != 0 {
		c.Violate("int-roundtrip", fmt.Sprintf("%s value %d: decode gave %d err=%v left=%d", name, v, back, err, st.rb.Len()), nil)
	}
}

// c17checkWidth: decoding long value v into width T must fail iff out of range.
func c17checkWidth[T int16 | int32 | int64](c *core.Ctx, codec avro.Codec, v int64, lo, hi int64, name string) {
	st := &c17st
	var buf [12]byte
	enc := refavro.AppendLong(buf[:0], v)
	st.rb.Reset(enc)
	guard := [3]T{0x11, 0x22, 0x11}
	err := codec.Read(st.rb, unsafe.Pointer(&guard[1]))
	in := v >= lo && v <= hi
	if in && (err != nil || int64(guard[1]) != v) {
		c.Violate("width", fmt.Sprintf("%s: in-range value %d decoded as %d err=%v", name, v, guard[1], err), nil)
	}
	if !in && err == nil {
		c.Violate("width", fmt.Sprintf("%s: out-of-range value %d accepted and stored as %d", name, v, guard[1]), nil)
	}
	if guard[0] != 0x11 || guard[2] != 0x11 {
		c.Violate("width", fmt.Sprintf("%s: decoding %d modified a neighbouring value", name, v), nil)
	}
}

func c17checkF32(c *core.Ctx, bits uint32) {
	st := &c17st
	f := math.Float32frombits(bits)
	st.wb.Reset()
	avro.FloatCodec{}.Write(st.wb, unsafe.Pointer(&f))
	got := st.wb.Bytes()
	var want [4]byte
	binary.LittleEndian.PutUint32(want[:], bits)
	if !bytes.Equal(got, want[:]) {
		c.Violate("float-encoding", fmt.Sprintf("float32 bits %08x encoded as %x", bits, got), nil)
		return
	}
	var back float32
	st.rb.Reset(got)
	if err := (avro.FloatCodec{}).Read(st.rb, unsafe.Pointer(&back)); err != nil || math.Float32bits(back) != bits || st.rb.Len() != 0 {
		c.Violate("float-roundtrip", fmt.Sprintf("float32 bits %08x decoded as %08x err=%v", bits, math.Float32bits(back), err), nil)
	}
}

func c17checkF32D(c *core.Ctx, bits uint32) {
	st := &c17st
	f := math.Float32frombits(bits)
	st.wb.Reset()
	avro.Float32DoubleCodec{}.Write(st.wb, unsafe.Pointer(&f))
	got := st.wb.Bytes()
	if len(got) != 8 {
		c.Violate("float32double-encoding", fmt.Sprintf("float32 bits %08x as double took %d bytes", bits, len(got)), nil)
		return
	}
	d := math.Float64frombits(binary.LittleEndian.Uint64(got))
	if f == f {
		// exact widening: the specification's double for the same real number
		if d != float64(f) || math.Signbit(d) != math.Signbit(float64(f)) {
			c.Violate("float32double-encoding", fmt.Sprintf("float32 %v (bits %08x) written as double %v", f, bits, d), nil)
			return
		}
	} else if d == d {
		c.Violate("float32double-encoding", fmt.Sprintf("float32 NaN %08x written as double %v", bits, d), nil)
		return
	}
	var back float32
	st.rb.Reset(got)
	err := (avro.Float32DoubleCodec{}).Read(st.rb, unsafe.Pointer(&back))
	ok := err == nil && st.rb.Len() == 0
	if f == f {
		ok = ok && math.Float32bits(back) == bits
	} else {
		ok = ok && back != back
	}
	if !ok {
		c.Violate("float32double-roundtrip", fmt.Sprintf("float32 bits %08x came back as %08x err=%v", bits, math.Float32bits(back), err), nil)
	}
}

func c17checkF64(c *core.Ctx, bits uint64) {
	st := &c17st
	f := math.Float64frombits(bits)
	st.wb.Reset()
	avro.DoubleCodec{}.Write(st.wb, unsafe.Pointer(&f))
	got := st.wb.Bytes()
	var want [8]byte
	binary.LittleEndian.PutUint64(want[:], bits)
	if !bytes.Equal(got, want[:]) {
		c.Violate("double-encoding", fmt.Sprintf("float64 bits %016x encoded as %x", bits, got), nil)
		return
	}
	var back float64
	st.rb.Reset(got)
	if err := (avro.DoubleCodec{}).Read(st.rb, unsafe.Pointer(&back)); err != nil || math.Float64bits(back) != bits || st.rb.Len() != 0 {
		c.Violate("double-roundtrip", fmt.Sprintf("float64 bits %016x decoded as %016x err=%v", bits, math.Float64bits(back), err), nil)
	}
}

// c17checkVarint compares the library's varint reader with the specification rule.
func c17checkVarint(c *core.Ctx, data []byte) {
	st := &c17st
	st.rb.Reset(data)
	v, err := st.rb.Varint()
	consumed := len(data) - st.rb.Len()
	rv, rn, _, rerr := refavro.ReadLong(data)
	if (err != nil) != (rerr != nil) {
		c.Violate("varint-acceptance", fmt.Sprintf("candidate varint %x: library err=%v (value %d), specification rule err=%v", data, err, v, rerr), map[string]any{"hex": fmt.Sprintf("%x", data)})
		return
	}
	if err == nil && (v != rv || consumed != rn) {
		c.Violate("varint-value", fmt.Sprintf("candidate varint %x: library value %d consuming %d, specification %d consuming %d", data, v, consumed, rv, rn), map[string]any{"hex": fmt.Sprintf("%x", data)})
	}
	if err == nil {
		c.Count("varint.accepted", 1)
	} else {
		c.Count("varint.rejected", 1)
	}
	// the skip path of every integer width, with the candidate followed by 0, 16 and 24 bytes of further
	// data (a reader may look ahead; what it accepts and consumes must not depend on what follows)
	for _, pad := range c17pads {
		in := append(append(c17padBuf[:0], data...), pad...)
		rv, rn, _, rerr := refavro.ReadLong(in)
		_ = rv
		for k, codec := range c17skippers {
			st.rb.Reset(in)
			serr := codec.Skip(st.rb)
			used := len(in) - st.rb.Len()
			c.Count("varint.skip-checks", 1)
			if (serr != nil) != (rerr != nil) {
				c.Violate("varint-acceptance", fmt.Sprintf("candidate varint %x followed by %d more bytes: %s.Skip err=%v, specification rule err=%v", data, len(pad), c17skipperNames[k], serr, rerr), map[string]any{"hex": fmt.Sprintf("%x", in)})
				return
			}
			if serr == nil && used != rn {
				c.Violate("varint-value", fmt.Sprintf("candidate varint %x followed by %d more bytes: %s.Skip consumed %d bytes, the varint has %d", data, len(pad), c17skipperNames[k], used, rn), map[string]any{"hex": fmt.Sprintf("%x", in)})
				return
			}
		}
		st.rb.Reset(in)
		v2, err2 := st.rb.Varint()
		if (err2 != nil) != (rerr != nil) || (err2 == nil && (v2 != rv || len(in)-st.rb.Len() != rn)) {
			c.Violate("varint-acceptance", fmt.Sprintf("candidate varint %x followed by %d more bytes: library value %d err=%v, specification %d err=%v", data, len(pad), v2, err2, rv, rerr), map[string]any{"hex": fmt.Sprintf("%x", in)})
			return
		}
	}
}

var (
	c17pads         = [][]byte{bytes.Repeat([]byte{0x00}, 16), bytes.Repeat([]byte{0x81}, 24)}
	c17padBuf       = make([]byte, 0, 1024)
	c17skippers     = []avro.Codec{avro.Int64Codec{}, avro.Int32Codec{}, avro.Int16Codec{}}
	c17skipperNames = []string{"Int64Codec", "Int32Codec", "Int16Codec"}
)

// c17inContext: every place where the decoders read a varint (lengths, counts, block sizes, selectors) must
// report a malformed varint (overflowing or longer than ten bytes) as an error, like the integer codecs do.
func c17inContext(c *core.Ctx) int {
	type ctxT struct {
		A []int64          `json:"a"`
		M map[string]int64 `json:"m"`
		S string           `json:"s"`
		B []byte           `json:"b"`
		L int64            `json:"l"`
		U *int64           `json:"u"`
	}
	bad := [][]byte{
		{0x80, 0x80, 0x80, 0x80, 0x80, 0x80, 0x80, 0x80, 0x80, 0x02},
		{0xff, 0xff, 0xff, 0xff, 0xff, 0xff, 0xff, 0xff, 0xff, 0x7f},
		{0x80, 0x80, 0x80, 0x80, 0x80, 0x80, 0x80, 0x80, 0x80, 0x80, 0x00},
		append(bytes.Repeat([]byte{0x80}, 37), 0x01),
		append(bytes.Repeat([]byte{0xff}, 40), 0x00),
		append(bytes.Repeat([]byte{0x81}, 256), 0x01),
	}
	for l := 11; l <= 20; l++ {
		bad = append(bad, append(bytes.Repeat([]byte{0x80}, l-1), 0x01), append(bytes.Repeat([]byte{0xff}, l-1), 0x7f))
	}
	bad = append(bad, []byte{0x80, 0x80, 0x80, 0x80, 0x80, 0x80, 0x80, 0x80, 0x80, 0x7f}, []byte{0x81, 0x82, 0x83, 0x84, 0x85, 0x86, 0x87, 0x88, 0x89, 0x03})
	var bad2 [][]byte // each malformed varint twice: in a short input and with plenty of data after the record
	for _, b := range bad {
		bad2 = append(bad2, b, b)
	}
	L := func(v int64) []byte { return refavro.AppendLong(nil, v) }
	cat := func(parts ...[]byte) []byte {
		var out []byte
		for _, p := range parts {
			out = append(out, p...)
		}
		return out
	}
	type slot struct {
		name   string
		schema string
		build  func(v []byte) []byte // record bytes with the malformed varint v in the slot, followed by valid data
	}
	slots := []slot{
		{"long value", `{"name":"l","type":"long"}`, func(v []byte) []byte { return cat(v, L(1)) }},
		{"string length", `{"name":"s","type":"string"}`, func(v []byte) []byte { return cat(v, []byte("abc")) }},
		{"bytes length", `{"name":"b","type":"bytes"}`, func(v []byte) []byte { return cat(v, []byte("abc")) }},
		{"array count", `{"name":"a","type":{"type":"array","items":"long"}}`, func(v []byte) []byte { return cat(v, L(1), L(0)) }},
		{"array block size", `{"name":"a","type":{"type":"array","items":"long"}}`, func(v []byte) []byte { return cat(L(-2), v, L(1), L(2), L(0)) }},
		{"map count", `{"name":"m","type":{"type":"map","values":"long"}}`, func(v []byte) []byte { return cat(v, L(1), []byte("k"), L(1), L(0)) }},
		{"map block size", `{"name":"m","type":{"type":"map","values":"long"}}`, func(v []byte) []byte { return cat(L(-1), v, L(1), []byte("k"), L(7), L(0)) }},
		{"map key length", `{"name":"m","type":{"type":"map","values":"long"}}`, func(v []byte) []byte { return cat(L(1), v, []byte("k"), L(7), L(0)) }},
		{"union selector (3 branches)", `{"name":"l","type":["null","long","int"]}`, func(v []byte) []byte { return cat(v, L(5)) }},
		{"second array block count", `{"name":"a","type":{"type":"array","items":"long"}}`, func(v []byte) []byte { return cat(L(1), L(9), v, L(1), L(0)) }},
	}
	n := 0
	rb := avro.NewReadBuf(nil)
	for _, sl := range slots {
		s, err := avro.SchemaFromString(`{"type":"record","name":"ctx","fields":[` + sl.schema + `]}`)
		if err != nil {
			c.Violate("harness", err.Error(), nil)
			continue
		}
		for _, target := range []any{ctxT{}, struct{}{}} {
			codec, err := s.Codec(target)
			if err != nil {
				c.Violate("harness", sl.name+": "+err.Error(), nil)
				continue
			}
			for vi, v0 := range bad2 {
				v := v0
				in := sl.build(v)
				if vi%2 == 1 {
					in = append(in, bytes.Repeat([]byte{0x00}, 32)...) // plenty of data after the record
				}
				for pass := 0; pass < 2; pass++ {
					rb.Reset(in)
					var rerr error
					what := "Read"
					if pass == 0 {
						var t ctxT
						var e struct{}
						if _, isEmpty := target.(struct{}); isEmpty {
							rerr = codec.Read(rb, unsafe.Pointer(&e))
							what = "Read (field skipped)"
						} else {
							rerr = codec.Read(rb, unsafe.Pointer(&t))
						}
					} else {
						rerr = codec.Skip(rb)
						what = "Skip"
					}
					n++
					c.Count("varint.in-context", 1)
					if rerr == nil {
						c.Violate("varint-acceptance", fmt.Sprintf("%s: a varint that overflows 64 bits / is longer than ten bytes in the %s slot was accepted by %s: input %x", sl.name, sl.name, what, in), map[string]any{"hex": fmt.Sprintf("%x", in)})
						return n
					}
				}
			}
		}
	}
	return n
}

// c17widthPositions: the width rule in every position a narrow integer can occupy (record field, array
// item, map value, behind pointers, nested), for int16 and int32 and their defined types.
type c17n16 int16
type c17n32 int32
type c17w16 struct {
	F  int16            `json:"f"`
	A  []int16          `json:"a"`
	M  map[string]int16 `json:"m"`
	P  *int16           `json:"p"`
	AA [][]int16        `json:"aa"`
	AP []*int16         `json:"ap"`
	N  c17n16           `json:"n"`
	AN []c17n16         `json:"an"`
	G  int16            `json:"g"`
}
type c17w32 struct {
	F  int32            `json:"f"`
	A  []int32          `json:"a"`
	M  map[string]int32 `json:"m"`
	P  *int32           `json:"p"`
	AA [][]int32        `json:"aa"`
	AP []*int32         `json:"ap"`
	N  c17n32           `json:"n"`
	AN []c17n32         `json:"an"`
	G  int32            `json:"g"`
}

const c17wSchema = `{"type":"record","name":"w","fields":[{"name":"f","type":"long"},{"name":"a","type":{"type":"array","items":"long"}},
{"name":"m","type":{"type":"map","values":"long"}},{"name":"p","type":["null","long"]},{"name":"aa","type":{"type":"array","items":{"type":"array","items":"long"}}},
{"name":"ap","type":{"type":"array","items":["null","long"]}},{"name":"n","type":"long"},{"name":"an","type":{"type":"array","items":"long"}},{"name":"g","type":"long"}]}`

func c17widthPositions(c *core.Ctx, r *rand.Rand, wire string) int {
	s, err := avro.SchemaFromString(strings.ReplaceAll(c17wSchema, `"long"`, `"`+wire+`"`))
	if err != nil {
		c.Violate("harness", err.Error(), nil)
		return 0
	}
	L := func(v int64) []byte { return refavro.AppendLong(nil, v) }
	// record bytes with v at position pos and 1 everywhere else
	build := func(pos int, v int64) []byte {
		val := func(k int) []byte {
			if k == pos {
				return L(v)
			}
			return L(1)
		}
		var out []byte
		out = append(out, val(0)...)                                                    // f
		out = append(append(append(out, L(2)...), append(L(1), val(1)...)...), L(0)...) // a: [1, v]
		out = append(out, L(1)...)
		out = append(append(append(out, L(1)...), 'k'), val(2)...) // m: {k: v}
		out = append(out, L(0)...)
		out = append(append(out, L(1)...), val(3)...) // p
		out = append(out, L(1)...)                    // aa: [[1, v]]
		out = append(append(append(out, L(2)...), append(L(1), val(4)...)...), L(0)...)
		out = append(out, L(0)...)
		out = append(out, L(2)...) // ap: [*1, *v]
		out = append(append(append(out, L(1)...), L(1)...), append(L(1), val(5)...)...)
		out = append(out, L(0)...)
		out = append(out, val(6)...)                                                    // n
		out = append(append(append(out, L(2)...), append(L(1), val(7)...)...), L(0)...) // an
		out = append(out, L(7)...)                                                      // g (guard: must still decode as 7)
		return out
	}
	names := []string{"record field", "array item", "map value", "pointer", "nested array item", "array of pointers item", "defined-type field", "array of defined type item"}
	n := 0
	rb := avro.NewReadBuf(nil)
	vals := varintBoundaries()
	for k := 0; k < 3000; k++ {
		vals = append(vals, int64(r.Uint64())>>uint(r.IntN(56)))
	}
	for v := int64(-(1 << 16)) - 3; v <= 1<<16+3; v += 1 + int64(r.IntN(3)) {
		vals = append(vals, v)
	}
	c16, err16 := s.Codec(c17w16{})
	c32, err32 := s.Codec(c17w32{})
	if err16 != nil || err32 != nil {
		c.Violate("harness", fmt.Sprintf("width positions: %v %v", err16, err32), nil)
		return 0
	}
	for _, v := range vals {
		for pos := range names {
			in := build(pos, v)
			for w := 0; w < 2; w++ {
				var got, g int64
				var rerr error
				lo, hi := int64(math.MinInt16), int64(math.MaxInt16)
				rb.Reset(in)
				if w == 0 {
					var t c17w16
					rerr = c16.Read(rb, unsafe.Pointer(&t))
					if rerr == nil {
						got = []int64{int64(t.F), int64(last(t.A)), int64(t.M["k"]), int64(deref(t.P)), int64(last(last(t.AA))), int64(deref(last(t.AP))), int64(t.N), int64(last(t.AN))}[pos]
						g = int64(t.G)
					}
				} else {
					lo, hi = math.MinInt32, math.MaxInt32
					var t c17w32
					rerr = c32.Read(rb, unsafe.Pointer(&t))
					if rerr == nil {
						got = []int64{int64(t.F), int64(last(t.A)), int64(t.M["k"]), int64(deref(t.P)), int64(last(last(t.AA))), int64(deref(last(t.AP))), int64(t.N), int64(last(t.AN))}[pos]
						g = int64(t.G)
					}
				}
				rb.ExtractResourceBank().Close()
				n++
				in_ := v >= lo && v <= hi
				width := wire + " schema, " + []string{"int16", "int32"}[w]
				switch {
				case in_ && (rerr != nil || got != v || g != 7):
					c.Violate("width", fmt.Sprintf("%s as %s: in-range value %d decoded as %d (guard %d) err=%v", width, names[pos], v, got, g, rerr), map[string]any{"hex": fmt.Sprintf("%x", in)})
					return n
				case !in_ && rerr == nil:
					c.Violate("width", fmt.Sprintf("%s as %s: out-of-range value %d accepted and stored as %d", width, names[pos], v, got), map[string]any{"hex": fmt.Sprintf("%x", in)})
					return n
				}
			}
		}
	}
	c.Count("width.position-checks", int64(n))
	return n
}

// c17builtWidths: the codecs the *builder* chooses for every (schema integer type, Go integer width) pair,
// as opposed to the exported codec structs used directly: int and long schemas over int16, int32, int64 and
// int fields. In-range values decode exactly and re-encode to the shortest form; a wire value outside the
// destination's width is an error (for int64/int destinations only long-schema values beyond int32 are
// presented, an int schema cannot legally carry them).
func c17builtWidths(c *core.Ctx, r *rand.Rand) int {
	n := 0
	vals := varintBoundaries()
	for k := 0; k < 20000; k++ {
		vals = append(vals, int64(r.Uint64())>>uint(r.IntN(60)))
	}
	for v := int64(math.MinInt16) - 300; v <= math.MaxInt16+300; v++ {
		vals = append(vals, v)
	}
	rb, wb := avro.NewReadBuf(nil), avro.NewWriteBuf(nil)
	type dest struct {
		name   string
		v      any
		lo, hi int64
		get    func(p unsafe.Pointer) int64
	}
	dests := []dest{
		{"int16", struct {
			F int16 `json:"f"`
			G int16 `json:"g"`
		}{}, math.MinInt16, math.MaxInt16, func(p unsafe.Pointer) int64 { return int64(*(*int16)(p)) }},
		{"int32", struct {
			F int32 `json:"f"`
			G int32 `json:"g"`
		}{}, math.MinInt32, math.MaxInt32, func(p unsafe.Pointer) int64 { return int64(*(*int32)(p)) }},
		{"int64", struct {
			F int64 `json:"f"`
			G int64 `json:"g"`
		}{}, math.MinInt64, math.MaxInt64, func(p unsafe.Pointer) int64 { return *(*int64)(p) }},
		{"int", struct {
			F int `json:"f"`
			G int `json:"g"`
		}{}, math.MinInt64, math.MaxInt64, func(p unsafe.Pointer) int64 { return int64(*(*int)(p)) }},
	}
	for _, wire := range []string{"int", "long"} {
		ls, err := avro.SchemaFromString(fmt.Sprintf(`{"type":"record","name":"bw","fields":[{"name":"f","type":"%s"},{"name":"g","type":"%s"}]}`, wire, wire))
		if err != nil {
			c.Violate("harness", err.Error(), nil)
			return n
		}
		for _, d := range dests {
			codec, err := ls.Codec(d.v)
			if err != nil {
				c.Violate("width", fmt.Sprintf("no codec for a %s field under an %s schema: %v", d.name, wire, err), nil)
				return n
			}
			size := reflect.TypeOf(d.v).Size()
			for _, v := range vals {
				if wire == "int" && (v < math.MinInt32 || v > math.MaxInt32) && d.hi > math.MaxInt32 {
					continue // not a legal int datum and it fits the destination: nothing is specified
				}
				in := refavro.AppendLong(refavro.AppendLong(nil, v), 7)
				buf := make([]byte, size)
				rb.Reset(in)
				rerr := codec.Read(rb, unsafe.Pointer(&buf[0]))
				got, g := d.get(unsafe.Pointer(&buf[0])), d.get(unsafe.Pointer(&buf[size/2]))
				n++
				inRange := v >= d.lo && v <= d.hi
				switch {
				case inRange && (rerr != nil || got != v || g != 7 || rb.Len() != 0):
					c.Violate("width", fmt.Sprintf("%s schema into %s (built codec): in-range value %d decoded as %d (next field %d, left %d) err=%v", wire, d.name, v, got, g, rb.Len(), rerr), map[string]any{"hex": fmt.Sprintf("%x", in)})
					return n
				case !inRange && rerr == nil:
					c.Violate("width", fmt.Sprintf("%s schema into %s (built codec): out-of-range value %d accepted and stored as %d", wire, d.name, v, got), map[string]any{"hex": fmt.Sprintf("%x", in)})
					return n
				}
				if inRange {
					wb.Reset()
					codec.Write(wb, unsafe.Pointer(&buf[0]))
					if !bytes.Equal(wb.Bytes(), in) {
						c.Violate("int-encoding", fmt.Sprintf("%s schema, %s field (built codec): %d,7 written as %x, specification says %x", wire, d.name, v, wb.Bytes(), in), nil)
						return n
					}
				}
			}
		}
	}
	c.Count("width.built-codec-checks", int64(n))
	return n
}

type c17fp struct {
	S  []float32          `json:"s"`
	M  map[string]float32 `json:"m"`
	P  *float32           `json:"p"`
	SS [][]float32        `json:"ss"`
	SP []*float32         `json:"sp"`
	N  struct {
		X float32 `json:"x"`
		Y float64 `json:"y"`
	} `json:"n"`
	D  []float64 `json:"d"`
	PD *float64  `json:"pd"`
	G  float32   `json:"g"`
}

// c17floatPositions: float32 values in every position (slice item, map value, pointee, nested slice item, item of
// a slice of pointers, field of a nested record) carried as double and as float: canonical IEEE-754 little-endian
// bytes decode bit-exactly in every position, and what the library writes for the decoded value is, to the
// reference decoder, the same numbers.
func c17floatPositions(c *core.Ctx, r *rand.Rand) int {
	n := 0
	rb, wb := avro.NewReadBuf(nil), avro.NewWriteBuf(nil)
	for _, wire := range []string{"double", "float"} {
		text := fmt.Sprintf(`{"type":"record","name":"fp","fields":[{"name":"s","type":{"type":"array","items":"%[1]s"}},{"name":"m","type":{"type":"map","values":"%[1]s"}},
{"name":"p","type":["null","%[1]s"]},{"name":"ss","type":{"type":"array","items":{"type":"array","items":"%[1]s"}}},{"name":"sp","type":{"type":"array","items":["null","%[1]s"]}},
{"name":"n","type":{"type":"record","name":"nn","fields":[{"name":"x","type":"%[1]s"},{"name":"y","type":"double"}]}},{"name":"d","type":{"type":"array","items":"double"}},{"name":"pd","type":["null","double"]},{"name":"g","type":"%[1]s"}]}`, wire)
		ls, err := avro.SchemaFromString(text)
		var codec avro.Codec
		if err == nil {
			codec, err = ls.Codec(c17fp{})
		}
		rs, rerr := refavro.ParseSchema([]byte(text))
		if err != nil || rerr != nil {
			c.Violate("float-record", fmt.Sprintf("float positions under %s: %v %v", wire, err, rerr), nil)
			return n
		}
		L := func(b []byte, v int64) []byte { return refavro.AppendLong(b, v) }
		for rep := 0; rep < 1500; rep++ {
			cnt := []int{1, 2, 3, 7, 8, 9, 16, 33, 100}[r.IntN(9)]
			xs := make([]float32, 4*cnt+4)
			for k := range xs {
				xs[k] = math.Float32frombits(r.Uint32())
				if r.IntN(3) == 0 {
					xs[k] = float32(r.NormFloat64())
				}
			}
			ds := make([]float64, cnt+2)
			for k := range ds {
				ds[k] = math.Float64frombits(r.Uint64())
			}
			F := func(b []byte, x float32) []byte {
				if wire == "float" {
					return binary.LittleEndian.AppendUint32(b, math.Float32bits(x))
				}
				return binary.LittleEndian.AppendUint64(b, math.Float64bits(float64(x)))
			}
			D := func(b []byte, x float64) []byte { return binary.LittleEndian.AppendUint64(b, math.Float64bits(x)) }
			var in []byte
			k := 0
			in = L(in, int64(cnt)) // s
			for j := 0; j < cnt; j++ {
				in = F(in, xs[k])
				k++
			}
			in = L(in, 0)
			in = L(in, 1) // m
			in = append(L(in, 1), 'k')
			in = F(in, xs[k])
			k++
			in = L(in, 0)
			in = F(L(in, 1), xs[k]) // p
			k++
			in = L(L(in, 1), int64(cnt)) // ss
			for j := 0; j < cnt; j++ {
				in = F(in, xs[k])
				k++
			}
			in = L(L(in, 0), 0)
			in = L(in, int64(cnt)) // sp
			for j := 0; j < cnt; j++ {
				in = F(L(in, 1), xs[k])
				k++
			}
			in = L(in, 0)
			in = D(F(in, xs[k]), ds[0]) // n
			k++
			in = L(in, int64(cnt)) // d
			for j := 0; j < cnt; j++ {
				in = D(in, ds[1+j])
			}
			in = L(in, 0)
			in = D(L(in, 1), ds[cnt+1]) // pd
			in = F(in, xs[k])           // g
			var v c17fp
			rb.Reset(in)
			err := codec.Read(rb, unsafe.Pointer(&v))
			n++
			if err != nil || rb.Len() != 0 {
				c.Violate("float-record", fmt.Sprintf("float positions under %s: reading %d-item collections failed: %v (left %d)", wire, cnt, err, rb.Len()), map[string]any{"hex": fmt.Sprintf("%x", in)})
				return n
			}
			// expected bits: under double, a float32 field receives float32(float64(x)) == x bit-exactly except that a
			// signalling NaN may have been quieted by the widening that produced the wire value
			same := func(got, want float32) bool {
				return math.Float32bits(got) == math.Float32bits(want) || (wire == "double" && want != want && got != got)
			}
			bad := ""
			chk := func(where string, got, want float32) {
				if bad == "" && !same(got, want) {
					bad = fmt.Sprintf("%s: %08x != %08x", where, math.Float32bits(got), math.Float32bits(want))
				}
			}
			k = 0
			if len(v.S) != cnt || len(v.M) != 1 || v.P == nil || len(v.SS) != 1 || len(v.SS[0]) != cnt || len(v.SP) != cnt || len(v.D) != cnt || v.PD == nil {
				bad = fmt.Sprintf("shape: %d %d %v %d %d %d", len(v.S), len(v.M), v.P != nil, len(v.SS), len(v.SP), len(v.D))
			} else {
				for j := 0; j < cnt; j++ {
					chk(fmt.Sprintf("slice item %d of %d", j, cnt), v.S[j], xs[k])
					k++
				}
				chk("map value", v.M["k"], xs[k])
				k++
				chk("pointee", *v.P, xs[k])
				k++
				for j := 0; j < cnt; j++ {
					chk(fmt.Sprintf("nested slice item %d of %d", j, cnt), v.SS[0][j], xs[k])
					k++
				}
				for j := 0; j < cnt; j++ {
					if v.SP[j] == nil {
						bad = "nil pointer item"
						break
					}
					chk(fmt.Sprintf("pointer item %d of %d", j, cnt), *v.SP[j], xs[k])
					k++
				}
				chk("nested record field", v.N.X, xs[k])
				k++
				chk("last field", v.G, xs[k])
				if bad == "" && math.Float64bits(v.N.Y) != math.Float64bits(ds[0]) {
					bad = "float64 next to a float32 in a nested record"
				}
				for j := 0; j < cnt && bad == ""; j++ {
					if math.Float64bits(v.D[j]) != math.Float64bits(ds[1+j]) {
						bad = fmt.Sprintf("float64 slice item %d of %d", j, cnt)
					}
				}
				if bad == "" && math.Float64bits(*v.PD) != math.Float64bits(ds[cnt+1]) {
					bad = "float64 pointee"
				}
			}
			if bad != "" {
				c.Violate("float-record", fmt.Sprintf("float32 carried as %s, %s", wire, bad), map[string]any{"hex": fmt.Sprintf("%x", in)})
				return n
			}
			// write the decoded value; the reference decoder must find the same numbers as in the canonical bytes
			wb.Reset()
			codec.Write(wb, unsafe.Pointer(&v))
			wantD, e1 := refavro.DecodeAll(rs, in, 1)
			gotD, e2 := refavro.DecodeAll(rs, wb.Bytes(), 1)
			if e1 != nil || e2 != nil || refavro.Render(wantD[0]) != refavro.Render(gotD[0]) {
				c.Violate("float-record", fmt.Sprintf("float positions under %s: the value decoded from %d-item collections is written as different data (%v %v)", wire, cnt, e1, e2), map[string]any{"hex": fmt.Sprintf("%x", in), "written": fmt.Sprintf("%x", wb.Bytes())})
				return n
			}
			rb.ExtractResourceBank().Close()
		}
	}
	c.Count("float-position.checks", int64(n))
	return n
}

// c17floatRecords: the float clauses inside records made of floats only (every sequence of 1-4 float32 /
// float64 fields, all carried as doubles, and the same with float32 carried as float): the bytes are the
// IEEE-754 little-endian values in schema order, and they read back bit-exactly.
func c17floatRecords(c *core.Ctx, r *rand.Rand) int {
	n := 0
	f32, f64 := reflect.TypeOf(float32(0)), reflect.TypeOf(float64(0))
	rb, wb := avro.NewReadBuf(nil), avro.NewWriteBuf(nil)
	for length := 1; length <= 4; length++ {
		for mask := 0; mask < 1<<length; mask++ {
			for asFloat := 0; asFloat < 2; asFloat++ {
				var fs []reflect.StructField
				schema := `{"type":"record","name":"fr","fields":[`
				for k := 0; k < length; k++ {
					ft, st := f64, "double"
					if mask>>k&1 == 1 {
						ft = f32
						if asFloat == 1 {
							st = "float"
						}
					}
					fs = append(fs, reflect.StructField{Name: fmt.Sprintf("F%d", k), Type: ft, Tag: reflect.StructTag(fmt.Sprintf(`json:"f%d"`, k))})
					if k > 0 {
						schema += ","
					}
					schema += fmt.Sprintf(`{"name":"f%d","type":"%s"}`, k, st)
				}
				schema += "]}"
				rt := reflect.StructOf(fs)
				ls, err := avro.SchemaFromString(schema)
				var codec avro.Codec
				if err == nil {
					codec, err = ls.Codec(reflect.New(rt).Elem().Interface())
				}
				if err != nil {
					c.Violate("float-record", fmt.Sprintf("codec refused for %s under %s: %v", rt, schema, err), nil)
					return n
				}
				for rep := 0; rep < 200; rep++ {
					v := reflect.New(rt).Elem()
					var want []byte
					for k := 0; k < length; k++ {
						if mask>>k&1 == 1 {
							x := math.Float32frombits(r.Uint32())
							if rep%4 == 0 {
								x = float32(r.NormFloat64())
							}
							*(*float32)(v.Field(k).Addr().UnsafePointer()) = x // exact bits (SetFloat would go through float64)
							if asFloat == 1 {
								want = binary.LittleEndian.AppendUint32(want, math.Float32bits(x))
							} else {
								want = binary.LittleEndian.AppendUint64(want, math.Float64bits(float64(x)))
							}
						} else {
							x := math.Float64frombits(r.Uint64())
							if rep%4 == 0 {
								x = r.NormFloat64()
							}
							v.Field(k).SetFloat(x)
							want = binary.LittleEndian.AppendUint64(want, math.Float64bits(x))
						}
					}
					wb.Reset()
					codec.Write(wb, v.Addr().UnsafePointer())
					n++
					// NaN payloads: float32 -> float64 conversion may quieten a signalling NaN; compare as the spec value of the
					// converted number, which is what `want` holds
					if !bytes.Equal(wb.Bytes(), want) {
						c.Violate("float-record", fmt.Sprintf("%s under %s: value %v written as %x, specification says %x", rt, schema, v.Interface(), wb.Bytes(), want), nil)
						return n
					}
					back := reflect.New(rt).Elem()
					rb.Reset(want)
					if err := codec.Read(rb, back.Addr().UnsafePointer()); err != nil {
						c.Violate("float-record", fmt.Sprintf("%s under %s: reading %x failed: %v", rt, schema, want, err), nil)
						return n
					}
					wb.Reset()
					codec.Write(wb, back.Addr().UnsafePointer())
					if !bytes.Equal(wb.Bytes(), want) || rb.Len() != 0 {
						c.Violate("float-record", fmt.Sprintf("%s under %s: %x read back and written again is %x (left %d)", rt, schema, want, wb.Bytes(), rb.Len()), nil)
						return n
					}
				}
			}
		}
	}
	return n
}

func last[T any](s []T) T {
	var z T
	if len(s) == 0 {
		return z
	}
	return s[len(s)-1]
}

func deref[T any](p *T) T {
	var z T
	if p == nil {
		return z
	}
	return *p
}

func runC17(c *core.Ctx, i int) {
	chunks := c17chunks(!c.Quick())
	ch := chunks[i]
	st := &c17st
	if st.wb == nil {
		st.wb = avro.NewWriteBuf(make([]byte, 0, 64))
		// built over a long input and re-pointed with Reset for every candidate (what a caller decoding frames out
		// of one buffer does); whatever the ReadBuf remembers about its first input must not matter
		st.rb = avro.NewReadBuf(bytes.Repeat([]byte{0x01}, 4096))
	}
	r := c.Rand(i, 0)
	var n int64
	switch ch.dom {
	case "int16-all":
		for v := math.MinInt16; v <= math.MaxInt16; v++ {
			c17checkInt(c, avro.Int16Codec{}, int16(v), "Int16Codec")
			n++
		}
		c.Count("int16.values", n)
		c.Shape("int16-all")
	case "int32":
		if c.Quick() {
			if ch.idx == 0 {
				for _, b := range varintBoundaries() {
					if b >= math.MinInt32 && b <= math.MaxInt32 {
						c17checkInt(c, avro.Int32Codec{}, int32(b), "Int32Codec")
						n++
					}
				}
			}
			for k := 0; k < 1<<18; k++ {
				c17checkInt(c, avro.Int32Codec{}, int32(r.Uint32()), "Int32Codec")
				n++
			}
		} else {
			base := uint32(ch.idx) << 20
			for k := uint32(0); k < 1<<20; k++ {
				c17checkInt(c, avro.Int32Codec{}, int32(base|k), "Int32Codec")
			}
			n = 1 << 20
		}
		c.Count("int32.values", n)
		c.Shape(fmt.Sprintf("int32-%d", ch.idx))
	case "float32", "float32double":
		chk := c17checkF32
		if ch.dom == "float32double" {
			chk = c17checkF32D
		}
		if c.Quick() {
			if ch.idx == 0 {
				for e := uint32(0); e < 256; e++ {
					for _, m := range []uint32{0, 1, 2, 0x3fffff, 0x400000, 0x400001, 0x7ffffe, 0x7fffff} {
						chk(c, e<<23|m)
						chk(c, 1<<31|e<<23|m)
						n += 2
					}
				}
			}
			for k := 0; k < 1<<18; k++ {
				chk(c, r.Uint32())
				n++
			}
		} else {
			base := uint32(ch.idx) << 20
			for k := uint32(0); k < 1<<20; k++ {
				chk(c, base|k)
			}
			n = 1 << 20
		}
		c.Count(ch.dom+".values", n)
		c.Shape(fmt.Sprintf("%s-%d", ch.dom, ch.idx))
	case "int64":
		if ch.idx == 0 {
			for _, b := range varintBoundaries() {
				c17checkInt(c, avro.Int64Codec{}, b, "Int64Codec")
				n++
			}
		}
		for k := 0; k < 125000; k++ {
			v := int64(r.Uint64()) >> uint(r.IntN(64))
			c17checkInt(c, avro.Int64Codec{}, v, "Int64Codec")
			n++
		}
		c.Count("int64.values", n)
		c.Shape(fmt.Sprintf("int64-%d", ch.idx))
	case "double":
		if ch.idx == 0 {
			for e := uint64(0); e < 2048; e++ {
				for _, m := range []uint64{0, 1, 1 << 51, 1<<51 + 1, 1<<52 - 1} {
					c17checkF64(c, e<<52|m)
					c17checkF64(c, 1<<63|e<<52|m)
					n += 2
				}
			}
		}
		for k := 0; k < 125000; k++ {
			c17checkF64(c, r.Uint64())
			n++
		}
		c.Count("double.values", n)
		c.Shape(fmt.Sprintf("double-%d", ch.idx))
	case "varint-len012":
		c17checkVarint(c, nil)
		n++
		for a := 0; a < 256; a++ {
			c17checkVarint(c, []byte{byte(a)})
			n++
			for b := 0; b < 256; b++ {
				c17checkVarint(c, []byte{byte(a), byte(b)})
				n++
			}
		}
		c.Count("varint.len012", n)
		c.Shape("varint-len012")
	case "varint-pattern":
		l := ch.idx / 16
		payloads := []byte{0x00, 0x01, 0x02, 0x3f, 0x40, 0x7f}
		buf := make([]byte, l)
		// continuation patterns: terminator at position j (j = l means never terminates)
		for j := 0; j <= l; j++ {
			gen1 := func(fill func(k int) byte) {
				for k := 0; k < l; k++ {
					b := fill(k) & 0x7f
					if k != j {
						if k < j || j == l {
							b |= 0x80
						} else if r.IntN(2) == 0 {
							b |= 0x80 // bytes after the terminator are trailing data
						}
					}
					buf[k] = b
				}
				c17checkVarint(c, buf)
				n++
				// every truncation
				for t := 0; t < l; t++ {
					c17checkVarint(c, buf[:t])
					n++
				}
			}
			for _, p := range payloads {
				gen1(func(int) byte { return p })
				for _, last := range []byte{0, 1, 2, 3, 0x3f, 0x40, 0x7f} {
					gen1(func(k int) byte {
						if k == j || (j == l && k == l-1) {
							return last
						}
						return p
					})
				}
			}
			for k := 0; k < 500; k++ {
				gen1(func(int) byte { return byte(r.IntN(128)) })
				gen1(func(int) byte { return payloads[r.IntN(len(payloads))] })
			}
		}
		c.Count("varint.patterns", n)
		c.Shape(fmt.Sprintf("varint-pattern-%d", ch.idx))
	case "varint-long-runs":
		// N continuation bytes then a terminator, N = 10..800: always longer than ten bytes, always an error
		for N := 10 + ch.idx; N <= 800; N += 8 {
			for _, fill := range []byte{0x80, 0xff, 0x81, 0} {
				for _, term := range []byte{0x00, 0x01, 0x02, 0x7f} {
					buf := make([]byte, N+1)
					for k := 0; k < N; k++ {
						if fill == 0 {
							buf[k] = 0x80 | byte(r.IntN(128))
						} else {
							buf[k] = fill
						}
					}
					buf[N] = term
					c17checkVarint(c, buf)
					n++
				}
			}
		}
		c.Count("varint.long-runs", n)
		c.Shape(fmt.Sprintf("varint-long-runs-%d", ch.idx))
	case "varint-in-context":
		n = int64(c17inContext(c))
		c.Shape("varint-in-context")
	case "float-records":
		n = int64(c17floatRecords(c, r))
		n += int64(c17floatPositions(c, r))
		c.Count("float-record.checks", n)
		c.Shape("float-records")
	case "bool":
		for _, v := range []bool{false, true} {
			st.wb.Reset()
			avro.BoolCodec{}.Write(st.wb, unsafe.Pointer(&v))
			want := byte(0)
			if v {
				want = 1
			}
			if got := st.wb.Bytes(); len(got) != 1 || got[0] != want {
				c.Violate("bool-encoding", fmt.Sprintf("bool %v encoded as %x", v, got), nil)
			}
			var back bool
			st.rb.Reset(st.wb.Bytes())
			if err := (avro.BoolCodec{}).Read(st.rb, unsafe.Pointer(&back)); err != nil || back != v {
				c.Violate("bool-roundtrip", fmt.Sprintf("bool %v decoded as %v err=%v", v, back, err), nil)
			}
			n++
		}
		c.Shape("bool")
	case "width":
		for _, b := range varintBoundaries() {
			c17checkWidth[int16](c, avro.Int16Codec{}, b, math.MinInt16, math.MaxInt16, "Int16Codec")
			c17checkWidth[int32](c, avro.Int32Codec{}, b, math.MinInt32, math.MaxInt32, "Int32Codec")
			c17checkWidth[int64](c, avro.Int64Codec{}, b, math.MinInt64, math.MaxInt64, "Int64Codec")
			n += 3
		}
		// every value within 2^17 of zero into int16
		for v := int64(-(1 << 17)); v <= 1<<17; v++ {
			c17checkWidth[int16](c, avro.Int16Codec{}, v, math.MinInt16, math.MaxInt16, "Int16Codec")
			n++
		}
		for k := 0; k < 200000; k++ {
			v := int64(r.Uint64()) >> uint(r.IntN(40))
			c17checkWidth[int32](c, avro.Int32Codec{}, v, math.MinInt32, math.MaxInt32, "Int32Codec")
			c17checkWidth[int16](c, avro.Int16Codec{}, v, math.MinInt16, math.MaxInt16, "Int16Codec")
			n += 2
		}
		n += int64(c17widthPositions(c, r, "long"))
		n += int64(c17widthPositions(c, r, "int"))
		n += int64(c17builtWidths(c, r))
		c.Count("width.checks", n)
		c.Shape("width")
	}
	c.Eval(int(n))
	if i%97 == 0 {
		c.Sample(map[string]any{"chunk": ch.dom, "index": ch.idx, "evaluations": n})
	}
}

func init() {
	core.Register(&core.Prop{
		ID:        "C17",
		Level:     "exploration",
		Technique: "runtime monitoring: exhaustive/stratified enumeration of primitive values through the public codecs against a reference zig-zag/IEEE encoder and the specification's varint acceptance rule",
		Rule: "chunks of sub-domains: all 2^16 int16 values; int32/float32/float32-as-double: all 2^32 patterns in the thorough tier (4096 chunks of 2^20), boundaries of every exponent/varint length plus 2^21 random per domain in quick; int64/double: ±2 around every power of two, every exponent with boundary mantissas, 10^6 (10^7) random; candidate varints: every byte string of length <=2 and structured patterns of length 3..11 with every truncation; " +
			"distinct_nontrivial = number of distinct chunks completed (each chunk is a disjoint value range or pattern family)",
		Explanation: "Every value is written with the public codec, compared byte-for-byte with refavro's encoder (written from the spec), read back and compared bit-exactly; every candidate varint is decoded by ReadBuf.Varint and by the specification rule (error iff truncated, >10 bytes, or 10th byte >1) and acceptance, value and bytes consumed must agree; out-of-width values must be rejected without touching neighbours.",
		Assumptions: []string{"little-endian host", "float32 NaN carried as double compares as NaN (payload quieting is the hardware conversion)"},
		Modes: func(tier string) []core.Mode {
			return []core.Mode{{Name: "plain", Variant: "plain"}}
		},
		NumCases: func(c *core.Ctx) int { return len(c17chunks(!c.Quick())) },
		Run:      runC17,
		Floors: func(a *core.Agg) []string {
			var u []string
			if a.C("int16.values") != 65536 {
				u = append(u, fmt.Sprintf("int16.values=%d != 65536", a.C("int16.values")))
			}
			if a.C("varint.len012") != 65793 {
				u = append(u, fmt.Sprintf("varint.len012=%d != 65793", a.C("varint.len012")))
			}
			if a.Tier == "thorough" {
				for _, d := range []string{"int32", "float32", "float32double"} {
					if a.C(d+".values") != 1<<32 {
						u = append(u, fmt.Sprintf("%s.values=%d != 2^32", d, a.C(d+".values")))
					}
				}
			}
			if a.C("varint.accepted") < 10000 || a.C("varint.rejected") < 10000 {
				u = append(u, "too few accepted/rejected varint candidates")
			}
			return u
		},
		Exhaustive: func(a *core.Agg) bool { return a.Tier == "thorough" && a.C("int32.values") == 1<<32 },
	})
}
