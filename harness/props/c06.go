package props

import (
	"bufio"
	"bytes"
	"fmt"
	"math"
	"math/rand/v2"
	"os"
	"reflect"
	"runtime"
	"strings"
	"unsafe"

	"github.com/philpearl/avro"
	avrotime "github.com/philpearl/avro/time"

	"verifharness/core"
	"verifharness/gen"
	"verifharness/lib"
	"verifharness/monitor"
	"verifharness/refavro"
)

// C06 — malformed input yields errors, never panics, hangs or runaway allocation.

type c06env struct {
	m          monitor.Meter
	rb         *avro.ReadBuf
	padTick    int
	readerTick int
}

var c06e *c06env

const c06cpuBudget = int64(10e9)

func c06bound(n int, factor int) uint64 {
	if factor < 1 {
		factor = 1
	}
	return 1<<20 + 4096*uint64(n)*uint64(factor)
}

// call runs one entry-point invocation under the monitors.
func (e *c06env) call(c *core.Ctx, entry, class string, input []byte, bounded bool, factor int, fn func() error) (err error, ok bool) {
	c.JournalInput(entry, input)
	var pan any
	e.m.Start()
	func() {
		defer func() { pan = recover() }()
		err = fn()
	}()
	cpu, alloc := e.m.Stop()
	c.Eval(1)
	c.Count("calls."+entry, 1)
	c.Count("class."+class, 1)
	if err != nil {
		c.Count("errors."+entry, 1)
	}
	rep := map[string]any{"entry": entry, "class": class, "input_hex": fmt.Sprintf("%x", truncB(input, 8192)), "input_len": len(input)}
	if pan != nil {
		c.Violate("panic", fmt.Sprintf("%s panicked on %s input (%d bytes): %v\n input %x", entry, class, len(input), pan, truncB(input, 300)), rep)
		return err, false
	}
	c.Max("max.cpu_us."+entry, cpu/1000)
	if bounded {
		if cpu > c06cpuBudget {
			c.Violate("cpu", fmt.Sprintf("%s spent %.1fs CPU on a %d-byte %s input", entry, float64(cpu)/1e9, len(input), class), rep)
			return err, false
		}
		b := c06bound(len(input), factor)
		c.Max("max.alloc_permille_of_bound", int64(alloc*1000/b))
		if alloc > b {
			c.Violate("allocation", fmt.Sprintf("%s allocated %d bytes for a %d-byte %s input (bound %d = 1MiB + 4096 x len x %d)\n input %x", entry, alloc, len(input), class, b, factor, truncB(input, 200)), rep)
			return err, false
		}
	}
	return err, true
}

func truncB(b []byte, n int) []byte {
	if len(b) > n {
		return b[:n]
	}
	return b
}

// hostile varint encodings
var hostileVals = func() []int64 {
	v := []int64{-1, -2, 0, 1, math.MinInt64, math.MaxInt64, math.MaxInt32, 1 << 31, 1 << 40, 1 << 62, -(1 << 31), -(1 << 40), 64, -65, 1 << 20, -(1 << 20), 1 << 24, 1 << 33,
		1 << 60, 1 << 61, 1<<61 + 1, 1<<62 + 1, 1<<62 + 3, -(1 << 61), -(1 << 62), math.MaxInt64 - 1, math.MinInt64 + 1}
	// counts/lengths whose product with a small element width wraps around 2^64 or 2^63
	for _, w := range []uint64{2, 3, 4, 5, 8, 12, 16, 24, 32} {
		for _, base := range []uint64{1 << 63, 0} {
			q := (base - 1) / w // base==0: (2^64-1)/w
			if base != 0 {
				q = base / w
			}
			for _, d := range []uint64{0, 1, 2} {
				x := q + d
				if x <= math.MaxInt64 {
					v = append(v, int64(x), -int64(x))
				}
			}
		}
	}
	return v
}()

func hostileEncodings() [][]byte {
	var out [][]byte
	for _, v := range hostileVals {
		out = append(out, refavro.AppendLong(nil, v))
	}
	// overlong (non-shortest) forms and overflowing forms
	out = append(out, []byte{0x80, 0x00}, []byte{0x82, 0x80, 0x00}, []byte{0xff, 0xff, 0xff, 0xff, 0xff, 0xff, 0xff, 0xff, 0xff, 0x01},
		[]byte{0xff, 0xff, 0xff, 0xff, 0xff, 0xff, 0xff, 0xff, 0xff, 0x7f}, []byte{0x80, 0x80, 0x80, 0x80, 0x80, 0x80, 0x80, 0x80, 0x80, 0x80, 0x00},
		[]byte{0xff, 0xff, 0xff, 0xff, 0xff, 0xff, 0xff, 0xff, 0xff, 0xff, 0xff, 0xff}, []byte{0x80}, []byte{})
	return out
}

var c06hostile = hostileEncodings()

func mutateSite(enc []byte, s refavro.Site, repl []byte) []byte {
	out := make([]byte, 0, len(enc)+len(repl))
	out = append(out, enc[:s.Off]...)
	out = append(out, repl...)
	return append(out, enc[s.Off+s.Len:]...)
}

func recordSites(s *refavro.Schema, enc []byte) []refavro.Site {
	d := &refavro.Decoder{B: enc, Rec: true}
	d.Decode(s)
	return d.Sites
}

func maxElemSize(t *gen.T) int {
	m := 1
	t.Walk(func(x *gen.T) {
		if x.K == gen.KSlice || x.K == gen.KMap {
			if sz := int(x.Elem.RT().Size()); sz > m {
				m = sz
			}
		}
	})
	return m
}

type c06pair struct {
	ds      *gen.DataSchema
	t       *gen.T
	codec   avro.Codec
	skipAll avro.Codec
	factor  int
}

func c06genPair(c *core.Ctx, r *rand.Rand) *c06pair {
	for tries := 0; tries < 10; tries++ {
		ds := gen.GenDataSchema(r, gen.DataOpts{MaxDepth: 1 + r.IntN(3), NoZeroWidth: true})
		t := ds.Target(r, ds.S, gen.TargetOpts{})
		codec, err := buildLibCodec(ds.S, t.RT())
		if err != nil {
			continue
		}
		skipAll, err := buildLibCodec(ds.S, gen.StructOf().RT())
		if err != nil {
			continue
		}
		f := maxElemSize(t)/64 + 1
		return &c06pair{ds, t, codec, skipAll, f}
	}
	return nil
}

var c06pads = [][]byte{bytes.Repeat([]byte{0x00}, 32), bytes.Repeat([]byte{0x81}, 32), bytes.Repeat([]byte{0xff}, 40)}

// readAndSkip presents the input as it is and, every third time, followed by 32-40 bytes of further data
// (a decoder that looks ahead must behave no worse when there is something to look at).
func (e *c06env) readAndSkip(c *core.Ctx, p *c06pair, class string, input []byte) bool {
	if !e.readAndSkip1(c, p, class, input) {
		return false
	}
	e.padTick++
	if e.padTick%3 != 0 || len(input) > 1<<16 {
		return true
	}
	c.Count("inputs-with-trailing-data", 1)
	padded := append(append(make([]byte, 0, len(input)+40), input...), c06pads[(e.padTick/3)%len(c06pads)]...)
	return e.readAndSkip1(c, p, class+"+trailing-data", padded)
}

func (e *c06env) readAndSkip1(c *core.Ctx, p *c06pair, class string, input []byte) bool {
	rt := p.t.RT()
	_, ok := e.call(c, "Codec.Read", class, input, true, p.factor, func() error {
		v := reflect.New(rt)
		e.rb.Reset(input)
		err := p.codec.Read(e.rb, unsafe.Pointer(v.Pointer()))
		e.rb.ExtractResourceBank().Close()
		return err
	})
	if !ok {
		return false
	}
	_, ok = e.call(c, "Codec.Skip", class, input, true, 1, func() error {
		e.rb.Reset(input)
		return p.codec.Skip(e.rb)
	})
	if !ok {
		return false
	}
	_, ok = e.call(c, "Codec.Read(skip-all)", class, input, true, 1, func() error {
		var empty struct{}
		e.rb.Reset(input)
		return p.skipAll.Read(e.rb, unsafe.Pointer(&empty))
	})
	return ok
}

// zeroWidthHazard: the (possibly mutated) header carries a schema in which a
// record or an array item occupies zero bytes; a count then legally stands for
// any number of items and the allocation/termination clauses do not apply.
func zeroWidthHazard(input []byte) bool {
	h, err := refavro.ParseHeader(input)
	if err != nil || h.Schema == nil {
		return false
	}
	return schemaZeroWidthHazard(h.Schema)
}

func schemaZeroWidthHazard(root *refavro.Schema) bool {
	hazard := refavro.ZeroWidth(root)
	var walk func(s *refavro.Schema)
	walk = func(s *refavro.Schema) {
		if s == nil {
			return
		}
		if s.Type == "array" && s.Items != nil && refavro.ZeroWidth(s.Items) {
			hazard = true
		}
		for _, f := range s.Fields {
			walk(f.Type)
		}
		walk(s.Items)
		walk(s.Values)
		for _, b := range s.Branches {
			walk(b)
		}
	}
	walk(root)
	return hazard
}

func (e *c06env) readFile(c *core.Ctx, p *c06pair, class string, input []byte) bool {
	if zeroWidthHazard(input) {
		c.Count("skipped.zero-width-schema", 1)
		return true
	}
	e.readerTick++
	return e.readFileVia(c, p, class, input, e.readerTick%4)
}

// readFileVia reads the input through one of the standard library's concrete reader types (implementations
// like to special-case them).
func (e *c06env) readFileVia(c *core.Ctx, p *c06pair, class string, input []byte, kind int) bool {
	rt := p.t.RT()
	_, ok := e.call(c, "ReadFile", class, input, true, p.factor, func() error {
		var rd avro.Reader
		switch kind {
		case 0:
			rd = bytes.NewReader(input)
		case 1:
			rd = bytes.NewBuffer(append([]byte(nil), input...))
		case 2:
			rd = strings.NewReader(string(input))
		default:
			rd = bufio.NewReader(bytes.NewReader(input))
		}
		return avro.ReadFile(rd, reflect.New(rt).Interface(), func(val unsafe.Pointer, rb *avro.ResourceBank) error {
			rb.Close()
			return nil
		})
	})
	return ok
}

// c06bigFile: one block of a few MiB (a record holding one bytes value), cut and with its declared length
// inflated, through every reader type.
func (e *c06env) c06bigFile(c *core.Ctx, r *rand.Rand) bool {
	sch, _ := refavro.ParseSchema([]byte(`{"type":"record","name":"big","fields":[{"name":"b","type":"bytes"}]}`))
	t := gen.StructOf(gen.Fld("B", "b", false, gen.Leaf(gen.KBytes)))
	codec, err := buildLibCodec(sch, t.RT())
	if err != nil {
		c.Violate("build", err.Error(), nil)
		return false
	}
	p := &c06pair{ds: &gen.DataSchema{S: sch}, t: t, codec: codec, skipAll: codec, factor: 1}
	n := 1<<20 + 1<<19 + r.IntN(2<<20)
	data := make([]byte, n)
	for k := range data {
		data[k] = byte(r.IntN(256))
	}
	payload := append(refavro.AppendLong(nil, int64(n)), data...)
	file := rebuildFile(sch.JSON(), "null", []int64{1}, [][]byte{payload})
	for kind := 0; kind < 4; kind++ {
		if !e.readFileVia(c, p, "big-block-valid", file, kind) {
			return false
		}
		for _, cut := range []int{len(file) - 1, len(file) - 16, len(file) - 17, 1<<20 + 100 + r.IntN(1<<19), len(file) / 2, 1 << 20, 1<<20 + 1} {
			if cut > 0 && cut < len(file) {
				c.Count("big-block.cuts", 1)
				if !e.readFileVia(c, p, "big-block-truncation", file[:cut], kind) {
					return false
				}
			}
		}
	}
	// the block's declared length inflated beyond what the input holds
	_, blocks, _ := containerSites(file)
	for _, b := range blocks {
		_, n1, _, err1 := refavro.ReadLong(file[b.Start:])
		_, n2, _, err2 := refavro.ReadLong(file[b.Start+n1:])
		if err1 != nil || err2 != nil {
			continue
		}
		st := refavro.Site{Off: b.Start + n1, Len: n2, Kind: "blocksize"}
		for _, extra := range []int64{1, 1 << 20, 1<<20 + 5, 3 << 20, 1 << 24, 1 << 30} {
			mut := mutateSite(file, st, refavro.AppendLong(nil, int64(len(payload))+extra))
			for kind := 0; kind < 4; kind++ {
				c.Count("big-block.inflated-lengths", 1)
				if !e.readFileVia(c, p, "big-block-inflated-length", mut, kind) {
					return false
				}
			}
		}
	}
	return true
}

// containerSites locates the metadata and block varints of a container file.
func containerSites(file []byte) (sites []refavro.Site, blocks []refavro.Block, codec string) {
	cont, err := refavro.ReadContainer(file)
	if err != nil {
		return nil, nil, ""
	}
	d := &refavro.Decoder{B: file, I: 4, Rec: true}
	// metadata map<bytes>
	for {
		n, err := d.DecodeCount()
		if err != nil || n == 0 {
			break
		}
		for ; n > 0; n-- {
			d.Decode(&refavro.Schema{Type: "bytes"})
			d.Decode(&refavro.Schema{Type: "bytes"})
		}
	}
	sites = append(sites, d.Sites...)
	for _, b := range cont.Blocks {
		d2 := &refavro.Decoder{B: file, I: b.Start, Rec: true}
		d2.Decode(&refavro.Schema{Type: "long"})
		d2.Decode(&refavro.Schema{Type: "long"})
		sites = append(sites, d2.Sites...)
	}
	return sites, cont.Blocks, cont.Codec
}

func c06file(r *rand.Rand, p *c06pair, nrec int, codec string) ([]byte, [][]any) {
	var recs []any
	for k := 0; k < nrec; k++ {
		recs = append(recs, p.ds.GenDatum(r, p.ds.S, gen.DatumOpts{}, nil))
	}
	var blocks [][]any
	rest := recs
	for len(rest) > 0 {
		k := 1 + r.IntN(len(rest))
		blocks = append(blocks, rest[:k])
		rest = rest[k:]
	}
	var sync [16]byte
	for k := range sync {
		sync[k] = byte(r.IntN(256))
	}
	f, err := refavro.WriteContainer([]byte(p.ds.S.JSON()), p.ds.S, blocks, &gen.RandChooser{R: r, Style: r.IntN(4)}, refavro.WriteOpts{Codec: codec, Sync: sync})
	if err != nil {
		panic(err)
	}
	return f, blocks
}

// rebuildFile writes a container whose block payloads are given raw (already encoded, possibly hostile).
func rebuildFile(schemaJSON string, codec string, counts []int64, payloads [][]byte) []byte {
	b := append([]byte{}, refavro.Magic...)
	n := int64(1)
	if codec != "" {
		n = 2
	}
	b = refavro.AppendLong(b, n)
	b = refavro.AppendLong(b, int64(len("avro.schema")))
	b = append(b, "avro.schema"...)
	b = refavro.AppendLong(b, int64(len(schemaJSON)))
	b = append(b, schemaJSON...)
	if codec != "" {
		b = refavro.AppendLong(b, int64(len("avro.codec")))
		b = append(b, "avro.codec"...)
		b = refavro.AppendLong(b, int64(len(codec)))
		b = append(b, codec...)
	}
	b = refavro.AppendLong(b, 0)
	sync := []byte("0123456789abcdef")
	b = append(b, sync...)
	for i, p := range payloads {
		comp, _ := refavro.Compress(codec, p)
		b = refavro.AppendLong(b, counts[i])
		b = refavro.AppendLong(b, int64(len(comp)))
		b = append(b, comp...)
		b = append(b, sync...)
	}
	return b
}

var c06schemaShapes = []string{
	`{"type":"record","name":"r","fields":[{"name":"a","type":"array"}]}`,
	`{"type":"record","name":"r","fields":[{"name":"a","type":"map"}]}`,
	`{"type":"record","name":"r","fields":[{"name":"a","type":"fixed"}]}`,
	`{"type":"record","name":"r","fields":[{"name":"a","type":"record"}]}`,
	`{"type":"record","name":"r","fields":[{"name":"a","type":"enum"}]}`,
	`{"type":"record","name":"r","fields":[{"name":"a","type":"union"}]}`,
	`{"type":"record","name":"r","fields":[{"name":"a","type":{"type":"array"}}]}`,
	`{"type":"record","name":"r","fields":[{"name":"a","type":{"type":"map"}}]}`,
	`{"type":"record","name":"r","fields":[{"name":"a","type":{"type":"fixed","name":"f"}}]}`,
	`{"type":"record","name":"r","fields":[{"name":"a","type":{"type":"fixed","name":"f","size":-4}}]}`,
	`{"type":"record","name":"r","fields":[{"name":"a","type":{"type":"fixed","name":"f","size":1000000000000}}]}`,
	`{"type":"record","name":"r","fields":[{"name":"a","type":{"type":"record","name":"q"}}]}`,
	`{"type":"record","name":"r","fields":[{"name":"a","type":[]}]}`,
	`{"type":"record","name":"r","fields":[{"name":"a","type":{"type":"nonsense"}}]}`,
	`{"type":"record","name":"r","fields":[{"name":"a","type":"nonsense"}]}`,
	`{"type":"record","name":"r","fields":[{"name":"a"}]}`,
	`{"type":"record","name":"r","fields":[{"type":"long"}]}`,
	`{"type":"record","name":"r"}`,
	`{"type":"record"}`,
	`"record"`, `"array"`, `"map"`, `"fixed"`, `"union"`, `"enum"`, `"long"`, `[]`, `["null"]`, `{}`, `{"name":"x"}`,
	`{"type":"array","items":{"type":"map","values":{"type":"fixed"}}}`,
	`{"type":"record","name":"r","fields":[{"name":"a","type":["null","array"]}]}`,
	`{"type":"record","name":"r","fields":[{"name":"a","type":["null",{"type":"map"}]}]}`,
	`{"type":"record","name":"r","fields":[{"name":"a","type":{"type":"array","items":"fixed"}}]}`,
}

type c06anyTarget struct {
	A  []int64           `json:"a"`
	B  map[string]string `json:"b"`
	C  [4]byte           `json:"c"`
	F0 int64             `json:"f0"`
	F1 string            `json:"f1"`
}

type c06arrTarget struct {
	A [4]byte `json:"a"`
}
type c06mapTarget struct {
	A map[string]int64 `json:"a"`
}
type c06sliceTarget struct {
	A []int64 `json:"a"`
}
type c06structTarget struct {
	A struct{ X int64 } `json:"a"`
}
type c06aTimeTarget struct {
	A avrotimeTime `json:"a"`
}
type c06ptrTimeTarget struct {
	A *avrotimeTime           `json:"a"`
	M map[string]avrotimeTime `json:"m"`
}
type c06ptrTarget struct {
	A *[]int64 `json:"a"`
}

// c06deepBuildWitness: the pinned witness of the open finding c06.deep-nesting-build-errors.
func c06deepBuildWitness() (text string, alloc, bound uint64, err error) {
	text = strings.Repeat("[", 600) + `"long"` + strings.Repeat("]", 600)
	s, perr := avro.SchemaFromString(text)
	if perr != nil {
		return text, 0, 0, nil
	}
	var a, b runtime.MemStats
	runtime.ReadMemStats(&a)
	_, err = s.Codec(c06anyTarget{})
	runtime.ReadMemStats(&b)
	return text, b.TotalAlloc - a.TotalAlloc, uint64(c06bound(len(text), 1)), err
}

func findingDeepBuild(c *core.Ctx) string {
	text, alloc, bound, err := c06deepBuildWitness()
	if err != nil && alloc > bound {
		return fmt.Sprintf("Schema.Codec allocated %d bytes refusing a %d-byte schema nested 600 deep (bound %d)", alloc, len(text), bound)
	}
	return ""
}

func (e *c06env) schemaAndCodec(c *core.Ctx, class, text string) bool {
	var s avro.Schema
	err, ok := e.call(c, "SchemaFromString", class, []byte(text), true, 1, func() error {
		var err error
		s, err = avro.SchemaFromString(text)
		return err
	})
	if !ok {
		return false
	}
	if err != nil {
		return true
	}
	targets := []any{c06anyTarget{}, &c06arrTarget{}, c06mapTarget{}, c06sliceTarget{}, c06structTarget{}, c06ptrTarget{}, struct{}{}, c06aTimeTarget{}, c06ptrTimeTarget{}}
	for _, tg := range targets {
		var codec avro.Codec
		// open finding c06.deep-nesting-build-errors: the allocation of a codec build is not judged for documents
		// nested deeper than 200 levels (panics, process death and the watchdog still apply)
		judged := !(c.Quarantined("c06.deep-nesting-build-errors") && class == "schema-deep-nesting" && len(text) > 400)
		err, ok := e.call(c, "Schema.Codec", class, []byte(text), judged, 1, func() error {
			var err error
			codec, err = s.Codec(tg)
			return err
		})
		if !ok {
			return false
		}
		if err == nil && codec != nil {
			// run the built codec over a few short inputs
			for _, in := range [][]byte{{}, {0}, {2, 2, 2, 2}, {0xff, 0xff, 0xff, 0xff, 0x0f, 1, 2, 3}, {1, 1, 1, 1, 1, 1, 1, 1, 1, 1, 1, 1, 1, 1, 1, 1, 0}} {
				rt := reflect.TypeOf(tg)
				if rt.Kind() == reflect.Pointer {
					rt = rt.Elem()
				}
				if _, ok := e.call(c, "Codec.Read", class+"/built-from-odd-schema", in, false, 1, func() error {
					v := reflect.New(rt)
					e.rb.Reset(in)
					return codec.Read(e.rb, unsafe.Pointer(v.Pointer()))
				}); !ok {
					return false
				}
				if _, ok := e.call(c, "Codec.Skip", class+"/built-from-odd-schema", in, false, 1, func() error {
					e.rb.Reset(in)
					return codec.Skip(e.rb)
				}); !ok {
					return false
				}
			}
		}
	}
	return true
}

type c06timeTarget struct {
	T  avrotimeTime   `json:"t"`
	PT *avrotimeTime  `json:"pt"`
	ST []avrotimeTime `json:"st"`
}

func runC06(c *core.Ctx, i int) {
	if c06e == nil {
		_ = lib.SchemaFor
		runtime.LockOSThread()
		c06e = &c06env{rb: avro.NewReadBuf(nil)}
		// the first timestamps this (fresh) process parses spell a zero offset numerically
		for _, ts := range []string{"2000-01-01T00:00:00+00:00", "2000-01-01T00:00:00-00:00", "1999-12-31T23:59:59.5+00:00"} {
			in := append(refavro.AppendLong(nil, int64(len(ts))), ts...)
			if _, ok := c06e.call(c, "time.StringCodec.Read", "first-timestamp-of-the-process", in, true, 1, func() error {
				var t avrotimeTime
				c06e.rb.Reset(in)
				return avrotime.StringCodec{}.Read(c06e.rb, unsafe.Pointer(&t))
			}); !ok {
				return
			}
		}
	}
	e := c06e
	r := c.Rand(i, 0)
	fam := i % 9
	nmut := c.Pick(30, 60)
	switch fam {
	case 0: // structured mutation of record encodings
		p := c06genPair(c, r)
		if p == nil {
			return
		}
		for k := 0; k < 3; k++ {
			d := p.ds.GenDatum(r, p.ds.S, gen.DatumOpts{}, nil)
			enc, _ := refavro.Encode(nil, p.ds.S, d, &gen.RandChooser{R: r, Style: r.IntN(4)})
			sites := recordSites(p.ds.S, enc)
			if !e.readAndSkip(c, p, "valid-record", enc) {
				return
			}
			if len(sites) == 0 {
				continue
			}
			for m := 0; m < nmut; m++ {
				s := sites[r.IntN(len(sites))]
				h := c06hostile[r.IntN(len(c06hostile))]
				c.Count("mutation."+s.Kind, 1)
				if !e.readAndSkip(c, p, "record-field-mutation", mutateSite(enc, s, h)) {
					return
				}
			}
		}
		c.Shape("rec|" + p.ds.S.Shape())
	case 1: // truncation of records at every offset
		p := c06genPair(c, r)
		if p == nil {
			return
		}
		d := p.ds.GenDatum(r, p.ds.S, gen.DatumOpts{}, nil)
		enc, _ := refavro.Encode(nil, p.ds.S, d, &gen.RandChooser{R: r, Style: r.IntN(4)})
		for cut := 0; cut < len(enc) && cut < 150; cut++ {
			if !e.readAndSkip(c, p, "record-truncation", enc[:cut]) {
				return
			}
		}
		c.Shape("trunc|" + p.ds.S.Shape())
	case 2: // structured mutation of container files
		p := c06genPair(c, r)
		if p == nil {
			return
		}
		codec := fileCodecs[r.IntN(4)]
		file, blocks := c06file(r, p, 1+r.IntN(6), codec)
		if !e.readFile(c, p, "valid-file", file) {
			return
		}
		sites, _, _ := containerSites(file)
		for m := 0; m < nmut && len(sites) > 0; m++ {
			s := sites[r.IntN(len(sites))]
			h := c06hostile[r.IntN(len(c06hostile))]
			c.Count("mutation.container-"+s.Kind, 1)
			if !e.readFile(c, p, "container-field-mutation", mutateSite(file, s, h)) {
				return
			}
		}
		// hostile record fields inside (re)compressed payloads
		for m := 0; m < nmut/2; m++ {
			var payloads [][]byte
			var counts []int64
			for _, blk := range blocks {
				var pl []byte
				for _, rec := range blk {
					enc, _ := refavro.Encode(nil, p.ds.S, rec, nil)
					if sites := recordSites(p.ds.S, enc); len(sites) > 0 && r.IntN(2) == 0 {
						enc = mutateSite(enc, sites[r.IntN(len(sites))], c06hostile[r.IntN(len(c06hostile))])
					}
					pl = append(pl, enc...)
				}
				payloads = append(payloads, pl)
				cnt := int64(len(blk))
				if r.IntN(6) == 0 {
					cnt = hostileVals[r.IntN(len(hostileVals))]
				}
				counts = append(counts, cnt)
			}
			if !e.readFile(c, p, "payload-field-mutation/"+codec, rebuildFile(p.ds.S.JSON(), codec, counts, payloads)) {
				return
			}
		}
		c.Shape("file|" + codec + "|" + p.ds.S.Shape())
	case 3: // truncation of files at every offset + header variants
		p := c06genPair(c, r)
		if p == nil {
			return
		}
		codec := fileCodecs[r.IntN(4)]
		file, _ := c06file(r, p, 1+r.IntN(3), codec)
		step := 1
		if len(file) > 400 {
			step = len(file)/400 + 1
		}
		for cut := 0; cut < len(file); cut += step {
			if !e.readFile(c, p, "file-truncation", file[:cut]) {
				return
			}
		}
		sj := p.ds.S.JSON()
		pl, _ := refavro.Encode(nil, p.ds.S, p.ds.GenDatum(r, p.ds.S, gen.DatumOpts{}, nil), nil)
		variants := [][]byte{
			rebuildFile(sj, "", []int64{1}, [][]byte{pl}),
			rebuildFile(sj, "zstd", []int64{1}, [][]byte{pl}),
			rebuildFile("not json", "null", []int64{1}, [][]byte{pl}),
			rebuildFile(`{"type":"array"}`, "null", []int64{1}, [][]byte{pl}),
			rebuildFile(`"long"`, "null", []int64{1}, [][]byte{pl}),
			rebuildFile(sj, "snappy", []int64{1}, [][]byte{pl}),
		}
		// snappy blocks shorter than their checksum
		for _, short := range [][]byte{{}, {0}, {0, 0}, {0, 0, 0}, {0, 0, 0, 0}} {
			f := rebuildFile(sj, "null", []int64{1}, [][]byte{short})
			f = bytes.Replace(f, []byte("\x08null"), []byte("\x0csnappy"), 1)
			variants = append(variants, f)
		}
		// snappy header that claims a huge decoded length
		for _, claim := range []uint64{1 << 20, 1 << 26, 1 << 31, 1<<32 - 1} {
			var hdr []byte
			for v := claim; ; v >>= 7 {
				if v < 0x80 {
					hdr = append(hdr, byte(v))
					break
				}
				hdr = append(hdr, byte(v)|0x80)
			}
			body := append(hdr, 0x00, 'x', 0, 0, 0, 0)
			f := rebuildFile(sj, "null", []int64{1}, [][]byte{body})
			f = bytes.Replace(f, []byte("\x08null"), []byte("\x0csnappy"), 1)
			variants = append(variants, f)
		}
		// no schema at all
		noSchema := append([]byte{}, refavro.Magic...)
		noSchema = append(noSchema, 0)
		noSchema = append(noSchema, "0123456789abcdef"...)
		variants = append(variants, noSchema, []byte("Obj\x02"), []byte("Obj"), nil)
		for _, v := range variants {
			if !e.readFile(c, p, "header-variant", v) {
				return
			}
		}
		if i%45 == 3 {
			if !e.c06bigFile(c, r) {
				return
			}
		}
		c.Shape("ftrunc|" + codec + "|" + p.ds.S.Shape())
	case 4: // random noise, bit flips, splices
		p := c06genPair(c, r)
		if p == nil {
			return
		}
		file, _ := c06file(r, p, 1+r.IntN(4), fileCodecs[r.IntN(4)])
		d := p.ds.GenDatum(r, p.ds.S, gen.DatumOpts{}, nil)
		enc, _ := refavro.Encode(nil, p.ds.S, d, nil)
		noise := func(b []byte) []byte {
			o := append([]byte{}, b...)
			switch r.IntN(4) {
			case 0:
				if len(o) > 0 {
					o[r.IntN(len(o))] ^= 1 << r.IntN(8)
				}
			case 1:
				for k := 0; k < 1+r.IntN(4) && len(o) > 0; k++ {
					o[r.IntN(len(o))] = byte(r.IntN(256))
				}
			case 2:
				if len(o) > 2 {
					a, b2 := r.IntN(len(o)), r.IntN(len(o))
					if a > b2 {
						a, b2 = b2, a
					}
					o = append(o[:a:a], o[b2:]...)
				}
			case 3:
				n := r.IntN(64)
				o = make([]byte, n)
				for k := range o {
					o[k] = byte(r.IntN(256))
				}
			}
			return o
		}
		for m := 0; m < nmut; m++ {
			if !e.readFile(c, p, "file-noise", noise(file)) {
				return
			}
			if !e.readAndSkip(c, p, "record-noise", noise(enc)) {
				return
			}
		}
		c.Shape("noise|" + p.ds.S.Shape())
	case 5: // schema text and decoder construction
		if i%450 == 5 {
			// documents that do nothing but open arrays, unions or objects, cut short or closed again: the work and the
			// memory of refusing (or accepting) them is proportional to their length
			for _, n := range []int{100, 250, 600, 1000} {
				for _, unit := range []string{"[", `{"type":"array","items":`, `{"type":"map","values":`, `["null",`, `{"type":"record","name":"r","fields":[{"name":"f","type":`} {
					closer := map[byte]string{'[': "]", '{': "}"}[unit[0]]
					if strings.HasSuffix(unit, `"type":`) && unit[2] == 't' && strings.Contains(unit, "fields") {
						closer = "}]}"
					}
					for _, text := range []string{strings.Repeat(unit, n), strings.Repeat(unit, n) + `"long"` + strings.Repeat(closer, n), strings.Repeat(unit, n) + `"long"` + strings.Repeat(closer, n/2)} {
						c.Count("schema-deep-nesting", 1)
						if !e.schemaAndCodec(c, "schema-deep-nesting", text) {
							return
						}
					}
				}
			}
		}
		for _, s := range c06schemaShapes {
			if !e.schemaAndCodec(c, "schema-wrong-shape", s) {
				return
			}
		}
		for m := 0; m < nmut; m++ {
			ir := gen.GenSchemaDoc(r, 1+r.IntN(4))
			text := gen.RenderSchemaDoc(r, ir)
			switch r.IntN(4) {
			case 0:
				if len(text) > 1 {
					text = text[:r.IntN(len(text))]
				}
			case 1:
				b := []byte(text)
				b[r.IntN(len(b))] = "{}[],:\"0a\\ "[r.IntN(11)]
				text = string(b)
			case 2:
				b := make([]byte, r.IntN(40))
				for k := range b {
					b[k] = byte(r.IntN(256))
				}
				text = string(b)
			}
			if !e.schemaAndCodec(c, "schema-text-mutation", text) {
				return
			}
		}
		// numeric attributes with hostile values (a fixed's size comes from the schema, not from the wire), in
		// positions that are decoded as well as positions that are only skipped
		for _, size := range []string{"-1", "-2", "-8", "-16", "-2147483648", "-1099511627776", "1099511627776", "4611686018427387904", "9223372036854775807", "-9223372036854775808", "1e3", "2.5", "\"8\""} {
			fx := `{"type":"fixed","name":"fx","size":` + size + `}`
			for _, wrap := range []string{fx, `{"type":"array","items":` + fx + `}`, `{"type":"map","values":` + fx + `}`, `["null",` + fx + `]`, `[` + fx + `,"long","string"]`} {
				text := `{"type":"record","name":"r","fields":[{"name":"head","type":"long"},{"name":"a","type":` + wrap + `},{"name":"tail","type":"long"}]}`
				c.Count("schema-hostile-size", 1)
				if !e.schemaAndCodec(c, "schema-hostile-size", text) {
					return
				}
			}
		}
		// logical types of every spelling on every base type, with time.Time destinations among the targets
		for _, base := range []string{"long", "int", "string", "bytes", "double", "boolean"} {
			for _, lt := range []string{"timestamp-micros", "timestamp-millis", "timestamp-nanos", "local-timestamp-micros", "local-timestamp-millis", "date", "time-micros", "time-millis", "decimal", "uuid", "duration", "Timestamp-Micros", "timestamp_micros", "", " ", "x"} {
				ty := `{"type":"` + base + `","logicalType":"` + lt + `"}`
				for _, text := range []string{
					`{"type":"record","name":"r","fields":[{"name":"a","type":` + ty + `}]}`,
					`{"type":"record","name":"r","fields":[{"name":"a","type":["null",` + ty + `]},{"name":"m","type":{"type":"map","values":` + ty + `}}]}`,
				} {
					c.Count("schema-logical-types", 1)
					if !e.schemaAndCodec(c, "schema-logical-type", text) {
						return
					}
				}
			}
		}
		// deep nesting
		for _, depth := range []int{10, 100, 1000, 5000} {
			text := strings.Repeat(`{"type":"array","items":`, depth) + `"long"` + strings.Repeat("}", depth)
			if !e.schemaAndCodec(c, "schema-deep-nesting", text) {
				return
			}
		}
		c.Shape(fmt.Sprintf("schema|%d", i))
	case 6: // spec-legal but adversarial shapes: many one-item blocks, big legit values
		sch, _ := refavro.ParseSchema([]byte(`{"type":"record","name":"r","fields":[{"name":"a","type":{"type":"array","items":"long"}},{"name":"m","type":{"type":"map","values":"long"}}]}`))
		t := gen.StructOf(gen.Fld("A", "a", false, gen.SliceOf(gen.Leaf(gen.KInt64))), gen.Fld("M", "m", false, gen.MapOf(gen.Leaf(gen.KInt64))))
		codec, err := buildLibCodec(sch, t.RT())
		skipAll, err2 := buildLibCodec(sch, gen.StructOf().RT())
		if err != nil || err2 != nil {
			c.Violate("build", fmt.Sprintf("codec refused: %v %v", err, err2), nil)
			return
		}
		p := &c06pair{ds: &gen.DataSchema{S: sch}, t: t, codec: codec, skipAll: skipAll, factor: 1}
		for _, n := range []int{10, 100, 1000, 2000, 4000, 7000} {
			var b []byte
			for k := 0; k < n; k++ {
				b = refavro.AppendLong(b, 1)
				b = refavro.AppendLong(b, int64(k%50))
			}
			b = refavro.AppendLong(b, 0)
			b = refavro.AppendLong(b, 0) // empty map
			c.Count("many-block-arrays", 1)
			if !e.readAndSkip(c, p, "legal-many-one-item-blocks", b) {
				return
			}
			// same with size-prefixed one-item blocks
			b = b[:0]
			for k := 0; k < n/2; k++ {
				b = refavro.AppendLong(b, -1)
				b = refavro.AppendLong(b, 1)
				b = refavro.AppendLong(b, int64(k%50))
			}
			b = refavro.AppendLong(b, 0)
			b = refavro.AppendLong(b, 0)
			if !e.readAndSkip(c, p, "legal-many-one-item-blocks", b) {
				return
			}
			// map with many one-entry blocks
			b = refavro.AppendLong(b[:0], 0)
			for k := 0; k < n/4; k++ {
				b = refavro.AppendLong(b, 1)
				key := fmt.Sprintf("k%d", k)
				b = refavro.AppendLong(b, int64(len(key)))
				b = append(b, key...)
				b = refavro.AppendLong(b, int64(k))
			}
			b = refavro.AppendLong(b, 0)
			if !e.readAndSkip(c, p, "legal-many-one-item-blocks", b) {
				return
			}
		}
		c.Shape(fmt.Sprintf("legal|%d", i%5))
	case 7: // time / null wrappers and registered codecs with hostile lengths
		rb := e.rb
		if i%900 == 7 {
			// every two-digit zone hour with every two-digit zone minute, either sign, and every value of the
			// other two-digit fields: digits that are out of range are still digits to a table-driven parser
			for a := 0; a < 100; a++ {
				for b := 0; b < 100; b++ {
					for _, ts := range []string{fmt.Sprintf("2021-03-04T05:06:07+%02d:%02d", a, b), fmt.Sprintf("2021-03-04T05:06:07.5-%02d:%02d", a, b),
						fmt.Sprintf("2021-%02d-%02dT05:06:07Z", a, b), fmt.Sprintf("2021-03-04T%02d:%02d:07Z", a, b), fmt.Sprintf("2021-03-04T05:%02d:%02dZ", a, b)} {
						in := append(refavro.AppendLong(nil, int64(len(ts))), ts...)
						c.Count("timestamp-field-sweep", 1)
						if _, ok := e.call(c, "time.StringCodec.Read", "timestamp-field-sweep", in, true, 1, func() error {
							var t avrotimeTime
							rb.Reset(in)
							return avrotime.StringCodec{}.Read(rb, unsafe.Pointer(&t))
						}); !ok {
							return
						}
					}
				}
			}
		}
		for m := 0; m < nmut; m++ {
			ts := genRFC3339(r)
			if m%4 == 0 {
				// a well-formed length prefix: the text itself reaches the parser
				in := append(refavro.AppendLong(nil, int64(len(ts))), ts...)
				if _, ok := e.call(c, "time.StringCodec.Read", "timestamp-text", in, true, 1, func() error {
					var t avrotimeTime
					rb.Reset(in)
					return avrotime.StringCodec{}.Read(rb, unsafe.Pointer(&t))
				}); !ok {
					return
				}
			}
			if m == 1 {
				// a complete timestamp followed by a run of one filler byte (continuation bytes, invalid UTF-8, NULs,
				// digits, ...) of every awkward length: error paths format their input too
				for _, n := range []int{1, 2, 3, 8, 31, 32, 33, 47, 48, 49, 50, 63, 64, 65, 100, 255, 256, 1000} {
					for _, fill := range []byte{0x80, 0xbf, 0xff, 0x00, ' ', 'x', '0', 'Z', 0xc3, 0xe2, '+', ':'} {
						txt := append([]byte(ts), bytes.Repeat([]byte{fill}, n)...)
						in := append(refavro.AppendLong(nil, int64(len(txt))), txt...)
						c.Count("timestamp-with-tail", 1)
						if _, ok := e.call(c, "time.StringCodec.Read", "timestamp-with-tail", in, true, 1, func() error {
							var t avrotimeTime
							rb.Reset(in)
							return avrotime.StringCodec{}.Read(rb, unsafe.Pointer(&t))
						}); !ok {
							return
						}
					}
				}
			}
			h := c06hostile[r.IntN(len(c06hostile))]
			in := append(append([]byte{}, h...), ts...)
			if r.IntN(3) == 0 {
				in = in[:r.IntN(len(in)+1)]
			}
			if _, ok := e.call(c, "time.StringCodec.Read", "time-length-mutation", in, true, 1, func() error {
				var t avrotimeTime
				rb.Reset(in)
				return avrotime.StringCodec{}.Read(rb, unsafe.Pointer(&t))
			}); !ok {
				return
			}
			if _, ok := e.call(c, "time.StringCodec.Skip", "time-length-mutation", in, true, 1, func() error {
				rb.Reset(in)
				return avrotime.StringCodec{}.Skip(rb)
			}); !ok {
				return
			}
			if _, ok := e.call(c, "time.DateCodec.Read", "time-length-mutation", h, true, 1, func() error {
				var t avrotimeTime
				rb.Reset(h)
				return avrotime.DateCodec{}.Read(rb, unsafe.Pointer(&t))
			}); !ok {
				return
			}
		}
		c.Shape(fmt.Sprintf("time|%d", i%7))
	case 8: // FileSchema over files on disk
		p := c06genPair(c, r)
		if p == nil {
			return
		}
		file, _ := c06file(r, p, 1, "null")
		dir := c.Dir
		if dir == "" {
			dir = os.TempDir()
		}
		path := fmt.Sprintf("%s/fs.%s.%d.avro", dir, c.Mode.Name, c.Shard)
		for m := 0; m < 12; m++ {
			b := file
			switch m % 4 {
			case 1:
				b = file[:r.IntN(len(file))]
			case 2:
				sites, _, _ := containerSites(file)
				if len(sites) > 0 {
					b = mutateSite(file, sites[r.IntN(len(sites))], c06hostile[r.IntN(len(c06hostile))])
				}
			case 3:
				b = append([]byte{}, file...)
				b[r.IntN(len(b))] ^= 0xff
			}
			os.WriteFile(path, b, 0o644)
			if _, ok := e.call(c, "FileSchema", "file-on-disk", b, true, 1, func() error {
				_, err := avro.FileSchema(path)
				return err
			}); !ok {
				break
			}
		}
		os.Remove(path)
		c.Shape(fmt.Sprintf("fileschema|%d", i%11))
	}
	if i%50 == 0 {
		c.Sample(map[string]any{"family": fam, "case": i})
	}
}

func init() {
	core.Register(&core.Prop{
		ID:        "C06",
		Level:     "exploration",
		Technique: "runtime monitoring: hostile inputs (structured mutation of every length/count/selector/size varint, truncation at every offset, noise, wrong-shape schemas) through every reading entry point in child processes with a pre-call input journal; per-call monitors for panic, thread CPU time and heap bytes allocated; checkptr/ASan variants",
		Rule: "nine input families from (VERIF_SEED, i): record-field mutation, record truncation, container-field mutation (metadata/block count/length, re-compressed hostile payloads), file truncation and header variants, noise/bit flips/splices, schema text mutation and wrong-shape schemas through Schema.Codec, spec-legal adversarial arrays (thousands of one-item blocks), time/date codecs with hostile lengths, FileSchema on disk; record inputs are also presented with 32-40 bytes of further data after them; files are read through bytes.Reader, bytes.Buffer, strings.Reader and bufio in rotation; one block of 1.5-3.5 MiB cut at seven positions and with its declared length inflated by 1 B..1 GiB through each reader type; complete timestamps followed by runs (1..1000) of one filler byte; " +
			"distinct_nontrivial = distinct (family, schema shape) combinations driven",
		Explanation: "Oracle: result or error, nothing else. A panic is recovered and recorded; a fatal error/OOM/signal kills the child and the orchestrator attributes it to the journalled input. CPU per call (getrusage RUSAGE_THREAD on a locked thread) must stay under 10 s; heap bytes allocated during the call (runtime.MemStats.TotalAlloc delta) must stay under 1 MiB + 4096 x len(input) x max(1, largest target element size/64) - linear, as the property says.",
		Assumptions: []string{"allocation/termination clauses are evaluated on schemas whose records and array items occupy at least one byte on the wire (array<null> may legally declare 2^62 items in three bytes)", "the wall-clock watchdog only yields 'inconclusive'"},
		Modes: func(tier string) []core.Mode {
			m := []core.Mode{{Name: "plain", Variant: "plain"}}
			if tier == "thorough" {
				m = append(m, core.Mode{Name: "checkptr", Variant: "checkptr", CaseDiv: 4}, core.Mode{Name: "asan", Variant: "asan", CaseDiv: 8, NoRlimit: true})
			}
			return m
		},
		NumCases: func(c *core.Ctx) int { return c.Pick(4500, 90000) },
		Run:      runC06,
		Findings: map[string]func(c *core.Ctx) string{"c06.deep-nesting-build-errors": findingDeepBuild},
		Floors: func(a *core.Agg) []string {
			var u []string
			for _, e := range []string{"Codec.Read", "Codec.Skip", "ReadFile", "SchemaFromString", "Schema.Codec", "time.StringCodec.Read"} {
				if a.C("calls."+e) < 5000 {
					u = append(u, fmt.Sprintf("calls.%s=%d < 5000", e, a.C("calls."+e)))
				}
				if a.C("errors."+e) < 1 {
					u = append(u, "no error observed from "+e)
				}
			}
			if a.C("calls.FileSchema") < 100 {
				u = append(u, "too few FileSchema calls")
			}
			for _, k := range []string{"mutation.len", "mutation.count", "mutation.selector", "mutation.blocksize", "mutation.long", "mutation.container-len", "mutation.container-count", "mutation.container-long"} {
				if a.C(k) < 200 {
					u = append(u, fmt.Sprintf("%s=%d < 200", k, a.C(k)))
				}
			}
			return u
		},
	})
}
