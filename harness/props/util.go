package props

import (
	"bytes"
	"time"

	"github.com/philpearl/avro"
)

type avrotimeTime = time.Time

func bytesReader(b []byte) avro.Reader { return bytes.NewReader(b) }
