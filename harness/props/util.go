package props

import (
	"bytes"

	"github.com/philpearl/avro"
)

func bytesReader(b []byte) avro.Reader { return bytes.NewReader(b) }
