package props

import (
	"bytes"
	"time"

	"github.com/philpearl/avro"
)

type avrotimeTime = time.Time

func bytesReader(b []byte) avro.Reader { return bytes.NewReader(b) }

// scribbleSchema overwrites every part of a Schema value its holder can reach (the value belongs to the
// caller that received it): type names, names, sizes, symbols, field names, union branches, at every depth.
func scribbleSchema(s *avro.Schema, seen map[*avro.SchemaObject]bool) {
	for i := range s.Union {
		scribbleSchema(&s.Union[i], seen)
	}
	if o := s.Object; o != nil && !seen[o] {
		seen[o] = true
		for i := range o.Fields {
			scribbleSchema(&o.Fields[i].Type, seen)
			o.Fields[i].Name = "scribbled_" + o.Fields[i].Name
		}
		scribbleSchema(&o.Items, seen)
		scribbleSchema(&o.Values, seen)
		for i := range o.Symbols {
			o.Symbols[i] = "SCRIBBLED"
		}
		o.Name, o.Namespace, o.LogicalType, o.Size = "scribbled", "scribbled.ns", "scribbled-logical", o.Size+7
	}
	if s.Type != "" {
		s.Type = "string"
		if s.Object == nil && len(s.Union) == 0 {
			s.Object = &avro.SchemaObject{LogicalType: "scribbled-logical"}
		}
	}
}
