package props

import (
	"bytes"
	"reflect"
	"time"
	"unsafe"
	"verifharness/gen"

	"github.com/philpearl/avro"
)

type avrotimeTime = time.Time

func bytesReader(b []byte) avro.Reader { return bytes.NewReader(b) }

// scribbleSchema overwrites every part of a Schema value its holder can reach (the value belongs to the
// caller that received it): type names, names, sizes, symbols, field names, union branches, at every depth.
func scribbleSchema(s *avro.Schema, seen map[*avro.SchemaObject]bool) {
	for i := range s.Union {
		scribbleSchema(&s.Union[i], seen)
	}
	if o := s.Object; o != nil && !seen[o] {
		seen[o] = true
		for i := range o.Fields {
			scribbleSchema(&o.Fields[i].Type, seen)
			o.Fields[i].Name = "scribbled_" + o.Fields[i].Name
		}
		scribbleSchema(&o.Items, seen)
		scribbleSchema(&o.Values, seen)
		for i := range o.Symbols {
			o.Symbols[i] = "SCRIBBLED"
		}
		o.Name, o.Namespace, o.LogicalType, o.Size = "scribbled", "scribbled.ns", "scribbled-logical", o.Size+7
	}
	if s.Type != "" {
		s.Type = "string"
		if s.Object == nil && len(s.Union) == 0 {
			s.Object = &avro.SchemaObject{LogicalType: "scribbled-logical"}
		}
	}
}

// scribbleSpareCapacity writes into the spare capacity (between len and cap) of every numeric or byte slice
// reachable from v, as a holder that appends in place would. The value belongs to its holder; what lies beyond
// a slice's length but within its capacity is the slice's own memory and nobody else's.
func scribbleSpareCapacity(v reflect.Value, depth int) (n int) {
	if depth > 12 {
		return 0
	}
	switch v.Kind() {
	case reflect.Pointer:
		if !v.IsNil() {
			n += scribbleSpareCapacity(v.Elem(), depth+1)
		}
	case reflect.Struct:
		if v.Type().PkgPath() != "" && v.Type().Name() != "" && v.NumField() > 0 && !v.Type().Field(0).IsExported() {
			return 0 // time.Time and friends
		}
		for i := 0; i < v.NumField(); i++ {
			if v.Type().Field(i).IsExported() {
				n += scribbleSpareCapacity(v.Field(i), depth+1)
			}
		}
	case reflect.Map:
		it := v.MapRange()
		for it.Next() {
			n += scribbleSpareCapacity(it.Value(), depth+1)
		}
	case reflect.Array:
		if v.Type().Elem().Kind() != reflect.Uint8 {
			for i := 0; i < v.Len(); i++ {
				n += scribbleSpareCapacity(v.Index(i), depth+1)
			}
		}
	case reflect.Slice:
		if v.IsNil() {
			return 0
		}
		for i := 0; i < v.Len() && i < 200; i++ {
			n += scribbleSpareCapacity(v.Index(i), depth+1)
		}
		if v.Cap() > v.Len() {
			switch v.Type().Elem().Kind() {
			case reflect.Uint8, reflect.Int8, reflect.Int16, reflect.Int32, reflect.Int64, reflect.Int, reflect.Float32, reflect.Float64, reflect.Bool:
				esz := int(v.Type().Elem().Size())
				spare := unsafe.Slice((*byte)(unsafe.Add(v.UnsafePointer(), v.Len()*esz)), (v.Cap()-v.Len())*esz)
				for k := range spare {
					spare[k] = 0xA5
					if v.Type().Elem().Kind() == reflect.Bool {
						spare[k] = 1
					}
				}
				n += len(spare)
			}
		}
	}
	return n
}

// markEmptyMaps inserts one entry (key chosen by the caller, zero value) into every empty, non-nil map of v,
// and the same entry into the corresponding map of want: the holder of a decoded record adds to its own maps.
// Returns the number of maps marked. t drives the walk.
func markEmptyMaps(t *gen.T, v, want reflect.Value, key string, depth int) (n int) {
	if depth > 10 || !v.IsValid() || !want.IsValid() {
		return 0
	}
	switch t.K {
	case gen.KPtr:
		if !v.IsNil() && !want.IsNil() {
			n += markEmptyMaps(t.Elem, v.Elem(), want.Elem(), key, depth+1)
		}
	case gen.KStruct:
		for i, f := range t.Fields {
			if !f.Excluded() {
				n += markEmptyMaps(f.T, gen.Field(v, i), gen.Field(want, i), key, depth+1)
			}
		}
	case gen.KSlice:
		if t.Elem.K != gen.KUint8 {
			for i := 0; i < v.Len() && i < want.Len() && i < 50; i++ {
				n += markEmptyMaps(t.Elem, v.Index(i), want.Index(i), key, depth+1)
			}
		}
	case gen.KMap:
		if v.IsNil() {
			return 0
		}
		if v.Len() == 0 && want.Len() == 0 && want.CanSet() {
			if want.IsNil() {
				want.Set(reflect.MakeMap(want.Type()))
			}
			z := reflect.Zero(v.Type().Elem())
			v.SetMapIndex(reflect.ValueOf(key), z)
			want.SetMapIndex(reflect.ValueOf(key), z)
			return 1
		}
		it := v.MapRange()
		for it.Next() {
			if wv := want.MapIndex(it.Key()); wv.IsValid() {
				n += markEmptyMaps(t.Elem, it.Value(), wv, key, depth+1)
			}
		}
	}
	return n
}
