package props

import (
	"fmt"
	"math"
	"math/rand/v2"
	"reflect"
	"time"
	"unsafe"

	"github.com/philpearl/avro"
	"github.com/unravelin/null/v5"

	"verifharness/core"
	"verifharness/gen"
	"verifharness/refavro"
)

// C20, library-registered types: the codecs the null and time sub-packages register are custom codecs like
// any other, so they must govern their type in every position, under every schema they accept.

// bpos holds X in every position: three nullable pointers (several allocations of one kind per record),
// map values, pointers as map values, arrays of pointers and of values, a pointer to a pointer, a plain field.
type bpos[X any] struct {
	P1 *X            `json:"p1"`
	P2 *X            `json:"p2"`
	M  map[string]X  `json:"m"`
	MP map[string]*X `json:"mp"`
	A  []*X          `json:"a"`
	S  []X           `json:"s"`
	PP **X           `json:"pp"`
	T  X             `json:"t"`
	P3 *X            `json:"p3"`
	G  int64         `json:"g"`
}

type bkind[X any] struct {
	name  string
	prims []string // accepted schemas of the value itself
	// gen returns a valid value and its datum under prims[p]
	gen func(r *rand.Rand, p int) (X, any)
	// wrapper: a null in a non-pointer position decodes to the zero (invalid) wrapper; plain types get no nulls there
	wrapper bool
	eq      func(a, b X) bool
	codecs  map[string]avro.Codec
	schemas map[string]*refavro.Schema
}

func c20positions[X any](c *core.Ctx, r *rand.Rand, k *bkind[X]) {
	if k.codecs == nil {
		k.codecs = map[string]avro.Codec{}
		k.schemas = map[string]*refavro.Schema{}
	}
	p := r.IntN(len(k.prims))
	T := k.prims[p]
	N := `["null",` + T + `]`
	slot := func() string {
		if k.wrapper && r.IntN(2) == 0 {
			return N
		}
		return T
	}
	sm, ss, st := slot(), slot(), slot()
	js := `{"type":"record","name":"bpos","fields":[{"name":"p1","type":` + N + `},{"name":"p2","type":` + N + `},{"name":"m","type":{"type":"map","values":` + sm + `}},` +
		`{"name":"mp","type":{"type":"map","values":` + N + `}},{"name":"a","type":{"type":"array","items":` + N + `}},{"name":"s","type":{"type":"array","items":` + ss + `}},` +
		`{"name":"pp","type":` + N + `},{"name":"t","type":` + st + `},{"name":"p3","type":` + N + `},{"name":"g","type":"long"}]}`
	codec, ok := k.codecs[js]
	rs := k.schemas[js]
	if !ok {
		var err error
		rs, err = refavro.ParseSchema([]byte(js))
		if err != nil {
			c.Violate("harness", err.Error(), nil)
			return
		}
		ls, err := avro.SchemaFromString(js)
		if err == nil {
			codec, err = ls.Codec(bpos[X]{})
		}
		if err != nil {
			c.Violate("builtin-position", fmt.Sprintf("%s under %s: codec for every position refused: %v", k.name, T, err), map[string]any{"schema": js})
			return
		}
		k.codecs[js], k.schemas[js] = codec, rs
	}
	// expected values per position and the datum
	var want []X
	var valid []bool
	var where []string
	val := func(schema, pos string, allowNull bool) any {
		where = append(where, pos)
		if schema == N && allowNull && r.IntN(3) == 0 {
			var z X
			want, valid = append(want, z), append(valid, false)
			return &refavro.Union{Branch: 0, Val: nil}
		}
		x, d := k.gen(r, p)
		want, valid = append(want, x), append(valid, true)
		if schema == N {
			return &refavro.Union{Branch: 1, Val: d}
		}
		return d
	}
	na, ns := 1+r.IntN(3), 1+r.IntN(3)
	rec := &refavro.Record{}
	rec.Fields = append(rec.Fields, val(N, "first pointer field", !k.wrapper), val(N, "second pointer field", !k.wrapper))
	rec.Fields = append(rec.Fields, &refavro.Map{Entries: []refavro.MapEntry{{Key: "k", Val: val(sm, "map value", true)}}})
	rec.Fields = append(rec.Fields, &refavro.Map{Entries: []refavro.MapEntry{{Key: "k", Val: val(N, "pointer map value", !k.wrapper)}}})
	var arr, sl []any
	for j := 0; j < na; j++ {
		arr = append(arr, val(N, "array-of-pointers item", !k.wrapper))
	}
	for j := 0; j < ns; j++ {
		sl = append(sl, val(ss, "array item", true))
	}
	rec.Fields = append(rec.Fields, arr, sl, val(N, "pointer to pointer", !k.wrapper), val(st, "plain field", true), val(N, "third pointer field", !k.wrapper), int64(7))
	enc, err := refavro.Encode(nil, rs, rec, &gen.RandChooser{R: r, Style: r.IntN(4)})
	if err != nil {
		c.Violate("harness", err.Error(), nil)
		return
	}
	rb := avro.NewReadBuf(enc)
	var got bpos[X]
	c.Eval(1)
	if err := codec.Read(rb, unsafe.Pointer(&got)); err != nil {
		c.Violate("builtin-position", fmt.Sprintf("%s under %s: reading a record with the type in every position failed: %v", k.name, T, err), map[string]any{"schema": js, "hex": fmt.Sprintf("%x", enc)})
		return
	}
	// collect decoded values in datum order; a nil pointer stands for null
	var have []*X
	have = append(have, got.P1, got.P2)
	if v, ok := got.M["k"]; ok && len(got.M) == 1 {
		have = append(have, &v)
	} else {
		have = append(have, nil)
	}
	if len(got.MP) == 1 {
		have = append(have, got.MP["k"])
	} else {
		have = append(have, nil)
	}
	if len(got.A) != na || len(got.S) != ns {
		c.Violate("builtin-position", fmt.Sprintf("%s under %s: arrays of %d and %d items decoded with %d and %d", k.name, T, na, ns, len(got.A), len(got.S)), map[string]any{"schema": js})
		return
	}
	have = append(have, got.A...)
	for j := range got.S {
		have = append(have, &got.S[j])
	}
	if got.PP != nil {
		have = append(have, *got.PP)
	} else {
		have = append(have, nil)
	}
	have = append(have, &got.T, got.P3)
	for j := range want {
		ptrPos := where[j] != "map value" && where[j] != "array item" && where[j] != "plain field"
		switch {
		case !valid[j] && ptrPos:
			if have[j] != nil {
				c.Violate("builtin-position", fmt.Sprintf("%s under %s as %s: null decoded as a non-nil pointer", k.name, T, where[j]), map[string]any{"schema": js})
				return
			}
		case have[j] == nil:
			c.Violate("builtin-position", fmt.Sprintf("%s under %s as %s: a non-null value decoded as nil / missing", k.name, T, where[j]), map[string]any{"schema": js})
			return
		case !k.eq(*have[j], want[j]):
			c.Violate("builtin-position", fmt.Sprintf("%s under %s as %s: decoded %+v, written %+v (schema %s)", k.name, T, where[j], *have[j], want[j], js), map[string]any{"schema": js, "hex": fmt.Sprintf("%x", enc)})
			return
		}
	}
	if got.G != 7 {
		c.Violate("builtin-position", fmt.Sprintf("%s under %s: the field after the positions decoded as %d, written 7", k.name, T, got.G), map[string]any{"schema": js})
		return
	}
	// write direction: the decoded record, written by the library, must be the same datum to a reference reader
	wb := avro.NewWriteBuf(nil)
	codec.Write(wb, unsafe.Pointer(&got))
	ds, derr := refavro.DecodeAll(rs, wb.Bytes(), 1)
	if derr != nil || refavro.Render(ds[0]) != refavro.Render(rec) {
		c.Violate("builtin-position", fmt.Sprintf("%s under %s: record written by the library reads (reference reader, err=%v) as %s, the values are %s", k.name, T, derr, trunc(fmt.Sprint(renderAll(ds)), 500), trunc(refavro.Render(rec), 500)), map[string]any{"schema": js})
		return
	}
	rb.ExtractResourceBank().Close()
	c.Count("builtin-positions."+k.name, 1)
	c.Count("builtin-positions."+k.name+"."+T, 1)
}

func renderAll(ds []any) []string {
	var out []string
	for _, d := range ds {
		out = append(out, refavro.Render(d))
	}
	return out
}

var (
	bkInt = &bkind[null.Int]{name: "null.Int", prims: []string{`"long"`, `"int"`}, wrapper: true,
		gen: func(r *rand.Rand, p int) (null.Int, any) {
			var x null.Int
			x.Valid = true
			if p == 1 {
				x.Int64 = int64(int32(r.Uint32())) >> uint(r.IntN(30))
				return x, int32(x.Int64)
			}
			x.Int64 = int64(r.Uint64()) >> uint(r.IntN(62))
			return x, x.Int64
		}, eq: func(a, b null.Int) bool { return a == b }}
	bkFloat = &bkind[null.Float]{name: "null.Float", prims: []string{`"double"`, `"float"`}, wrapper: true,
		gen: func(r *rand.Rand, p int) (null.Float, any) {
			var x null.Float
			x.Valid = true
			if p == 1 {
				f := float32(r.NormFloat64() * math.Pow(10, float64(r.IntN(20)-10)))
				x.Float64 = float64(f)
				return x, f
			}
			x.Float64 = r.NormFloat64() * math.Pow(10, float64(r.IntN(40)-20))
			return x, x.Float64
		}, eq: func(a, b null.Float) bool { return a == b }}
	bkBool = &bkind[null.Bool]{name: "null.Bool", prims: []string{`"boolean"`}, wrapper: true,
		gen: func(r *rand.Rand, p int) (null.Bool, any) {
			var x null.Bool
			x.Valid, x.Bool = true, r.IntN(2) == 0
			return x, x.Bool
		}, eq: func(a, b null.Bool) bool { return a == b }}
	bkString = &bkind[null.String]{name: "null.String", prims: []string{`"string"`}, wrapper: true,
		gen: func(r *rand.Rand, p int) (null.String, any) {
			var x null.String
			x.Valid, x.String = true, gen.String(r, gen.ValOpts{NoBigStrings: true})
			return x, x.String
		}, eq: func(a, b null.String) bool { return a == b }}
	bkNullTime = &bkind[null.Time]{name: "null.Time", prims: []string{`"string"`}, wrapper: true,
		gen: func(r *rand.Rand, p int) (null.Time, any) {
			var x null.Time
			x.Valid, x.Time = true, time.Unix(int64(r.Uint64()>>31)-(1<<31), int64(r.IntN(1e9))).UTC()
			return x, x.Time.Format(time.RFC3339Nano)
		}, eq: func(a, b null.Time) bool { return a.Valid == b.Valid && a.Time.Equal(b.Time) }}
	bkTime = &bkind[time.Time]{name: "time.Time", prims: []string{`"string"`, `{"type":"long","logicalType":"timestamp-micros"}`, `{"type":"long","logicalType":"timestamp-millis"}`, `{"type":"int","logicalType":"date"}`, `"long"`},
		gen: func(r *rand.Rand, p int) (time.Time, any) {
			sec := int64(r.Uint64()>>31) - (1 << 31)
			switch p {
			case 0:
				t := time.Unix(sec, int64(r.IntN(1e9))).UTC()
				return t, t.Format(time.RFC3339Nano)
			case 1:
				us := sec*1e6 + int64(r.IntN(1e6))
				return time.Unix(0, us*1e3), us
			case 2:
				ms := sec*1e3 + int64(r.IntN(1e3))
				return time.Unix(0, ms*1e6), ms
			case 3:
				d := int64(int32(r.Uint32())) >> 12
				return time.Unix(d*86400, 0), int32(d)
			}
			ns := sec*1e9 + int64(r.IntN(1e9))
			return time.Unix(0, ns), ns
		}, eq: func(a, b time.Time) bool { return a.Equal(b) }}
)

func c20builtinPositions(c *core.Ctx, r *rand.Rand, n int) {
	for j := 0; j < n; j++ {
		c20positions(c, r, bkInt)
		c20positions(c, r, bkFloat)
		c20positions(c, r, bkBool)
		c20positions(c, r, bkString)
		c20positions(c, r, bkNullTime)
		c20positions(c, r, bkTime)
	}
}

var _ = reflect.TypeOf
