// Package shared (second of two packages with this name).
package shared

type Item struct {
	Amount float64  `json:"amount"`
	Tags   []string `json:"tags"`
}

// Leaf cannot be expressed as an Avro schema.
type Leaf struct {
	F func() `json:"f"`
}

type Box struct {
	Items *Item  `json:"items"`
	Note  string `json:"note,omitempty"`
	N     int32  `json:"n"`
}
