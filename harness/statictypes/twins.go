package statictypes

// Look-alike row types: function-scoped declarations that share name and package and generate the very same
// schema (same json names; every integer width maps to long, float32 to double, a pointer and an omitempty
// value both to [null, T]) while their memory layouts differ. A program that writes "the same table" from two
// code paths has exactly this. Registered next to each other so that one process creates encoders for all.

func regTwinA() {
	type Twin struct {
		Count int64   `json:"count"`
		Small int32   `json:"small"`
		F     float64 `json:"f"`
		P     *int64  `json:"p"`
		S     []int16 `json:"s"`
		Name  string  `json:"name"`
	}
	reg[Twin]()
}

func regTwinB() {
	type Twin struct {
		Count int32   `json:"count"`
		Small int64   `json:"small"`
		F     float32 `json:"f"`
		P     int64   `json:"p,omitempty"`
		S     []int64 `json:"s"`
		Name  string  `json:"name"`
	}
	reg[Twin]()
}

func regTwinC() {
	type Twin struct {
		pad   [3]int64
		Count int16   `json:"count"`
		Skip  int64   `json:"-"`
		Small int     `json:"small"`
		F     float64 `json:"f"`
		P     *int32  `json:"p"`
		S     []int   `json:"s"`
		Name  string  `json:"name"`
	}
	_ = Twin{}.pad
	reg[Twin]()
}

func regTwinD() {
	type Twin struct {
		Count int64   `json:"count"`
		Small int16   `json:"small"`
		F     float32 `json:"f"`
		P     *int64  `json:"p"`
		S     []int32 `json:"s"`
		Name  string  `json:"name"`
	}
	reg[Twin]()
}

func init() {
	regTwinA()
	regTwinB()
	regTwinC()
	regTwinD()
}

// Twins returns the look-alike cases.
func Twins() []*Case {
	var out []*Case
	for _, c := range Cases {
		if c.Name == "Twin" {
			out = append(out, c)
		}
	}
	return out
}
