package statictypes

import (
	"reflect"
	"time"

	dupa "verifharness/statictypes/dupa/shared"
	dupb "verifharness/statictypes/dupb/shared"

	"github.com/unravelin/null/v5"
)

// Hand-written types for the shapes the properties name explicitly.

type HInner struct {
	A int    `json:"a"`
	S string `json:"s,omitempty"`
	P *int64 `json:"p"`
}

type HInt16 struct {
	A int16
	B int16 `json:"b,omitempty"`
	C int32
	D *int16
	E []int16
	F map[string]int16
	G int16
	H bool
}

type HInts struct {
	I   int   `json:"i"`
	I16 int16 `json:"i16"`
	I32 int32 `json:"i32"`
	I64 int64 `json:"i64"`
	OI  int   `json:"oi,omitempty"`
	O16 int16 `json:"o16,omitempty"`
	O32 int32 `json:"o32,omitempty"`
	O64 int64 `json:"o64,omitempty"`
}

type HFloats struct {
	F32  float32 `json:"f32"`
	F64  float64 `json:"f64"`
	OF32 float32 `json:"of32,omitempty"`
	OF64 float64 `json:"of64,omitempty"`
	PF32 *float32
	PF64 *float64
	SF32 []float32
	MF64 map[string]float64
}

type HPtrColl struct {
	PS  *[]int
	PM  *map[string]string
	PSO *[]string       `json:",omitempty"`
	PMO *map[string]int `json:",omitempty"`
	PB  *[]byte
}

type HMapNullable struct {
	M1 map[string]*int
	M2 map[string]null.Int
	M3 map[string]time.Time
	M4 map[string]*string
	M5 map[string]null.String
	M6 map[string]*HInner
	M7 map[string]null.Time
	M8 map[string]null.Bool
	M9 map[string]null.Float
}

type HPtrPtr struct {
	PP  **int
	PPS **string
	PPT **HInner
	PPP ***int32
}

type HTimes struct {
	T   time.Time
	OT  time.Time `json:"ot,omitempty"`
	PT  *time.Time
	ST  []time.Time
	NT  null.Time
	PNT *null.Time
	SNT []null.Time
}

type HNulls struct {
	NI  null.Int
	NB  null.Bool
	NF  null.Float
	NS  null.String
	ONI null.Int    `json:"oni,omitempty"`
	ONS null.String `json:"ons,omitempty"`
	PNI *null.Int
	SNI []null.Int
	SNS []null.String
	SNF []null.Float
	SNB []null.Bool
}

type HEmbedded struct {
	HInner
	X int
}

type HAnon struct {
	In struct {
		A int
		B string
	}
	Arr []struct {
		X float32
		Y *string
	}
	M map[string]struct {
		Z []byte
	}
}

type HEmpty struct{}

type HOnlyExcluded struct {
	a int
	B int    `json:"-"`
	C string `bq:"-"`
}

type HAllOmit struct {
	B  bool              `json:"b,omitempty"`
	I  int               `json:"i,omitempty"`
	F  float64           `json:"f,omitempty"`
	S  string            `json:"s,omitempty"`
	By []byte            `json:"by,omitempty"`
	Sl []string          `json:"sl,omitempty"`
	M  map[string]int    `json:"m,omitempty"`
	P  *int              `json:"p,omitempty"`
	St HInner            `json:"st,omitempty"`
	PS *HInner           `json:"ps,omitempty"`
	SS []HInner          `json:"ss,omitempty"`
	MS map[string]HInner `json:"ms,omitempty"`
	T  time.Time         `json:"t,omitempty"`
	N  null.Float        `json:"n,omitempty"`
}

type HReused struct {
	A HInner
	B HInner
	C []HInner
}

// distinct types from two packages that are both called "shared": equal String(), different full names
type HDup1 struct {
	A dupa.Item
	B dupb.Item
}

type HDup2 struct {
	B  dupb.Box   `json:"b"`
	A  dupa.Box   `json:"a"`
	PA *dupa.Leaf `json:"pa"`
}

type HMapOfMap struct {
	MM  map[string]map[string]int
	MS  map[string][]int
	SM  []map[string]string
	PMM *map[string]map[string]*int
	SS  [][]string
	SSS [][][]int16
	MSM map[string][]map[string][]byte
}

type HDeep struct {
	L1 *struct {
		L2 []struct {
			L3 map[string]*struct {
				L4 []*int `json:"l4,omitempty"`
				S  string
			}
		}
	}
}

type HBytes struct {
	B  []byte
	OB []byte `json:"ob,omitempty"`
	SB [][]byte
	MB map[string][]byte
	PB *[]byte
}

type HStrings struct {
	S  string
	OS string `json:"os,omitempty"`
	PS *string
	SS []string
	MS map[string]string
	SP []*string
}

type HTagOpts struct {
	A int    `json:"a,string,omitempty"`
	B int    `json:",omitempty,string"`
	C string `json:"c,string"`
	D int    `json:"d" bq:"dd"`
	E int    `bq:"-" json:"e"`
	F int    `json:"-"`
}

type HBools struct {
	B  bool
	OB bool `json:"ob,omitempty"`
	PB *bool
	SB []bool
	MB map[string]bool
}

func init() {
	reg[HInner]()
	reg[HInt16]()
	reg[HInts]()
	reg[HFloats]()
	reg[HPtrColl]()
	reg[HMapNullable]()
	reg[HPtrPtr]()
	reg[HTimes]()
	reg[HNulls]()
	reg[HEmbedded]()
	reg[HAnon]()
	reg[HEmpty]()
	reg[HOnlyExcluded]()
	reg[HAllOmit]()
	reg[HReused]("c15.named-struct-reused")
	reg[HDup1]()
	reg[HDup2]()
	reg[HMapOfMap]()
	reg[HDeep]()
	reg[HBytes]()
	reg[HStrings]()
	reg[HTagOpts]()
	reg[HBools]()
}

// Self-referential types (schema generation must return an error, not crash).

type HRec struct {
	V    int
	Next *HRec
}

type HRecA struct {
	B *HRecB
}

type HRecB struct {
	A []HRecA
}

type HRecM struct {
	M map[string]HRecM
}

type HRecDeep struct {
	X struct {
		Y []struct {
			Z **HRecDeep
		}
	}
}

// cycles that pass through anonymous structs only: the named type on the cycle is a slice, a map or a pointer
type HAnonList []struct {
	V    int
	Next HAnonList
}

type HAnonMap map[string]struct{ M HAnonMap }

type HAnonPtr *struct {
	Up HAnonPtr
	V  string
}

type HRecAnonSlice struct {
	L HAnonList
}

type HRecAnonMap struct {
	A int
	M HAnonMap
}

type HRecAnonPtr struct {
	P HAnonPtr
	S []struct{ Q HAnonPtr }
}

// cycles that pass through no struct at all: a named slice, map or pointer type that contains itself, alone or in turns
type HSelfSlice []HSelfSlice
type HSelfMap map[string]HSelfMap
type HSelfPtr *HSelfPtr
type HMutA []HMutB
type HMutB map[string]*HMutA

type HRecPureSlice struct {
	N int
	L HSelfSlice
}

type HRecPureMap struct {
	M HSelfMap `json:"m,omitempty"`
}

type HRecPurePtr struct {
	P HSelfPtr
}

type HRecPureMut struct {
	X HMutA
	Y *HMutB
}

// RecursiveCases are kept out of Cases: only C15 (and C06) present them.
var RecursiveCases []*Case

func regRec[T any]() {
	reg[T]()
	RecursiveCases = append(RecursiveCases, Cases[len(Cases)-1])
	Cases = Cases[:len(Cases)-1]
}

func init() {
	regRec[HRec]()
	regRec[HRecA]()
	regRec[HRecM]()
	regRec[HRecDeep]()
	regRec[HRecAnonSlice]()
	regRec[HRecAnonMap]()
	regRec[HRecAnonPtr]()
	regRec[HRecPureSlice]()
	regRec[HRecPureMap]()
	regRec[HRecPurePtr]()
	regRec[HRecPureMut]()
}

// LocalTwins returns two distinct struct types that are both called Item and live in the same package
// (function-scoped declarations): equal Name(), equal PkgPath(), different fields.
func LocalTwins() (reflect.Type, reflect.Type) {
	a := func() reflect.Type {
		type Item struct {
			SKU string `json:"sku"`
			Qty int64  `json:"qty"`
		}
		return reflect.TypeOf(Item{})
	}()
	b := func() reflect.Type {
		type Item struct {
			SKU    string   `json:"sku"`
			Amount float64  `json:"amount"`
			Tags   []string `json:"tags"`
			Qty    *int64   `json:"qty"`
		}
		return reflect.TypeOf(Item{})
	}()
	return a, b
}
