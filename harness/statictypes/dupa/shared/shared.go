// Package shared (first of two packages with this name): its types print as "shared.X" exactly like the
// types of the other package, while being distinct types with distinct Avro full names.
package shared

type Item struct {
	SKU string `json:"sku"`
	Qty int64  `json:"qty"`
}

type Leaf struct {
	V int64 `json:"v"`
}

type Box struct {
	Items []Item          `json:"items"`
	ByKey map[string]Leaf `json:"by_key"`
}
