// Package statictypes is the committed corpus of static struct types used to
// drive the generic Encoder[T] (generics need compile-time types).
package statictypes

import (
	"io"
	"reflect"

	"github.com/philpearl/avro"

	"verifharness/gen"
	"verifharness/lib"
)

type Case struct {
	Name   string
	IR     *gen.T
	RT     reflect.Type
	Encode func(w io.Writer, vals []reflect.Value, cfg lib.EncodeCfg) error
	// NewSession opens a real Encoder[T] for step-wise use
	NewSession func(w io.Writer, comp avro.Compression, blockSize int) (lib.Session, error)
	// Feature: narrow input feature this type exhibits (for quarantine of open findings)
	Feature string
}

var Cases []*Case

func reg[T any](feature ...string) {
	rt := reflect.TypeFor[T]()
	c := &Case{Name: rt.Name(), IR: gen.FromReflect(rt), RT: rt, Encode: lib.EncodeStatic[T], NewSession: lib.NewStaticSession[T]}
	if len(feature) > 0 {
		c.Feature = feature[0]
	}
	Cases = append(Cases, c)
}
