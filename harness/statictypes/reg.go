// Package statictypes is the committed corpus of static struct types used to
// drive the generic Encoder[T] (generics need compile-time types).
package statictypes

import (
	"io"
	"reflect"

	"verifharness/gen"
	"verifharness/lib"
)

type Case struct {
	Name   string
	IR     *gen.T
	RT     reflect.Type
	Encode func(w io.Writer, vals []reflect.Value, cfg lib.EncodeCfg) error
	// Feature: narrow input feature this type exhibits (for quarantine of open findings)
	Feature string
}

var Cases []*Case

func reg[T any](feature ...string) {
	rt := reflect.TypeFor[T]()
	c := &Case{Name: rt.Name(), IR: gen.FromReflect(rt), RT: rt, Encode: lib.EncodeStatic[T]}
	if len(feature) > 0 {
		c.Feature = feature[0]
	}
	Cases = append(Cases, c)
}
