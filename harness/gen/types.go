// Package gen holds the seeded generators: Go type trees, values, schemas,
// datums. Everything is a pure function of the PRNG handed in.
package gen

import (
	"fmt"
	"math/rand/v2"
	"reflect"
	"strings"
	"sync"
	"time"
	"unsafe"

	"github.com/unravelin/null/v5"
)

type Kind uint8

const (
	KBool Kind = iota
	KInt
	KInt16
	KInt32
	KInt64
	KFloat32
	KFloat64
	KString
	KBytes
	KTime
	KNullInt
	KNullBool
	KNullFloat
	KNullString
	KNullTime
	KStruct
	KSlice
	KMap
	KPtr
	// kinds outside the supported domain (used by C05 / C15)
	KInt8
	KUint
	KUint8
	KUint16
	KUint32
	KUint64
	KUintptr
	KComplex64
	KComplex128
	KIface
	KChan
	KFunc
	KUnsafePtr
	KArray // [N]Elem
	KMapIntKey
	numKinds
)

var kindNames = [...]string{"bool", "int", "int16", "int32", "int64", "float32", "float64", "string", "[]byte", "time.Time",
	"null.Int", "null.Bool", "null.Float", "null.String", "null.Time", "struct", "slice", "map", "ptr",
	"int8", "uint", "uint8", "uint16", "uint32", "uint64", "uintptr", "complex64", "complex128", "interface{}", "chan", "func", "unsafe.Pointer", "array", "map[int]"}

func (k Kind) String() string { return kindNames[k] }

// Excl says why a field is excluded from the schema.
const (
	ExclNone = iota
	ExclJSONDash
	ExclBQDash
	ExclUnexported
)

type F struct {
	Go        string // Go field name
	JSON      string // name in the json tag ("" = none)
	Omit      bool   // omitempty present
	Extra     string // other tag options, e.g. "string"
	OmitFirst bool   // omitempty placed before Extra
	Excl      int
	Embedded  bool
	T         *T
}

type T struct {
	K        Kind
	Elem     *T
	Fields   []*F
	N        int          // array length
	Name     string       // non-empty: named (static) type
	Named    bool         // scalar kinds: a defined type (type NFloat32 float32) instead of the predeclared one
	RTStatic reflect.Type // for static types: the real Go type

	once sync.Once
	rt   reflect.Type
}

// AvroName is the schema name of the field per the documented rule.
func (f *F) AvroName() string {
	if f.JSON != "" {
		return f.JSON
	}
	return f.Go
}

func (f *F) Excluded() bool { return f.Excl != ExclNone }

func (f *F) Tag() reflect.StructTag {
	var parts []string
	switch f.Excl {
	case ExclJSONDash:
		parts = append(parts, `json:"-"`)
		return reflect.StructTag(strings.Join(parts, " "))
	case ExclBQDash:
		parts = append(parts, `bq:"-"`)
	}
	var opts []string
	if f.Omit && f.OmitFirst {
		opts = append(opts, "omitempty")
	}
	if f.Extra != "" {
		opts = append(opts, f.Extra)
	}
	if f.Omit && !f.OmitFirst {
		opts = append(opts, "omitempty")
	}
	if f.JSON != "" || len(opts) > 0 {
		js := f.JSON
		if len(opts) > 0 {
			js += "," + strings.Join(opts, ",")
		}
		// escape for the struct tag conventional format
		parts = append(parts, fmt.Sprintf(`json:%q`, js))
	}
	return reflect.StructTag(strings.Join(parts, " "))
}

var (
	rtTime       = reflect.TypeOf(time.Time{})
	rtNullInt    = reflect.TypeOf(null.Int{})
	rtNullBool   = reflect.TypeOf(null.Bool{})
	rtNullFloat  = reflect.TypeOf(null.Float{})
	rtNullString = reflect.TypeOf(null.String{})
	rtNullTime   = reflect.TypeOf(null.Time{})
)

// defined (named) scalar types: same kinds, different type identity
type (
	NBool    bool
	NInt     int
	NInt16   int16
	NInt32   int32
	NInt64   int64
	NFloat32 float32
	NFloat64 float64
	NString  string
	NBytes   []byte
)

var namedScalars = map[Kind]reflect.Type{
	KBool: reflect.TypeOf(NBool(false)), KInt: reflect.TypeOf(NInt(0)), KInt16: reflect.TypeOf(NInt16(0)), KInt32: reflect.TypeOf(NInt32(0)),
	KInt64: reflect.TypeOf(NInt64(0)), KFloat32: reflect.TypeOf(NFloat32(0)), KFloat64: reflect.TypeOf(NFloat64(0)), KString: reflect.TypeOf(NString("")),
	KBytes: reflect.TypeOf(NBytes(nil)),
}

// RT returns the reflect.Type (reflect.StructOf for structs).
func (t *T) RT() reflect.Type {
	t.once.Do(func() {
		if t.RTStatic != nil {
			t.rt = t.RTStatic
			return
		}
		if nt, ok := namedScalars[t.K]; ok && t.Named {
			t.rt = nt
			return
		}
		switch t.K {
		case KBool:
			t.rt = reflect.TypeOf(false)
		case KInt:
			t.rt = reflect.TypeOf(int(0))
		case KInt8:
			t.rt = reflect.TypeOf(int8(0))
		case KInt16:
			t.rt = reflect.TypeOf(int16(0))
		case KInt32:
			t.rt = reflect.TypeOf(int32(0))
		case KInt64:
			t.rt = reflect.TypeOf(int64(0))
		case KUint:
			t.rt = reflect.TypeOf(uint(0))
		case KUint8:
			t.rt = reflect.TypeOf(uint8(0))
		case KUint16:
			t.rt = reflect.TypeOf(uint16(0))
		case KUint32:
			t.rt = reflect.TypeOf(uint32(0))
		case KUint64:
			t.rt = reflect.TypeOf(uint64(0))
		case KUintptr:
			t.rt = reflect.TypeOf(uintptr(0))
		case KFloat32:
			t.rt = reflect.TypeOf(float32(0))
		case KFloat64:
			t.rt = reflect.TypeOf(float64(0))
		case KComplex64:
			t.rt = reflect.TypeOf(complex64(0))
		case KComplex128:
			t.rt = reflect.TypeOf(complex128(0))
		case KString:
			t.rt = reflect.TypeOf("")
		case KBytes:
			t.rt = reflect.TypeOf([]byte(nil))
		case KTime:
			t.rt = rtTime
		case KNullInt:
			t.rt = rtNullInt
		case KNullBool:
			t.rt = rtNullBool
		case KNullFloat:
			t.rt = rtNullFloat
		case KNullString:
			t.rt = rtNullString
		case KNullTime:
			t.rt = rtNullTime
		case KIface:
			t.rt = reflect.TypeOf((*any)(nil)).Elem()
		case KChan:
			t.rt = reflect.ChanOf(reflect.BothDir, t.Elem.RT())
		case KFunc:
			t.rt = reflect.TypeOf(func() {})
		case KUnsafePtr:
			t.rt = reflect.TypeOf(unsafe.Pointer(nil))
		case KSlice:
			t.rt = reflect.SliceOf(t.Elem.RT())
		case KArray:
			t.rt = reflect.ArrayOf(t.N, t.Elem.RT())
		case KMap:
			t.rt = reflect.MapOf(reflect.TypeOf(""), t.Elem.RT())
		case KMapIntKey:
			t.rt = reflect.MapOf(reflect.TypeOf(int(0)), t.Elem.RT())
		case KPtr:
			t.rt = reflect.PointerTo(t.Elem.RT())
		case KStruct:
			sf := make([]reflect.StructField, len(t.Fields))
			for i, f := range t.Fields {
				sf[i] = reflect.StructField{Name: f.Go, Type: f.T.RT(), Tag: f.Tag(), Anonymous: f.Embedded}
				if f.Excl == ExclUnexported {
					sf[i].PkgPath = "verifharness/gen"
				}
			}
			t.rt = reflect.StructOf(sf)
		default:
			panic(fmt.Sprintf("RT: kind %d", t.K))
		}
	})
	return t.rt
}

// String renders the type as Go-like source text.
func (t *T) String() string {
	var b strings.Builder
	t.write(&b)
	return b.String()
}

func (t *T) write(b *strings.Builder) {
	if t.Name != "" {
		b.WriteString(t.Name)
		return
	}
	switch t.K {
	case KSlice:
		b.WriteString("[]")
		t.Elem.write(b)
	case KArray:
		fmt.Fprintf(b, "[%d]", t.N)
		t.Elem.write(b)
	case KMap:
		b.WriteString("map[string]")
		t.Elem.write(b)
	case KMapIntKey:
		b.WriteString("map[int]")
		t.Elem.write(b)
	case KPtr:
		b.WriteString("*")
		t.Elem.write(b)
	case KChan:
		b.WriteString("chan ")
		t.Elem.write(b)
	case KFunc:
		b.WriteString("func()")
	case KStruct:
		t.WriteStructBody(b)
	default:
		if t.Named {
			b.WriteString("gen.N" + strings.ToUpper(t.K.String()[:1]) + t.K.String()[1:])
			return
		}
		b.WriteString(t.K.String())
	}
}

// WriteStructBody writes "struct{...}" ignoring t.Name.
func (t *T) WriteStructBody(b *strings.Builder) {
	b.WriteString("struct{")
	for i, f := range t.Fields {
		if i > 0 {
			b.WriteString("; ")
		}
		if !f.Embedded {
			b.WriteString(f.Go)
			b.WriteByte(' ')
		}
		f.T.write(b)
		if tag := f.Tag(); tag != "" {
			fmt.Fprintf(b, " %s", "`"+string(tag)+"`")
		}
	}
	b.WriteString("}")
}

// Shape is a structural signature (kinds, omit flags, exclusions), no names.
func (t *T) Shape() string {
	var b strings.Builder
	t.shape(&b)
	return b.String()
}

func (t *T) shape(b *strings.Builder) {
	switch t.K {
	case KSlice:
		b.WriteString("[]")
		t.Elem.shape(b)
	case KArray:
		fmt.Fprintf(b, "[%d]", t.N)
		t.Elem.shape(b)
	case KMap:
		b.WriteString("m:")
		t.Elem.shape(b)
	case KMapIntKey:
		b.WriteString("mi:")
		t.Elem.shape(b)
	case KPtr:
		b.WriteString("*")
		t.Elem.shape(b)
	case KStruct:
		b.WriteString("{")
		for _, f := range t.Fields {
			if f.Omit {
				b.WriteByte('?')
			}
			if f.Excl != 0 {
				fmt.Fprintf(b, "x%d", f.Excl)
			}
			f.T.shape(b)
			b.WriteByte(';')
		}
		b.WriteString("}")
	default:
		b.WriteString(t.K.String())
	}
}

// Kinds adds every kind occurring in the tree to the set.
func (t *T) Kinds(set map[Kind]int) {
	set[t.K]++
	if t.Elem != nil {
		t.Elem.Kinds(set)
	}
	for _, f := range t.Fields {
		if !f.Excluded() {
			f.T.Kinds(set)
		}
	}
}

// Walk visits every node.
func (t *T) Walk(fn func(*T)) {
	fn(t)
	if t.Elem != nil {
		t.Elem.Walk(fn)
	}
	for _, f := range t.Fields {
		f.T.Walk(fn)
	}
}

// ---------------------------------------------------------------------------

// TypeOpts steers the type generator.
type TypeOpts struct {
	MaxDepth   int
	MaxFields  int
	WeirdNames bool // allow a minority of JSON names that are not Avro names
	NoExcluded bool
	NoNullPkg  bool // no null.* wrappers
	NoTime     bool
	NoMaps     bool
	AllKinds   bool // also kinds outside the supported domain (C05 / C15)
	DupNames   bool // now and then two fields of one struct resolve to the same schema name (C15: cannot be expressed)
	// Quarantine switches (features removed from the domain while an open finding covers them)
	NoPtrPtr bool
}

var leafKinds = []Kind{KBool, KInt, KInt16, KInt32, KInt64, KFloat32, KFloat64, KString, KBytes, KTime,
	KNullInt, KNullBool, KNullFloat, KNullString, KNullTime}

var extraKinds = []Kind{KInt8, KUint, KUint8, KUint16, KUint32, KUint64, KUintptr, KComplex64, KComplex128, KIface, KChan, KFunc, KUnsafePtr, KArray, KMapIntKey, KSlice}

func pick[X any](r *rand.Rand, xs []X) X { return xs[r.IntN(len(xs))] }

// GenStruct generates a top-level struct type.
func GenStruct(r *rand.Rand, o TypeOpts) *T {
	if o.MaxDepth == 0 {
		o.MaxDepth = 3
	}
	if o.MaxFields == 0 {
		o.MaxFields = 6
	}
	return genStruct(r, o, 0)
}

// names include pairs that differ only in case (distinct fields for a case-sensitive matcher)
var niceNames = []string{"declinate", "macallums", "costarring", "liquid", "id", "name", "value", "count", "ts", "data", "items", "tags", "score", "flag", "a", "b", "c", "x_1", "Y2", "_u", "camelCase", "snake_case", "UPPER", "n0",
	"ID", "Id", "Name", "A", "B", "upper", "CamelCase", "y2", "Ts"}
var weirdNames = []string{"with-dash", "with space", "ünï", "q\"uote", "dot.ted", "1lead", "a/b", "emoji😀", "tab\tname", "back\\slash"}

func genStruct(r *rand.Rand, o TypeOpts, depth int) *T {
	n := 1 + r.IntN(o.MaxFields)
	if depth > 0 && r.IntN(8) == 0 {
		n = 0 // empty nested struct
	}
	if depth == 0 && r.IntN(40) == 0 {
		n = 0
	}
	t := &T{K: KStruct}
	used := map[string]bool{}
	for i := 0; i < n; i++ {
		f := &F{Go: fmt.Sprintf("F%d", i)}
		f.T = genType(r, o, depth+1)
		// naming
		switch r.IntN(10) {
		case 0, 1, 2, 3, 4, 5:
			nm := pick(r, niceNames)
			if o.WeirdNames && r.IntN(12) == 0 {
				nm = pick(r, weirdNames)
			}
			if !used[nm] {
				f.JSON = nm
			}
		case 7:
			if r.IntN(4) == 0 {
				// a name of 64 bytes and more
				if nm := fmt.Sprintf("long_name_%s", strings.Repeat("y", 56+r.IntN(20))); !used[nm] {
					f.JSON = nm
				}
			}
		case 6:
			// a name that is an option keyword, or the Go identifier of another field of this struct
			nm := pick(r, []string{"omitempty", "string", "omitzero"})
			if r.IntN(2) == 0 {
				if j := r.IntN(n); j != i {
					nm = fmt.Sprintf("F%d", j)
				}
			}
			if !used[nm] {
				f.JSON = nm
			}
		}
		if used[f.AvroName()] {
			f.JSON = ""
		}
		if used[f.AvroName()] {
			f.JSON = fmt.Sprintf("uniq%d", i) // the Go identifier is taken by another field's json name
		}
		own := f.AvroName()
		used[own] = true
		if r.IntN(3) == 0 {
			f.Omit = true
			if r.IntN(5) == 0 {
				f.Extra = "string"
				f.OmitFirst = r.IntN(2) == 0
			}
		} else if r.IntN(25) == 0 {
			f.Extra = "string"
		}
		if !o.NoExcluded && r.IntN(12) == 0 {
			f.Excl = 1 + r.IntN(3)
			if f.Excl == ExclUnexported {
				f.Go = fmt.Sprintf("f%d", i)
			}
			if f.Excl == ExclJSONDash {
				f.JSON, f.Omit, f.Extra = "", false, ""
			}
			// excluded fields do not occupy a name
			delete(used, own)
		}
		t.Fields = append(t.Fields, f)
	}
	if o.DupNames && r.IntN(8) == 0 {
		var live []*F
		for _, f := range t.Fields {
			if !f.Excluded() {
				live = append(live, f)
			}
		}
		if len(live) >= 2 {
			a, b := r.IntN(len(live)), r.IntN(len(live))
			if a != b {
				if r.IntN(3) == 0 {
					live[a].JSON = "dup_" + strings.Repeat("z", 60+r.IntN(30)) // the shared name is 64 bytes or longer
				}
				live[b].JSON = live[a].AvroName()
			}
		}
	}
	return t
}

// HasDupNames: some struct in the (non-excluded) type tree has two fields of one schema name.
func (t *T) HasDupNames() bool {
	found := false
	seen := map[*T]bool{}
	var walk func(t *T)
	walk = func(t *T) {
		if t == nil || seen[t] || found {
			return
		}
		seen[t] = true
		if t.K == KStruct {
			names := map[string]bool{}
			for _, f := range t.Fields {
				if f.Excluded() {
					continue
				}
				if names[f.AvroName()] {
					found = true
					return
				}
				names[f.AvroName()] = true
				walk(f.T)
			}
			return
		}
		walk(t.Elem)
	}
	walk(t)
	return found
}

func genType(r *rand.Rand, o TypeOpts, depth int) *T {
	// composite probability decreases with depth
	if depth < o.MaxDepth && r.IntN(100) < 45 {
		switch r.IntN(10) {
		case 0, 1:
			return genStruct(r, o, depth)
		case 2, 3, 4:
			return &T{K: KSlice, Elem: genType(r, o, depth+1)}
		case 5, 6:
			if !o.NoMaps {
				return &T{K: KMap, Elem: genType(r, o, depth+1)}
			}
			return &T{K: KSlice, Elem: genType(r, o, depth+1)}
		default:
			e := genType(r, o, depth+1)
			if o.NoPtrPtr && e.K == KPtr {
				return e
			}
			return &T{K: KPtr, Elem: e}
		}
	}
	if o.AllKinds && r.IntN(5) == 0 {
		switch k := pick(r, extraKinds); k {
		case KArray:
			e := genType(r, o, depth+1)
			if r.IntN(2) == 0 {
				e = &T{K: KUint8}
			}
			return &T{K: KArray, N: pick(r, []int{0, 1, 3, 16}), Elem: e}
		case KMapIntKey:
			return &T{K: KMapIntKey, Elem: genType(r, o, depth+1)}
		case KChan:
			return &T{K: KChan, Elem: &T{K: KInt}}
		case KSlice:
			return &T{K: KSlice, Elem: &T{K: pick(r, []Kind{KUint16, KUint32, KInt8, KComplex64})}}
		default:
			return &T{K: k}
		}
	}
	for {
		k := pick(r, leafKinds)
		if o.NoNullPkg && k >= KNullInt && k <= KNullTime {
			continue
		}
		if o.NoTime && (k == KTime || k == KNullTime) {
			continue
		}
		_, canName := namedScalars[k]
		return &T{K: k, Named: canName && r.IntN(10) == 0}
	}
}

// Leaf returns a leaf T of kind k.
func Leaf(k Kind) *T  { return &T{K: k} }
func SliceOf(e *T) *T { return &T{K: KSlice, Elem: e} }
func MapOf(e *T) *T   { return &T{K: KMap, Elem: e} }
func PtrTo(e *T) *T   { return &T{K: KPtr, Elem: e} }
func StructOf(fs ...*F) *T {
	return &T{K: KStruct, Fields: fs}
}
func Fld(goName, jsonName string, omit bool, t *T) *F {
	return &F{Go: goName, JSON: jsonName, Omit: omit, T: t}
}
