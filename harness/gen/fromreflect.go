package gen

import (
	"reflect"
	"strings"
)

// FromReflect derives the type IR from a real Go type, applying the
// documented tag rules (json name before the first comma, "-" excludes,
// "omitempty" among the options, bq:"-" excludes, unexported excluded).
func FromReflect(rt reflect.Type) *T {
	return fromReflect(rt, map[reflect.Type]*T{})
}

func fromReflect(rt reflect.Type, seen map[reflect.Type]*T) *T {
	if t, ok := seen[rt]; ok {
		return t
	}
	t := &T{RTStatic: rt}
	switch rt {
	case rtTime:
		t.K = KTime
		return t
	case rtNullInt:
		t.K = KNullInt
		return t
	case rtNullBool:
		t.K = KNullBool
		return t
	case rtNullFloat:
		t.K = KNullFloat
		return t
	case rtNullString:
		t.K = KNullString
		return t
	case rtNullTime:
		t.K = KNullTime
		return t
	}
	switch rt.Kind() {
	case reflect.Bool:
		t.K = KBool
	case reflect.Int:
		t.K = KInt
	case reflect.Int8:
		t.K = KInt8
	case reflect.Int16:
		t.K = KInt16
	case reflect.Int32:
		t.K = KInt32
	case reflect.Int64:
		t.K = KInt64
	case reflect.Uint:
		t.K = KUint
	case reflect.Uint8:
		t.K = KUint8
	case reflect.Uint16:
		t.K = KUint16
	case reflect.Uint32:
		t.K = KUint32
	case reflect.Uint64:
		t.K = KUint64
	case reflect.Uintptr:
		t.K = KUintptr
	case reflect.Float32:
		t.K = KFloat32
	case reflect.Float64:
		t.K = KFloat64
	case reflect.Complex64:
		t.K = KComplex64
	case reflect.Complex128:
		t.K = KComplex128
	case reflect.String:
		t.K = KString
	case reflect.Interface:
		t.K = KIface
	case reflect.Chan:
		t.K = KChan
		t.Elem = fromReflect(rt.Elem(), seen)
	case reflect.Func:
		t.K = KFunc
	case reflect.UnsafePointer:
		t.K = KUnsafePtr
	case reflect.Slice:
		if rt.Elem().Kind() == reflect.Uint8 {
			t.K = KBytes
			return t
		}
		t.K = KSlice
		seen[rt] = t
		t.Elem = fromReflect(rt.Elem(), seen)
	case reflect.Array:
		t.K = KArray
		t.N = rt.Len()
		t.Elem = fromReflect(rt.Elem(), seen)
	case reflect.Map:
		if rt.Key().Kind() == reflect.String {
			t.K = KMap
		} else {
			t.K = KMapIntKey
		}
		seen[rt] = t
		t.Elem = fromReflect(rt.Elem(), seen)
	case reflect.Pointer:
		t.K = KPtr
		seen[rt] = t
		t.Elem = fromReflect(rt.Elem(), seen)
	case reflect.Struct:
		t.K = KStruct
		t.Name = rt.Name()
		seen[rt] = t
		for i := 0; i < rt.NumField(); i++ {
			sf := rt.Field(i)
			f := &F{Go: sf.Name, Embedded: sf.Anonymous}
			if !sf.IsExported() {
				f.Excl = ExclUnexported
			}
			if sf.Tag.Get("bq") == "-" {
				f.Excl = ExclBQDash
			}
			js := sf.Tag.Get("json")
			name, opts, _ := strings.Cut(js, ",")
			if name == "-" && opts == "" && !strings.Contains(js, ",") {
				f.Excl = ExclJSONDash
			} else if name == "-" {
				// `json:"-,"`: the documented rule is silent; the library excludes it
				f.Excl = ExclJSONDash
			}
			f.JSON = name
			if f.Excl == ExclJSONDash {
				f.JSON = ""
			}
			for _, o := range strings.Split(opts, ",") {
				if o == "omitempty" {
					f.Omit = true
				} else if o != "" {
					if f.Extra != "" {
						f.Extra += ","
					}
					f.Extra += o
					if !f.Omit {
						f.OmitFirst = false
					}
				}
			}
			f.T = fromReflect(sf.Type, seen)
			t.Fields = append(t.Fields, f)
		}
	}
	return t
}

// IsRecursive reports whether the type tree contains a cycle.
func (t *T) IsRecursive() bool {
	return isRec(t, map[*T]bool{})
}

func isRec(t *T, on map[*T]bool) bool {
	if on[t] {
		return true
	}
	on[t] = true
	defer delete(on, t)
	if t.Elem != nil && isRec(t.Elem, on) {
		return true
	}
	for _, f := range t.Fields {
		if isRec(f.T, on) {
			return true
		}
	}
	return false
}
