package gen

import (
	"fmt"
	"math/rand/v2"
	"strings"
)

// Src renders generated type trees as Go source with a mix of named and
// anonymous nested structs.
type Src struct {
	Prefix string
	Decls  []string
	Names  []string
	n      int
	R      *rand.Rand
}

// Declare renders t as a named top-level type and returns its name.
func (s *Src) Declare(t *T) string {
	name := fmt.Sprintf("%s%d", s.Prefix, s.n)
	s.n++
	body := s.structBody(t)
	s.Decls = append(s.Decls, fmt.Sprintf("type %s %s", name, body))
	return name
}

func (s *Src) structBody(t *T) string {
	var b strings.Builder
	b.WriteString("struct {\n")
	for _, f := range t.Fields {
		b.WriteString("\t" + f.Go + " " + s.expr(f.T))
		if tag := f.Tag(); tag != "" {
			b.WriteString(" `" + string(tag) + "`")
		}
		b.WriteString("\n")
	}
	b.WriteString("}")
	return b.String()
}

func (s *Src) expr(t *T) string {
	switch t.K {
	case KSlice:
		return "[]" + s.expr(t.Elem)
	case KMap:
		return "map[string]" + s.expr(t.Elem)
	case KPtr:
		return "*" + s.expr(t.Elem)
	case KStruct:
		if s.R.IntN(2) == 0 {
			return s.Declare(t)
		}
		return strings.ReplaceAll(s.structBody(t), "\n", "\n\t")
	}
	return t.K.String()
}
