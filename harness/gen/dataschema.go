package gen

import (
	"strings"
	"fmt"
	"math"
	"math/rand/v2"
	"time"

	"verifharness/refavro"
)

// Data schemas (C03, C04, C13): schemas over the supported subset, generated
// together with hints that keep datums and Go targets compatible.

type Hint struct {
	TimeStr  bool // string values are RFC 3339 timestamps (time.Time / null.Time targets allowed)
	Bits     int  // int/long values are drawn from this width (16, 32, 64)
	F32Exact bool // double values are exactly representable as float32
}

type DataSchema struct {
	S     *refavro.Schema
	Hints map[*refavro.Schema]*Hint
	names int
}

type DataOpts struct {
	MaxDepth int
	// CallerMode: only unions the writer supports ([null,T] and [T,null]); logical types on int/long
	CallerMode bool
	NoMulti    bool
	// NoZeroWidth: array items and the top-level record occupy at least one byte on the wire
	NoZeroWidth bool
}

func GenDataSchema(r *rand.Rand, o DataOpts) *DataSchema {
	if o.MaxDepth == 0 {
		o.MaxDepth = 3
	}
	ds := &DataSchema{Hints: map[*refavro.Schema]*Hint{}}
	ds.S = ds.record(r, o, 0)
	if o.NoZeroWidth && refavro.ZeroWidth(ds.S) {
		ds.S.Fields = append(ds.S.Fields, refavro.Field{Name: "fz", Type: &refavro.Schema{Type: "boolean"}})
	}
	return ds
}

func (ds *DataSchema) hint(s *refavro.Schema) *Hint {
	h := ds.Hints[s]
	if h == nil {
		h = &Hint{}
		ds.Hints[s] = h
	}
	return h
}

func (ds *DataSchema) record(r *rand.Rand, o DataOpts, depth int) *refavro.Schema {
	ds.names++
	s := &refavro.Schema{Type: "record", ObjectForm: true, Name: fmt.Sprintf("R%d", ds.names), Fields: []refavro.Field{}}
	n := 1 + r.IntN(5)
	if r.IntN(5) == 0 {
		n = 6 + r.IntN(9) // wide records: runs of several adjacent fields can be projected away
	}
	if depth == 0 && r.IntN(60) == 0 {
		n = 65 + r.IntN(70) // very wide records: more fields than a machine word has bits
	}
	if depth > 0 && r.IntN(10) == 0 {
		n = 0
	}
	partner := ""
	for i := 0; i < n; i++ {
		name := fmt.Sprintf("f%d", i)
		if partner != "" {
			// the other half of a hash-colliding pair follows its partner
			name, partner = partner, ""
			for _, f := range s.Fields {
				if f.Name == name {
					name = fmt.Sprintf("f%d", i)
				}
			}
		} else if n > 1 && r.IntN(8) == 0 {
			// a sibling whose name differs from another one's only in case; in a generated target it is also the
			// Go identifier (F<j>) of that other field, which may come earlier or later
			if j := r.IntN(n); j != i {
				name = fmt.Sprintf("F%d", j)
			}
			for _, f := range s.Fields {
				if f.Name == name {
					name = fmt.Sprintf("f%d", i)
				}
			}
		} else if r.IntN(50) == 0 {
			// a name of 64 bytes and more
			name = fmt.Sprintf("long_name_%d_%s", i, strings.Repeat("x", 54+r.IntN(20)))
		} else if r.IntN(40) == 0 {
			// a name that is also a struct-tag option keyword, or one of a pair with equal 32-bit FNV-1a hashes
			name = pick(r, append([]string{"omitempty", "string", "omitzero"}, CollidingNames...))
			for _, f := range s.Fields {
				if f.Name == name {
					name = fmt.Sprintf("f%d", i)
				}
			}
		}
		for k, cn := range CollidingNames {
			if name == cn {
				partner = CollidingNames[k^1]
			}
		}
		s.Fields = append(s.Fields, refavro.Field{Name: name, Type: ds.gen(r, o, depth+1, false)})
	}
	return s
}

func (ds *DataSchema) prim(r *rand.Rand, o DataOpts) *refavro.Schema {
	t := pick(r, []string{"boolean", "int", "long", "long", "float", "double", "bytes", "string", "string", "null"})
	s := &refavro.Schema{Type: t}
	switch t {
	case "int":
		ds.hint(s).Bits = pick(r, []int{16, 32, 32})
		if o.CallerMode && r.IntN(4) == 0 {
			s.ObjectForm, s.LogicalType = true, "date"
		}
	case "long":
		ds.hint(s).Bits = pick(r, []int{16, 32, 64, 64})
		if o.CallerMode && r.IntN(4) == 0 {
			s.ObjectForm, s.LogicalType = true, pick(r, []string{"timestamp-millis", "timestamp-micros"})
		}
	case "double":
		ds.hint(s).F32Exact = r.IntN(3) == 0
	case "string":
		ds.hint(s).TimeStr = r.IntN(4) == 0
	}
	return s
}

func (ds *DataSchema) gen(r *rand.Rand, o DataOpts, depth int, inUnion bool) *refavro.Schema {
	if depth >= o.MaxDepth || r.IntN(100) < 45 {
		if r.IntN(12) == 0 {
			ds.names++
			return &refavro.Schema{Type: "fixed", ObjectForm: true, Name: fmt.Sprintf("X%d", ds.names), Size: pick(r, []int{0, 1, 4, 16, 17})}
		}
		p := ds.prim(r, o)
		if inUnion && p.Type == "null" {
			p.Type = "boolean"
		}
		return p
	}
	k := r.IntN(10)
	if inUnion && k >= 6 {
		k = r.IntN(6)
	}
	switch k {
	case 0, 1:
		return ds.record(r, o, depth)
	case 2, 3:
		items := ds.gen(r, o, depth+1, false)
		for o.NoZeroWidth && refavro.ZeroWidth(items) {
			items = ds.gen(r, o, depth+1, false)
		}
		return &refavro.Schema{Type: "array", ObjectForm: true, Items: items}
	case 4, 5:
		return &refavro.Schema{Type: "map", ObjectForm: true, Values: ds.gen(r, o, depth+1, false)}
	default:
		inner := ds.gen(r, o, depth+1, true)
		null := &refavro.Schema{Type: "null"}
		u := &refavro.Schema{Type: "union"}
		switch m := r.IntN(10); {
		case m < 5:
			u.Branches = []*refavro.Schema{null, inner}
		case m < 8:
			u.Branches = []*refavro.Schema{inner, null}
		case m < 9 && !o.CallerMode:
			u.Branches = []*refavro.Schema{inner}
		default:
			if o.CallerMode || o.NoMulti {
				u.Branches = []*refavro.Schema{null, inner}
				break
			}
			if r.IntN(6) == 0 {
				// a wide union: 66..130 distinct named fixed types of one size (selectors need two bytes)
				nb := 66 + r.IntN(65)
				size := pick(r, []int{1, 4, 16})
				u.Branches = nil
				for k := 0; k < nb; k++ {
					ds.names++
					u.Branches = append(u.Branches, &refavro.Schema{Type: "fixed", ObjectForm: true, Name: fmt.Sprintf("W%d", ds.names), Size: size})
				}
				return u
			}
			// multi-branch, type compatible: null + int + long (all fit an integer target)
			a := &refavro.Schema{Type: "int"}
			b := &refavro.Schema{Type: "long"}
			bits := pick(r, []int{16, 32})
			ds.hint(a).Bits = bits
			ds.hint(b).Bits = bits
			u.Branches = []*refavro.Schema{null, a, b}
			r.Shuffle(3, func(i, j int) { u.Branches[i], u.Branches[j] = u.Branches[j], u.Branches[i] })
		}
		return u
	}
}

// ---------------------------------------------------------------------------
// Datums

// DatumOpts biases datum generation.
type DatumOpts struct {
	// OutOfRange: probability (1/n) that an integer leaves its hinted width (0 = never)
	OutOfRange int
	MaxElems   int
	// Chain: arrays hold one item (zero now and then): for schemas nested tens of levels deep
	Chain bool
}

// GenDatum returns a datum of schema s. outOfRange is set when an integer was
// deliberately drawn outside its hinted width.
func (ds *DataSchema) GenDatum(r *rand.Rand, s *refavro.Schema, o DatumOpts, outOfRange *bool) any {
	maxn := o.MaxElems
	if maxn == 0 {
		maxn = 4
	}
	switch s.Type {
	case "null":
		return nil
	case "boolean":
		return r.IntN(2) == 0
	case "int", "long":
		h := ds.hint(s)
		bits := h.Bits
		if bits == 0 {
			bits = 32
		}
		if s.Type == "int" && bits > 32 {
			bits = 32
		}
		lo, hi := int64(math.MinInt64), int64(math.MaxInt64)
		switch bits {
		case 16:
			lo, hi = math.MinInt16, math.MaxInt16
		case 32:
			lo, hi = math.MinInt32, math.MaxInt32
		}
		v := Int(r, lo, hi, ModeRandom)
		if o.OutOfRange > 0 && bits < 64 && r.IntN(o.OutOfRange) == 0 {
			// just outside the hinted width, but inside the schema type
			limit := int64(math.MaxInt64)
			if s.Type == "int" {
				limit = math.MaxInt32
			}
			if hi < limit {
				cand := []int64{hi + 1, lo - 1, hi + 1000, lo - 1000}
				if s.Type == "long" {
					cand = append(cand, 1<<31, -(1<<31)-1, 1<<40, -(1 << 40), math.MaxInt64, math.MinInt64)
				} else {
					cand = append(cand, math.MaxInt32, math.MinInt32)
				}
				v = pick(r, cand)
				if outOfRange != nil {
					*outOfRange = true
				}
			}
		}
		if s.LogicalType == "timestamp-millis" || s.LogicalType == "timestamp-micros" {
			// instants of the years 0001-9999 in the field's unit; one in four within the years an int64 of nanoseconds covers
			lim := int64(253402300799000) // 9999-12-31 in milliseconds
			lo := int64(-62135596800000)  // 0001-01-01
			if s.LogicalType == "timestamp-micros" {
				lim, lo = lim*1000, lo*1000
			}
			if r.IntN(4) == 0 {
				lim, lo = lim/40, -lim/40
			}
			v = Int(r, lo+1, lim, ModeRandom)
		}
		if s.Type == "int" {
			return int32(v)
		}
		return v
	case "float":
		return Float32(r, ValOpts{})
	case "double":
		if ds.hint(s).F32Exact {
			return float64(Float32(r, ValOpts{}))
		}
		return Float64(r, ValOpts{})
	case "bytes":
		b := Bytes(r, ValOpts{NoBigStrings: r.IntN(8) != 0})
		if b == nil {
			b = []byte{}
		}
		return b
	case "string":
		if ds.hint(s).TimeStr {
			return Time(r, ValOpts{Mode: ModeFull}).Format(time.RFC3339Nano)
		}
		return String(r, ValOpts{NoBigStrings: r.IntN(8) != 0})
	case "fixed":
		b := make([]byte, s.Size)
		for i := range b {
			b[i] = byte(r.IntN(256))
		}
		return b
	case "record":
		rec := &refavro.Record{Fields: make([]any, len(s.Fields))}
		for i, f := range s.Fields {
			rec.Fields[i] = ds.GenDatum(r, f.Type, o, outOfRange)
		}
		return rec
	case "array":
		n := 0
		if o.Chain {
			// exactly one successor per level (deeply nested chains), now and then the end of the chain
			out := []any{}
			if r.IntN(25) != 0 {
				out = append(out, ds.GenDatum(r, s.Items, o, outOfRange))
			}
			return out
		}
		switch r.IntN(12) {
		case 0, 1:
		case 2, 3:
			n = 1 + r.IntN(4*maxn)
		case 4:
			// long enough that per-type arenas grow several times within one record
			n = 17 + r.IntN(90)
		default:
			n = 1 + r.IntN(maxn)
		}
		out := make([]any, n)
		for i := range out {
			out[i] = ds.GenDatum(r, s.Items, o, outOfRange)
		}
		return out
	case "map":
		n := 0
		if r.IntN(6) != 0 {
			n = 1 + r.IntN(maxn)
		}
		m := &refavro.Map{}
		for i := 0; i < n; i++ {
			m.Entries = append(m.Entries, refavro.MapEntry{Key: mapKey(r, i), Val: ds.GenDatum(r, s.Values, o, outOfRange)})
		}
		return m
	case "union":
		b := r.IntN(len(s.Branches))
		if len(s.Branches) > 64 && r.IntN(2) == 0 {
			b = 64 + r.IntN(len(s.Branches)-64)
		}
		return &refavro.Union{Branch: b, Val: ds.GenDatum(r, s.Branches[b], o, outOfRange)}
	}
	panic("GenDatum: " + s.Type)
}

// RandChooser makes random spec-legal writer choices.
type RandChooser struct {
	R *rand.Rand
	// Style: 0 one block, 1 many blocks, 2 size-prefixed, 3 mixed
	Style       int
	MultiBlocks int
	Prefixed    int
}

func (c *RandChooser) Partition(n int) []int {
	if c.Style == 0 || c.Style == 2 && c.R.IntN(2) == 0 || n == 1 {
		return []int{n}
	}
	var parts []int
	for n > 0 {
		k := 1 + c.R.IntN(n)
		if c.R.IntN(3) == 0 {
			k = 1
		}
		parts = append(parts, k)
		n -= k
	}
	if len(parts) > 1 {
		c.MultiBlocks++
	}
	return parts
}

func (c *RandChooser) SizePrefix() bool {
	p := false
	switch c.Style {
	case 2:
		p = true
	case 3:
		p = c.R.IntN(2) == 0
	}
	if p {
		c.Prefixed++
	}
	return p
}

// GenFixedWidthSchema: records (nested up to two levels) made only of float, double and fixed fields - values
// whose wire form is their memory form, which is what bulk-copy fast paths look for.
func GenFixedWidthSchema(r *rand.Rand) *DataSchema {
	ds := &DataSchema{Hints: map[*refavro.Schema]*Hint{}}
	var rec func(depth int) *refavro.Schema
	rec = func(depth int) *refavro.Schema {
		ds.names++
		s := &refavro.Schema{Type: "record", ObjectForm: true, Name: fmt.Sprintf("W%d", ds.names), Fields: []refavro.Field{}}
		n := 2 + r.IntN(4)
		for i := 0; i < n; i++ {
			var ft *refavro.Schema
			switch k := r.IntN(8); {
			case k < 3:
				ft = &refavro.Schema{Type: "double"}
				ds.Hints[ft] = &Hint{F32Exact: r.IntN(2) == 0}
			case k < 5:
				ft = &refavro.Schema{Type: "float"}
			case k < 7 || depth >= 2:
				ds.names++
				ft = &refavro.Schema{Type: "fixed", ObjectForm: true, Name: fmt.Sprintf("X%d", ds.names), Size: pick(r, []int{4, 8, 8, 16, 12})}
			default:
				ft = rec(depth + 1)
			}
			s.Fields = append(s.Fields, refavro.Field{Name: fmt.Sprintf("f%d", i), Type: ft})
		}
		return s
	}
	ds.S = rec(0)
	return ds
}

// GenZeroWidthSchema: a record whose encoding is zero bytes long (no fields, or only null, fixed(0) and nested
// records of that kind). A file of such records is legal: its blocks declare N records and hold no payload bytes.
func GenZeroWidthSchema(r *rand.Rand) *DataSchema {
	ds := &DataSchema{Hints: map[*refavro.Schema]*Hint{}}
	var rec func(depth int) *refavro.Schema
	rec = func(depth int) *refavro.Schema {
		ds.names++
		s := &refavro.Schema{Type: "record", ObjectForm: true, Name: fmt.Sprintf("Z%d", ds.names), Fields: []refavro.Field{}}
		n := r.IntN(4)
		for i := 0; i < n; i++ {
			var ft *refavro.Schema
			switch k := r.IntN(4); {
			case k == 0:
				ft = &refavro.Schema{Type: "null"}
			case k == 1:
				ds.names++
				ft = &refavro.Schema{Type: "fixed", ObjectForm: true, Name: fmt.Sprintf("X%d", ds.names), Size: 0}
			case depth < 2:
				ft = rec(depth + 1)
			default:
				ft = &refavro.Schema{Type: "null"}
			}
			s.Fields = append(s.Fields, refavro.Field{Name: fmt.Sprintf("f%d", i), Type: ft})
		}
		return s
	}
	ds.S = rec(0)
	return ds
}
