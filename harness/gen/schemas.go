package gen

import (
	"fmt"
	"math/rand/v2"
	"strings"

	"verifharness/refavro"
)

// ---------------------------------------------------------------------------
// Schema documents for C14: arbitrary Avro schema IR over the supported
// attributes, rendered as JSON text with layout variation.

var docNames = []string{"rec", "Rec_1", "a.b.C", "ünï", "with space", "q\"uote", "back\\slash", "tab\there", "emoji😀", "x", "_", "N0", "nl\nname", " sep"}
var docNamespaces = []string{"", "", "com.example", "a", "org.apache.avro.file", "ns-with-dash", "ns/with/slash"}
var logicalTypes = []string{"date", "timestamp-millis", "timestamp-micros", "decimal", "uuid", "time-millis", "custom-thing"}
var primNames = []string{"null", "boolean", "int", "long", "float", "double", "bytes", "string"}

// GenSchemaDoc generates a schema IR (depth-limited) with all attributes.
func GenSchemaDoc(r *rand.Rand, depth int) *refavro.Schema {
	return genSchemaDoc(r, depth, false)
}

func genSchemaDoc(r *rand.Rand, depth int, inUnion bool) *refavro.Schema {
	if depth <= 0 || r.IntN(100) < 35 {
		if r.IntN(12) == 0 {
			// a bare-string reference to a named type; named types may be called anything, also like a keyword
			return &refavro.Schema{Type: pick(r, []string{"union", "record", "array", "map", "enum", "fixed", "a.b.C", "Rec_1", "x", "error", "type", "null_", "Union"}), BareRef: true}
		}
		s := &refavro.Schema{Type: pick(r, primNames)}
		if r.IntN(3) == 0 {
			s.ObjectForm = true
			if r.IntN(2) == 0 {
				s.LogicalType = pick(r, logicalTypes)
			}
		}
		return s
	}
	k := r.IntN(7)
	if inUnion && k == 6 {
		k = r.IntN(6)
	}
	switch k {
	case 0, 1:
		s := &refavro.Schema{Type: "record", ObjectForm: true, Name: pick(r, docNames), Fields: []refavro.Field{}}
		if r.IntN(2) == 0 {
			s.Namespace = pick(r, docNamespaces)
		}
		n := r.IntN(6)
		for i := 0; i < n; i++ {
			nm := pick(r, niceNames)
			if r.IntN(6) == 0 {
				nm = pick(r, docNames)
			}
			s.Fields = append(s.Fields, refavro.Field{Name: fmt.Sprintf("%s%d", nm, i), Type: genSchemaDoc(r, depth-1, false)})
		}
		return s
	case 2:
		s := &refavro.Schema{Type: "enum", ObjectForm: true, Name: pick(r, docNames), Symbols: []string{}}
		n := r.IntN(5)
		for i := 0; i < n; i++ {
			s.Symbols = append(s.Symbols, fmt.Sprintf("%s_%d", strings.ToUpper(pick(r, niceNames)), i))
		}
		if r.IntN(3) == 0 {
			s.Namespace = pick(r, docNamespaces)
		}
		return s
	case 3:
		return &refavro.Schema{Type: "array", ObjectForm: true, Items: genSchemaDoc(r, depth-1, false)}
	case 4:
		return &refavro.Schema{Type: "map", ObjectForm: true, Values: genSchemaDoc(r, depth-1, false)}
	case 5:
		s := &refavro.Schema{Type: "fixed", ObjectForm: true, Name: pick(r, docNames), Size: pick(r, []int{0, 1, 4, 12, 16, 17, 1024, 1 << 20, 1<<53 + 1, 1 << 62, 1<<63 - 1, 1<<31 + 7, 999999999999999999})}
		if r.IntN(3) == 0 {
			s.LogicalType = "decimal"
		}
		return s
	default:
		s := &refavro.Schema{Type: "union"}
		n := 1 + r.IntN(4)
		for i := 0; i < n; i++ {
			s.Branches = append(s.Branches, genSchemaDoc(r, depth-1, true))
		}
		return s
	}
}

// jsonString renders s as a JSON string literal, escaping a random subset of
// characters with \uXXXX forms.
func jsonString(r *rand.Rand, s string) string {
	var b strings.Builder
	b.WriteByte('"')
	for _, c := range s {
		switch {
		case c == '"':
			b.WriteString(`\"`)
		case c == '\\':
			b.WriteString(`\\`)
		case c == '\n':
			b.WriteString(`\n`)
		case c == '\t':
			if r.IntN(2) == 0 {
				b.WriteString(`\t`)
			} else {
				b.WriteString(`\u0009`)
			}
		case c < 0x20:
			fmt.Fprintf(&b, `\u%04x`, c)
		case c == '/' && r.IntN(3) == 0:
			b.WriteString(`\/`)
		case c < 0x10000 && r.IntN(12) == 0:
			fmt.Fprintf(&b, `\u%04X`, c)
		case c >= 0x10000 && r.IntN(4) == 0:
			c -= 0x10000
			fmt.Fprintf(&b, `\u%04x\u%04x`, 0xd800+(c>>10), 0xdc00+(c&0x3ff))
		default:
			b.WriteRune(c)
		}
	}
	b.WriteByte('"')
	return b.String()
}

func ws(r *rand.Rand) string {
	switch r.IntN(8) {
	case 0:
		return " "
	case 1:
		return "\n  "
	case 2:
		return "\t"
	case 3:
		return " \r\n "
	}
	return ""
}

var junkValues = []string{`null`, `true`, `false`, `0`, `-12.5e3`, `"text"`, `""`, `[]`, `{}`, `[1,2,{"c":null}]`, `{"a":{"b":[1,2,{"type":"record","fields":3}]}}`, `"é😀"`, `[[[[]]]]`, `{"type":"string"}`}

func unknownAttrs(r *rand.Rand) [][2]string {
	var out [][2]string
	// unknown attributes, including near misses of the known names (different case, separators, plural)
	names := []string{"doc", "default", "aliases", "order", "precision", "scale", "x-custom", "java-class", "Type", "NAME", "sizes", "item", "field",
		"logical_type", "Logical-Type", "LOGICALTYPE", "logicaltype", "logical-type", "Name", "name_", "NAMESPACE", "name-space", "name_space", "Fields", "FIELDS", "field_s",
		"Items", "ITEMS", "items_", "Values", "VALUES", "Size", "SIZE", "si_ze", "Symbols", "SYMBOLS", "TYPE", "ty_pe", "t-y-p-e"}
	n := 0
	if r.IntN(3) == 0 {
		n = 1 + r.IntN(3)
	}
	used := map[string]bool{}
	for i := 0; i < n; i++ {
		nm := pick(r, names)
		if used[nm] {
			continue
		}
		used[nm] = true
		out = append(out, [2]string{nm, pick(r, junkValues)})
	}
	return out
}

// RenderSchemaDoc renders the IR as JSON text with random key order,
// whitespace, escapes and unknown attributes.
func RenderSchemaDoc(r *rand.Rand, s *refavro.Schema) string {
	var b strings.Builder
	renderDoc(r, &b, s)
	return b.String()
}

func renderDoc(r *rand.Rand, b *strings.Builder, s *refavro.Schema) {
	if s.BareRef {
		b.WriteString(jsonString(r, s.Type))
		return
	}
	if s.Type == "union" {
		b.WriteString("[" + ws(r))
		for i, br := range s.Branches {
			if i > 0 {
				b.WriteString(ws(r) + "," + ws(r))
			}
			renderDoc(r, b, br)
		}
		b.WriteString(ws(r) + "]")
		return
	}
	if !s.ObjectForm {
		b.WriteString(jsonString(r, s.Type))
		return
	}
	var kv [][2]string
	kv = append(kv, [2]string{"type", jsonString(r, s.Type)})
	if s.LogicalType != "" {
		kv = append(kv, [2]string{"logicalType", jsonString(r, s.LogicalType)})
	}
	if s.Name != "" {
		kv = append(kv, [2]string{"name", jsonString(r, s.Name)})
	}
	if s.Namespace != "" {
		kv = append(kv, [2]string{"namespace", jsonString(r, s.Namespace)})
	}
	switch s.Type {
	case "record":
		var fb strings.Builder
		fb.WriteString("[" + ws(r))
		for i, f := range s.Fields {
			if i > 0 {
				fb.WriteString("," + ws(r))
			}
			var tb strings.Builder
			renderDoc(r, &tb, f.Type)
			fkv := [][2]string{{"name", jsonString(r, f.Name)}, {"type", tb.String()}}
			fkv = append(fkv, unknownAttrs(r)...)
			r.Shuffle(len(fkv), func(i, j int) { fkv[i], fkv[j] = fkv[j], fkv[i] })
			writeObj(r, &fb, fkv)
		}
		fb.WriteString(ws(r) + "]")
		kv = append(kv, [2]string{"fields", fb.String()})
	case "enum":
		var sb strings.Builder
		sb.WriteString("[")
		for i, sy := range s.Symbols {
			if i > 0 {
				sb.WriteString("," + ws(r))
			}
			sb.WriteString(jsonString(r, sy))
		}
		sb.WriteString("]")
		kv = append(kv, [2]string{"symbols", sb.String()})
	case "array":
		var tb strings.Builder
		renderDoc(r, &tb, s.Items)
		kv = append(kv, [2]string{"items", tb.String()})
	case "map":
		var tb strings.Builder
		renderDoc(r, &tb, s.Values)
		kv = append(kv, [2]string{"values", tb.String()})
	case "fixed":
		kv = append(kv, [2]string{"size", fmt.Sprintf("%d", s.Size)})
	}
	kv = append(kv, unknownAttrs(r)...)
	r.Shuffle(len(kv), func(i, j int) { kv[i], kv[j] = kv[j], kv[i] })
	writeObj(r, b, kv)
}

func writeObj(r *rand.Rand, b *strings.Builder, kv [][2]string) {
	b.WriteString("{" + ws(r))
	for i, e := range kv {
		if i > 0 {
			b.WriteString(ws(r) + "," + ws(r))
		}
		b.WriteString(jsonString(r, e[0]) + ws(r) + ":" + ws(r) + e[1])
	}
	b.WriteString(ws(r) + "}")
}

// DocDepth returns the nesting depth of the IR.
func DocDepth(s *refavro.Schema) int {
	if s == nil {
		return 0
	}
	d := 0
	for _, f := range s.Fields {
		if x := DocDepth(f.Type); x > d {
			d = x
		}
	}
	for _, x := range []*refavro.Schema{s.Items, s.Values} {
		if y := DocDepth(x); y > d {
			d = y
		}
	}
	for _, b := range s.Branches {
		if x := DocDepth(b); x > d {
			d = x
		}
	}
	return d + 1
}
