package gen

import (
	"fmt"
	"math/rand/v2"

	"verifharness/refavro"
)

// TargetOpts steers the derivation of a compatible Go target type.
type TargetOpts struct {
	Canonical   bool // no variations
	NoWrappers  bool // no time.Time / null.* targets
	NarrowInts  int  // 1/n chance to pick an integer width narrower than the hint (0 = never)
	NoPlainNull bool // union targets are always pointers / wrappers
	// PlainNullPrimOnly: a plain (non-pointer) target under a nullable union only for non-record branches
	PlainNullPrimOnly bool
	// OmitTags: a quarter of the struct fields carry omitempty
	OmitTags bool
}

// Target derives a Go type compatible with schema s.
func (ds *DataSchema) Target(r *rand.Rand, s *refavro.Schema, o TargetOpts) *T {
	return ds.target(r, s, o, false)
}

func intKindFor(r *rand.Rand, bits int, o TargetOpts) Kind {
	var ok []Kind
	switch {
	case bits <= 16:
		ok = []Kind{KInt16, KInt32, KInt64, KInt}
	case bits <= 32:
		ok = []Kind{KInt32, KInt64, KInt}
	default:
		ok = []Kind{KInt64, KInt}
	}
	if o.Canonical {
		return KInt64
	}
	if o.NarrowInts > 0 && r.IntN(o.NarrowInts) == 0 {
		return pick(r, []Kind{KInt16, KInt32})
	}
	return pick(r, ok)
}

func (ds *DataSchema) target(r *rand.Rand, s *refavro.Schema, o TargetOpts, underUnion bool) *T {
	h := ds.hint(s)
	wrap := !o.NoWrappers && !o.Canonical && r.IntN(3) == 0
	var t *T
	switch s.Type {
	case "null":
		t = &T{K: pick(r, []Kind{KInt, KBool, KString})}
		if r.IntN(2) == 0 {
			t = &T{K: KPtr, Elem: t}
		}
		return t
	case "boolean":
		t = &T{K: KBool}
		if wrap {
			t = &T{K: KNullBool}
		}
	case "int", "long":
		bits := h.Bits
		if bits == 0 {
			bits = 32
		}
		t = &T{K: intKindFor(r, bits, o)}
		if s.LogicalType != "" {
			if !o.NoWrappers && r.IntN(3) != 0 {
				t = &T{K: KTime}
			} else if s.Type == "long" {
				t = &T{K: pick(r, []Kind{KInt64, KInt})}
			}
		} else if wrap {
			t = &T{K: KNullInt}
		}
	case "float":
		t = &T{K: KFloat32}
		if wrap {
			t = &T{K: KNullFloat}
		}
	case "double":
		t = &T{K: KFloat64}
		if h.F32Exact && !o.Canonical && r.IntN(2) == 0 {
			t = &T{K: KFloat32}
		} else if wrap {
			t = &T{K: KNullFloat}
		}
	case "bytes":
		t = &T{K: KBytes}
	case "string":
		t = &T{K: KString}
		if h.TimeStr && !o.NoWrappers && !o.Canonical && r.IntN(2) == 0 {
			t = &T{K: pick(r, []Kind{KTime, KNullTime})}
		} else if wrap && !h.TimeStr {
			t = &T{K: KNullString}
		}
	case "fixed":
		t = &T{K: KArray, N: s.Size, Elem: &T{K: KUint8}}
	case "record":
		t = &T{K: KStruct}
		for i, f := range s.Fields {
			t.Fields = append(t.Fields, &F{Go: fmt.Sprintf("F%d", i), JSON: f.Name, T: ds.target(r, f.Type, o, false), Omit: o.OmitTags && r.IntN(4) == 0})
		}
	case "array":
		t = &T{K: KSlice, Elem: ds.target(r, s.Items, o, false)}
	case "map":
		t = &T{K: KMap, Elem: ds.target(r, s.Values, o, false)}
	case "union":
		nonNull := -1
		nulls := 0
		for i, b := range s.Branches {
			if b.Type == "null" {
				nulls++
			} else if nonNull < 0 {
				nonNull = i
			}
		}
		if nonNull < 0 {
			return &T{K: KPtr, Elem: &T{K: KInt}}
		}
		if len(s.Branches) > 64 {
			// wide union of named fixed types of one size
			t = &T{K: KArray, N: s.Branches[0].Size, Elem: &T{K: KUint8}}
			if r.IntN(3) == 0 {
				t = &T{K: KPtr, Elem: t}
			}
			return t
		}
		if len(s.Branches) > 2 || (len(s.Branches) == 2 && nulls == 0) {
			// multi-branch of integer branches: one integer target for all
			bits := 16
			for _, b := range s.Branches {
				if hb := ds.hint(b).Bits; hb > bits {
					bits = hb
				}
			}
			t = &T{K: intKindFor(r, bits, o)}
			if r.IntN(3) == 0 {
				t = &T{K: KPtr, Elem: t}
			}
			return t
		}
		inner := ds.target(r, s.Branches[nonNull], o, true)
		if nulls == 0 {
			return inner // single-branch union
		}
		switch inner.K {
		case KNullBool, KNullInt, KNullFloat, KNullString, KNullTime, KTime:
			if r.IntN(4) == 0 {
				return &T{K: KPtr, Elem: inner}
			}
			return inner
		}
		if o.Canonical || o.NoPlainNull || (o.PlainNullPrimOnly && inner.K == KStruct) {
			if !o.Canonical && r.IntN(8) == 0 {
				return &T{K: KPtr, Elem: &T{K: KPtr, Elem: inner}}
			}
			return &T{K: KPtr, Elem: inner}
		}
		switch r.IntN(8) {
		case 0, 1:
			return inner // plain target: null leaves zero
		case 2:
			return &T{K: KPtr, Elem: &T{K: KPtr, Elem: inner}}
		default:
			return &T{K: KPtr, Elem: inner}
		}
	default:
		panic("target: " + s.Type)
	}
	if _, canName := namedScalars[t.K]; canName && !o.Canonical && r.IntN(8) == 0 {
		t.Named = true // a defined type of the same kind
	}
	if !underUnion && !o.Canonical && r.IntN(10) == 0 && s.Type != "record" {
		// extra pointer level on a non-nullable schema
		return &T{K: KPtr, Elem: t}
	}
	return t
}

// Project derives a projected target: fields deleted, permuted, added at any depth.
func Project(r *rand.Rand, t *T, mode int) *T {
	switch t.K {
	case KStruct:
		n := &T{K: KStruct}
		fields := append([]*F{}, t.Fields...)
		switch mode {
		case 0: // delete one
			if len(fields) > 0 {
				k := r.IntN(len(fields))
				fields = append(fields[:k:k], fields[k+1:]...)
			}
		case 1: // delete all
			fields = nil
		case 2: // keep one
			if len(fields) > 0 {
				fields = []*F{fields[r.IntN(len(fields))]}
			}
		case 3: // random subset
			var keep []*F
			for _, f := range fields {
				if r.IntN(2) == 0 {
					keep = append(keep, f)
				}
			}
			fields = keep
		case 4: // permutation
			r.Shuffle(len(fields), func(i, j int) { fields[i], fields[j] = fields[j], fields[i] })
		case 5: // additions only
		case 6: // delete a subset and embed a struct whose promoted fields carry the deleted names
			var keep, gone []*F
			for _, f := range fields {
				if r.IntN(2) == 0 {
					keep = append(keep, f)
				} else {
					gone = append(gone, f)
				}
			}
			fields = keep
			if len(gone) > 0 {
				emb := &T{K: KStruct}
				for i, f := range gone {
					emb.Fields = append(emb.Fields, &F{Go: fmt.Sprintf("E%d", i), JSON: f.JSON, T: f.T})
				}
				at := r.IntN(len(fields) + 1)
				fields = append(fields[:at:at], append([]*F{{Go: "Emb", Embedded: true, T: emb}}, fields[at:]...)...)
			}
		}
		for i, f := range fields {
			sub := mode
			if mode != 4 && mode != 5 && r.IntN(2) == 0 {
				sub = 5 // do not always compound deletions below
			}
			if f.Embedded {
				n.Fields = append(n.Fields, f)
				continue
			}
			n.Fields = append(n.Fields, &F{Go: fmt.Sprintf("P%d", i), JSON: f.JSON, T: Project(r, f.T, sub)})
		}
		if mode == 5 || r.IntN(3) == 0 {
			k := 1 + r.IntN(2)
			for j := 0; j < k; j++ {
				at := r.IntN(len(n.Fields) + 1)
				add := &F{Go: fmt.Sprintf("A%d", j), JSON: fmt.Sprintf("zz_added_%d", j), T: genType(r, TypeOpts{MaxDepth: 2, MaxFields: 3, NoExcluded: true}, 1)}
				n.Fields = append(n.Fields[:at:at], append([]*F{add}, n.Fields[at:]...)...)
			}
		}
		// now and then an unexported field that carries the json name of one of the writer's fields (kept or
		// deleted): unexported fields never take part, whatever their tags say
		if len(t.Fields) > 0 && r.IntN(3) == 0 {
			src := t.Fields[r.IntN(len(t.Fields))]
			if !src.Embedded && !src.Excluded() {
				at := r.IntN(len(n.Fields) + 1)
				add := &F{Go: "u", JSON: src.AvroName(), Excl: ExclUnexported, T: src.T}
				n.Fields = append(n.Fields[:at:at], append([]*F{add}, n.Fields[at:]...)...)
			}
		}
		// Go field names must be unique
		for i, f := range n.Fields {
			if f.Excl == ExclUnexported {
				f.Go = fmt.Sprintf("q%d", i)
			} else if !f.Embedded {
				f.Go = fmt.Sprintf("Q%d", i)
			}
		}
		return n
	case KSlice, KMap, KPtr:
		return &T{K: t.K, Elem: Project(r, t.Elem, mode)}
	case KArray:
		return t
	}
	return t
}

// FieldByAvroName finds the target field for a schema field.
func (t *T) FieldByAvroName(name string) (int, *F) {
	for i, f := range t.Fields {
		if !f.Excluded() && f.AvroName() == name {
			return i, f
		}
	}
	return -1, nil
}

var _ = refavro.Equal

// Permute returns a copy of t in which the fields of every struct are in a random order (tags, options and
// field types unchanged): the Go layout no longer follows the schema's field order.
func Permute(r *rand.Rand, t *T) *T {
	if t == nil {
		return nil
	}
	switch t.K {
	case KStruct:
		if t.RTStatic != nil {
			return t
		}
		n := &T{K: KStruct, Name: t.Name}
		for _, f := range t.Fields {
			cf := *f
			cf.T = Permute(r, f.T)
			n.Fields = append(n.Fields, &cf)
		}
		r.Shuffle(len(n.Fields), func(i, j int) { n.Fields[i], n.Fields[j] = n.Fields[j], n.Fields[i] })
		return n
	case KSlice, KMap, KPtr:
		return &T{K: t.K, Elem: Permute(r, t.Elem)}
	case KArray:
		return &T{K: KArray, N: t.N, Elem: Permute(r, t.Elem)}
	}
	return &T{K: t.K, Named: t.Named, N: t.N}
}
