package gen

import (
	"math"
	"math/rand/v2"
	"reflect"
	"strings"
	"sync"
	"time"
	"unsafe"

	"github.com/unravelin/null/v5"
)

// Mode biases the value generator.
type Mode int

const (
	ModeRandom Mode = iota
	ModeFull        // pointers non-nil, collections non-empty, wrappers valid, scalars non-zero
	ModeEmpty       // everything nil / zero / invalid
)

type ValOpts struct {
	Mode          Mode
	MaxMapEntries int  // 0 = default 4
	MaxElems      int  // 0 = default 5
	NoInnerNil    bool // quarantine c01.nested-null: no non-nil pointer to a nil pointer / invalid wrapper
	NoBigStrings  bool
	NoNaN         bool
}

// Field returns a settable reflect.Value for field i even when unexported.
func Field(v reflect.Value, i int) reflect.Value {
	f := v.Field(i)
	if f.CanSet() || !f.CanAddr() {
		return f
	}
	return reflect.NewAt(f.Type(), unsafe.Pointer(f.UnsafeAddr())).Elem()
}

// NewValue allocates and fills a value of type t; the result is addressable.
func NewValue(r *rand.Rand, t *T, o ValOpts) reflect.Value {
	v := reflect.New(t.RT()).Elem()
	Fill(r, t, v, o)
	return v
}

var intBounds = []int64{0, 1, -1, 2, -2, 63, 64, -64, -65, 127, 128, -128, -129, 8191, 8192, -8192, -8193,
	32767, 32768, -32768, -32769, 1048575, 1048576, -1048576, -1048577, 134217727, 134217728, -134217728, -134217729,
	math.MaxInt32, math.MaxInt32 + 1, math.MinInt32, math.MinInt32 - 1,
	1<<34 - 1, 1 << 34, -(1 << 34), -(1 << 34) - 1, 1<<41 - 1, 1 << 41, 1<<48 - 1, 1 << 48, 1<<55 - 1, 1 << 55, -(1 << 55) - 1,
	1<<62 - 1, 1 << 62, -(1 << 62), -(1 << 62) - 1, math.MaxInt64, math.MaxInt64 - 1, math.MinInt64, math.MinInt64 + 1}

// Int returns a boundary-biased integer within [lo,hi].
func Int(r *rand.Rand, lo, hi int64, mode Mode) int64 {
	if mode == ModeEmpty {
		return 0
	}
	for tries := 0; ; tries++ {
		var v int64
		switch r.IntN(4) {
		case 0:
			v = pick(r, intBounds)
		case 1:
			v = int64(r.IntN(200)) - 100
		default:
			v = int64(r.Uint64())
			sh := r.IntN(64)
			v >>= sh
		}
		if v < lo || v > hi {
			if tries > 8 {
				v = lo + int64(r.Uint64N(uint64(hi-lo)+1))
			} else {
				continue
			}
		}
		if mode == ModeFull && v == 0 {
			v = 1
		}
		return v
	}
}

var f64specials = []uint64{0, 0x8000000000000000, 0x7ff0000000000000, 0xfff0000000000000, 0x7ff8000000000000, 0x7ff8000000000001,
	0xfff8000000000000, 0x7ff0000000000001, 0x7ff4000000000000, 0x0000000000000001, 0x000fffffffffffff, 0x0010000000000000,
	0x7fefffffffffffff, 0xffefffffffffffff, 0x3ff0000000000000, 0xbff0000000000000, 0x47efffffe0000000, 0x36a0000000000000}

func Float64(r *rand.Rand, o ValOpts) float64 {
	if o.Mode == ModeEmpty {
		return 0
	}
	for {
		var f float64
		switch r.IntN(4) {
		case 0:
			f = math.Float64frombits(pick(r, f64specials))
		case 1:
			f = float64(r.IntN(2000)-1000) / 8
		case 2:
			f = r.NormFloat64() * 1e6
		default:
			f = math.Float64frombits(r.Uint64())
		}
		if o.NoNaN && f != f {
			continue
		}
		if o.Mode == ModeFull && f == 0 {
			continue
		}
		return f
	}
}

var f32specials = []uint32{0, 0x80000000, 0x7f800000, 0xff800000, 0x7fc00000, 0x7fc00001, 0xffc00000, 0x7f800001, 0x7fa00000,
	0x00000001, 0x007fffff, 0x00800000, 0x7f7fffff, 0xff7fffff, 0x3f800000, 0xbf800000}

func Float32(r *rand.Rand, o ValOpts) float32 {
	if o.Mode == ModeEmpty {
		return 0
	}
	for {
		var f float32
		switch r.IntN(4) {
		case 0:
			f = math.Float32frombits(pick(r, f32specials))
		case 1:
			f = float32(r.IntN(2000)-1000) / 8
		default:
			f = math.Float32frombits(r.Uint32())
		}
		if o.NoNaN && f != f {
			continue
		}
		if o.Mode == ModeFull && f == 0 {
			continue
		}
		return f
	}
}

var strSpecials = []string{"", "a", "hello", "héllo wörld", "日本語", "😀🎉", "\x00", "nul\x00inside", "\xff\xfe invalid utf8 \xc3", "\xc3\x28", "quote\"back\\slash", " leading and trailing ", "\n\t\r"}

func String(r *rand.Rand, o ValOpts) string {
	if o.Mode == ModeEmpty {
		return ""
	}
	var s string
	if !o.NoBigStrings && r.IntN(400) == 0 {
		// beyond the 64 KiB steps in which the file reader grows its block buffer
		n := pick(r, []int{65535, 65536, 65537, 70000, 131072, 150000})
		return strings.Repeat("0123456789abcdef", n/16+1)[:n]
	}
	switch r.IntN(8) {
	case 0, 1, 2:
		s = pick(r, strSpecials)
	case 3:
		if o.NoBigStrings {
			s = "medium string value"
		} else {
			n := pick(r, []int{63, 64, 65, 127, 128, 129, 1000, 8191, 8192, 8193})
			s = strings.Repeat("abcdefghij", n/10+1)[:n]
		}
	default:
		n := r.IntN(20)
		b := make([]byte, n)
		for i := range b {
			b[i] = byte(32 + r.IntN(95))
		}
		s = string(b)
	}
	if o.Mode == ModeFull && s == "" {
		s = "x"
	}
	return s
}

func Bytes(r *rand.Rand, o ValOpts) []byte {
	if o.Mode == ModeEmpty {
		return nil
	}
	switch r.IntN(8) {
	case 0:
		if o.Mode == ModeFull {
			return []byte{1}
		}
		return nil
	case 1:
		if o.Mode == ModeFull {
			return []byte{0}
		}
		return []byte{}
	case 2:
		if o.NoBigStrings {
			return []byte("medium bytes")
		}
		n := pick(r, []int{63, 64, 65, 8191, 8192})
		b := make([]byte, n)
		for i := range b {
			b[i] = byte(i * 7)
		}
		return b
	default:
		n := 1 + r.IntN(12)
		b := make([]byte, n)
		for i := range b {
			b[i] = byte(r.IntN(256))
		}
		return b
	}
}

// Time returns a time within years 0000..9999 (wall clock), whole-minute
// offset, never the zero instant unless it is the zero value itself.
func Time(r *rand.Rand, o ValOpts) time.Time {
	if o.Mode == ModeEmpty {
		return time.Time{}
	}
	if o.Mode == ModeRandom && r.IntN(8) == 0 {
		return time.Time{}
	}
	// now and then the previous time again, or the same instant seen from another zone (consecutive values that
	// are Equal but not identical)
	lastTimeMu.Lock()
	prev := lastTime
	lastTimeMu.Unlock()
	if !prev.IsZero() && prev.Year() > 2 && prev.Year() < 9998 {
		switch r.IntN(16) {
		case 0:
			return prev
		case 1, 2:
			off := (r.IntN(2*(23*60+59)+1) - (23*60 + 59)) * 60
			return prev.In(time.FixedZone("", off))
		}
	}
	t := freshTime(r)
	lastTimeMu.Lock()
	lastTime = t
	lastTimeMu.Unlock()
	return t
}

var (
	lastTimeMu sync.Mutex
	lastTime   time.Time
)

// ResetState forgets what the generators remember between values (called at the start of every case).
func ResetState() {
	lastTimeMu.Lock()
	lastTime = time.Time{}
	lastTimeMu.Unlock()
}

func freshTime(r *rand.Rand) time.Time {
	var loc *time.Location
	switch r.IntN(4) {
	case 0:
		loc = time.UTC
	case 1:
		loc = time.FixedZone("", 0)
	default:
		off := (r.IntN(2*(23*60+59)+1) - (23*60 + 59)) * 60
		loc = time.FixedZone("", off)
	}
	var year int
	switch r.IntN(6) {
	case 0:
		year = pick(r, []int{0, 1, 2, 1969, 1970, 1971, 9998, 9999, 1000, 999})
	default:
		year = 1900 + r.IntN(250)
	}
	var ns int
	switch r.IntN(5) {
	case 0:
		ns = 0
	case 1:
		ns = r.IntN(1000) * 1e6
	case 2:
		ns = r.IntN(1e6) * 1e3
	case 3:
		ns = pick(r, []int{1, 999999999, 100000000, 10, 123456789, 500})
	default:
		ns = r.IntN(1e9)
	}
	mon := 1 + r.IntN(12)
	day := 1 + r.IntN(28)
	if year == 0 && mon == 1 && day == 1 {
		day = 2
	}
	if year == 9999 && mon == 12 {
		mon = 11
	}
	if year == 1 && mon == 1 && day < 3 {
		day = 3 // keep clear of the zero instant in every offset
	}
	t := time.Date(year, time.Month(mon), day, r.IntN(24), r.IntN(60), r.IntN(60), ns, loc)
	return t
}

// CollidingNames: pairs of different strings with the same 32-bit FNV-1a hash (the first two pairs also have
// equal lengths): what a lookup that trusts a hash cannot tell apart.
var CollidingNames = []string{"declinate", "macallums", "altarages", "zinkes", "costarring", "liquid", "altarage", "zinke"}

func mapKey(r *rand.Rand, i int) string {
	switch r.IntN(6) {
	case 1:
		if i < len(CollidingNames) {
			return CollidingNames[i]
		}
		return "k" + string(rune('a'+i)) + string(rune('0'+r.IntN(10)))
	case 0:
		return pick(r, []string{"", "k", "ключ", "\xff\x00", "a b", "k\"q"}) + string(rune('a'+i))
	default:
		return "k" + string(rune('a'+i)) + string(rune('0'+r.IntN(10)))
	}
}

// Fill fills addressable v (of type t.RT()) in place.
func Fill(r *rand.Rand, t *T, v reflect.Value, o ValOpts) {
	switch t.K {
	case KBool:
		v.SetBool(o.Mode == ModeFull || (o.Mode == ModeRandom && r.IntN(2) == 0))
	case KInt, KInt64:
		v.SetInt(Int(r, math.MinInt64, math.MaxInt64, o.Mode))
	case KInt32:
		v.SetInt(Int(r, math.MinInt32, math.MaxInt32, o.Mode))
	case KInt16:
		v.SetInt(Int(r, math.MinInt16, math.MaxInt16, o.Mode))
	case KInt8:
		v.SetInt(Int(r, math.MinInt8, math.MaxInt8, o.Mode))
	case KFloat64:
		v.SetFloat(Float64(r, o))
	case KFloat32:
		v.SetFloat(float64(Float32(r, o)))
	case KString:
		v.SetString(String(r, o))
	case KBytes:
		b := Bytes(r, o)
		if b == nil {
			v.SetZero()
		} else {
			v.SetBytes(b)
		}
	case KTime:
		t := Time(r, o)
		if o.Mode == ModeFull && t.IsZero() {
			t = time.Date(2001, 2, 3, 4, 5, 6, 7, time.UTC)
		}
		v.Set(reflect.ValueOf(t))
	case KNullInt:
		valid := o.Mode == ModeFull || (o.Mode == ModeRandom && r.IntN(3) != 0)
		var n null.Int
		n.Valid = valid
		if valid || (o.Mode == ModeRandom && r.IntN(3) == 0) {
			n.Int64 = Int(r, math.MinInt64, math.MaxInt64, ModeRandom)
		}
		v.Set(reflect.ValueOf(n))
	case KNullBool:
		valid := o.Mode == ModeFull || (o.Mode == ModeRandom && r.IntN(3) != 0)
		var n null.Bool
		n.Valid = valid
		if valid || (o.Mode == ModeRandom && r.IntN(3) == 0) {
			n.Bool = r.IntN(2) == 0
		}
		v.Set(reflect.ValueOf(n))
	case KNullFloat:
		valid := o.Mode == ModeFull || (o.Mode == ModeRandom && r.IntN(3) != 0)
		var n null.Float
		n.Valid = valid
		if valid || (o.Mode == ModeRandom && r.IntN(3) == 0) {
			oo := o
			oo.Mode = ModeRandom
			n.Float64 = Float64(r, oo)
		}
		v.Set(reflect.ValueOf(n))
	case KNullString:
		valid := o.Mode == ModeFull || (o.Mode == ModeRandom && r.IntN(3) != 0)
		var n null.String
		n.Valid = valid
		if valid || (o.Mode == ModeRandom && r.IntN(3) == 0) {
			oo := o
			oo.Mode = ModeRandom
			n.String = String(r, oo)
		}
		v.Set(reflect.ValueOf(n))
	case KNullTime:
		valid := o.Mode == ModeFull || (o.Mode == ModeRandom && r.IntN(3) != 0)
		var n null.Time
		n.Valid = valid
		if valid || (o.Mode == ModeRandom && r.IntN(3) == 0) {
			oo := o
			oo.Mode = ModeRandom
			n.Time = Time(r, oo)
		}
		v.Set(reflect.ValueOf(n))
	case KStruct:
		for i, f := range t.Fields {
			fo := o
			if f.Excluded() {
				// excluded fields carry garbage on the writer side
				fo.Mode = ModeFull
			}
			Fill(r, f.T, Field(v, i), fo)
		}
	case KSlice:
		maxn := o.MaxElems
		if maxn == 0 {
			maxn = 5
		}
		var n int
		switch o.Mode {
		case ModeEmpty:
			v.SetZero()
			return
		case ModeFull:
			n = 1 + r.IntN(maxn)
		default:
			switch r.IntN(8) {
			case 0:
				v.SetZero()
				return
			case 1:
				n = 0
			case 2:
				n = 1 + r.IntN(4*maxn)
				if r.IntN(4) == 0 {
					n = 17 + r.IntN(90) // arenas grow several times within one record
				}
			default:
				n = 1 + r.IntN(maxn)
			}
		}
		s := reflect.MakeSlice(t.RT(), n, n+r.IntN(3))
		for i := 0; i < n; i++ {
			Fill(r, t.Elem, s.Index(i), o)
		}
		v.Set(s)
	case KMap:
		maxn := o.MaxMapEntries
		if maxn == 0 {
			maxn = 4
		}
		var n int
		switch o.Mode {
		case ModeEmpty:
			v.SetZero()
			return
		case ModeFull:
			n = 1 + r.IntN(maxn)
		default:
			switch r.IntN(8) {
			case 0:
				v.SetZero()
				return
			case 1:
				n = 0
			default:
				n = 1 + r.IntN(maxn)
			}
		}
		m := reflect.MakeMapWithSize(t.RT(), n)
		for i := 0; i < n; i++ {
			e := reflect.New(t.Elem.RT()).Elem()
			Fill(r, t.Elem, e, o)
			m.SetMapIndex(reflect.ValueOf(mapKey(r, i)), e)
		}
		v.Set(m)
	case KPtr:
		if o.Mode == ModeEmpty || (o.Mode == ModeRandom && r.IntN(3) == 0) {
			v.SetZero()
			return
		}
		p := reflect.New(t.Elem.RT())
		eo := o
		if o.NoInnerNil && IsNullable(t.Elem) {
			eo.Mode = ModeFull
		}
		Fill(r, t.Elem, p.Elem(), eo)
		v.Set(p)
	default:
		// unsupported kinds: leave zero
	}
}

// IsNullable reports whether a value of t can itself be "null" on the wire
// (pointer, null.* wrapper, time.Time).
func IsNullable(t *T) bool {
	switch t.K {
	case KPtr, KNullInt, KNullBool, KNullFloat, KNullString, KNullTime, KTime:
		return true
	}
	return false
}
